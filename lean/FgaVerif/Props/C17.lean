import FgaVerif.Model.PGraph
import FgaVerif.Proofs.PGraphBuild
import FgaVerif.Proofs.PGraphCycles
/-!
# C17 — plain model graph: faithful, reversible, stable DOT, sound path queries

About the port of the plain graph (`Model/PGraph.lean`; gonum's multigraph is modelled by its observable
content: nodes with ids in creation order, lines with per-(from,to) ids in creation order; tied to the
code by correspondence on the node list, the line list in DOT order, the reversal, the double reversal,
the all-pairs reachability matrix and the two cycle flags).  Proved for **every** graph value:

* `reversed_flips` — reversing keeps the nodes, flips source and target of every line, keeps its id,
  kind and tupleset label, and toggles the drawing direction; nothing else changes;
* `reversed_involutive` — reversing twice gives back the identical graph, hence the identical list of
  lines in DOT order (`double_reversal_same_dot_lines`): the DOT text, a function of that content, is
  restored.  (This was false of the code before the `fix:` commit that re-adds the lines in id order.)
* `path_duality` — a path from a to b exists in the graph iff one exists from b to a in the reversed
  graph, for the declarative path relation `Path`.

* `built_graph_lines_valid` — every line of a graph built from a model connects nodes that exist (ids
  below the number of nodes): the builder only draws lines between nodes it has created;
* `path_query_exact`, `path_query_exact_reversed` — on such a graph the port's path query
  (`pathExistsIds`, a fuelled breadth-first search) answers true **iff** a path exists (`Path`), and
  likewise on the reversed graph: the search is sound, and complete because its fuel covers the potential
  `|work| + |nodes| − |seen|`, which decreases by one per step.

* cycle flags (`Proofs/PGraphCycles.lean`; `IsCycle g c`: `c = [s, x₁, …, xₖ, s]`, consecutive nodes joined
  by a line in the direction source → target, `s, x₁, …, xₖ` pairwise distinct; `k = 0` is a self loop,
  `c.length > 2` a cycle over two or more nodes; `IsMinCycle`: moreover `s` is the smallest node):
  - `cycles_listed_sound` — every cycle the port's enumeration (`allCycles`, the stand-in for gonum's
    `topo.DirectedCyclesIn`) lists is a simple cycle of the graph written from its smallest node;
  - `cycles_listed_complete`, `cycles_listed_exact`, `proper_cycle_iff_listed` — on a graph whose lines
    connect existing nodes (`LinesValid`, true of every built graph) every simple cycle, written from any of
    its nodes, is listed in the rotation that starts at its smallest node (the fuel `|nodes| + 1` suffices: a
    duplicate-free list of numbers below n has at most n elements); the list is exactly the set of
    `IsMinCycle`s;
  - `no_cycle_no_flags`, `acyclic_no_flags`, `acyclic_model_no_flags` — no self loop and no simple cycle over
    two or more nodes: both flags false (`some (false, false)`); `no_flags_no_cycle` is the converse.  With a
    self loop the port's flags are undefined (`cycle_flags_undefined_iff`: `none` iff a self loop exists —
    gonum's answer on self loops is outside the model);
  - `computed_cycle_flagged`, `computed_cycle_model_flagged` — if some simple cycle over two or more nodes is
    such that **every line of the graph between two of its nodes** is a computed line, the compile-time flag
    is set.  The hypothesis is about all lines among the cycle's nodes and not only the lines of the cycle
    because the classification (`nodeListHasNonComputedEdge`, as in the code) inspects every line from an
    earlier to a later position of the node list, parallel lines and chords included
    (`classification_exact`); `chord_defeats_compile_flag` below is a graph with a pure computed 3-cycle and
    a direct chord whose compile-time flag is false;
  - `flags_exact` — exact meaning of both flags on a `LinesValid` graph; `compile_flag_sound`,
    `compile_flag_computed_walk` — the compile-time flag is only set when a simple cycle over two or more
    nodes runs along computed lines only (no hypothesis on the graph).

That gonum's `topo.PathExistsIn` gives the same answers as the port's search is validated by the
all-pairs correspondence, **not proved** (gonum is a parameter).  Likewise that gonum's
`topo.DirectedCyclesIn` (Johnson) yields, up to order and rotation, the cycles the port lists is validated by
the correspondence on the two flags, **not proved**; what is proved is that the port's list is the set of
simple cycles.  That a *model* whose relations form a cycle of computed usersets yields such a graph cycle is
shown on an example only (it needs well-formedness of the model: distinct type names without `#`, …).  DOT
text stability across builds is oracle/correspondence only (gonum's DOT writer is a parameter).
-/
namespace FgaVerif.Props.C17
open FgaVerif.Model.PGraph

theorem reversed_flips (g : G) :
    (reversed g).nodes = g.nodes ∧ (reversed g).listObjects = !g.listObjects ∧
    (reversed g).lines = g.lines.map (fun l => { l with src := l.dst, dst := l.src }) ∧
    (reversed g).lines.length = g.lines.length := by
  simp [reversed]

theorem reversed_involutive (g : G) : reversed (reversed g) = g := by
  cases g with
  | mk nodes lines lo oc =>
    simp only [reversed, List.map_map, Bool.not_not, G.mk.injEq, true_and, and_true]
    conv => rhs; rw [← List.map_id lines]
    apply List.map_congr_left
    intro l _
    cases l; rfl

theorem double_reversal_same_dot_lines (g : G) : dotLines (reversed (reversed g)) = dotLines g := by
  rw [reversed_involutive]

/-- there is a path (possibly empty) from `a` to `b` along lines -/
inductive Path (g : G) : Nat → Nat → Prop
  | refl (a : Nat) : Path g a a
  | step (a b c : Nat) : (∃ l ∈ g.lines, l.src = a ∧ l.dst = b) → Path g b c → Path g a c

theorem Path.trans {g : G} {a b c : Nat} (h1 : Path g a b) (h2 : Path g b c) : Path g a c := by
  induction h1 with
  | refl => exact h2
  | step a b _ hl _ ih => exact .step a b c hl (ih h2)

theorem Path.snoc {g : G} {a b c : Nat} (h1 : Path g a b) (hl : ∃ l ∈ g.lines, l.src = b ∧ l.dst = c) : Path g a c :=
  h1.trans (.step b c c hl (.refl c))

theorem line_reversed (g : G) (a b : Nat) :
    (∃ l ∈ (reversed g).lines, l.src = a ∧ l.dst = b) ↔ (∃ l ∈ g.lines, l.src = b ∧ l.dst = a) := by
  simp only [reversed, List.mem_map]
  constructor
  · rintro ⟨l, ⟨l0, hl0, rfl⟩, h1, h2⟩
    exact ⟨l0, hl0, h2, h1⟩
  · rintro ⟨l, hl, h1, h2⟩
    exact ⟨{ l with src := l.dst, dst := l.src }, ⟨l, hl, rfl⟩, h2, h1⟩

theorem path_reversed_of_path (g : G) (a b : Nat) (h : Path g a b) : Path (reversed g) b a := by
  induction h with
  | refl a => exact .refl a
  | step a b c hl _ ih => exact ih.snoc ((line_reversed g b a).2 hl)

/-- **path duality** -/
theorem path_duality (g : G) (a b : Nat) : Path g a b ↔ Path (reversed g) b a := by
  constructor
  · exact path_reversed_of_path g a b
  · intro h
    have := path_reversed_of_path (reversed g) b a h
    rwa [reversed_involutive] at this

/-! ## non-vacuity: a graph with two parallel lines of different kinds between the same nodes -/
def g0 : G :=
  { nodes := [⟨0, "doc", .specificType, "doc"⟩, ⟨1, "doc#a", .typeAndRelation, "doc#a"⟩],
    lines := [⟨0, 1, 0, .direct, ""⟩, ⟨0, 1, 1, .ttu, "doc#p"⟩] }
example : (reversed g0).lines = [⟨1, 0, 0, .direct, ""⟩, ⟨1, 0, 1, .ttu, "doc#p"⟩] := by decide
example : Path g0 0 1 := .step 0 1 1 ⟨⟨0, 1, 0, .direct, ""⟩, by simp [g0], rfl, rfl⟩ (.refl 1)
example : pathExistsIds g0 0 1 = true ∧ pathExistsIds (reversed g0) 1 0 = true ∧ pathExistsIds g0 1 0 = false := by
  decide

/-! ### the path query decides the path relation -/

theorem path_iff_reach (g : G) (a b : Nat) : Path g a b ↔ Reach g a b := by
  constructor
  · intro h
    induction h with
    | refl a => exact Reach.refl a
    | step a b c hl _ ih =>
      -- prepend one line to a reachability proof
      have hs : Succ g a b := (succ_iff_line g a b).2 hl
      have pre : ∀ {x y : Nat}, Reach g x y → ∀ w, Succ g w x → Reach g w y := by
        intro x y hxy
        induction hxy with
        | refl => intro w hw; exact Reach.step (Reach.refl w) hw
        | step _ hs2 ih2 => intro w hw; exact Reach.step (ih2 w hw) hs2
      exact pre ih a hs
  · intro h
    induction h with
    | refl => exact Path.refl _
    | step _ hs ih => exact Path.snoc ih ((succ_iff_line g _ _).1 hs)

theorem built_graph_lines_valid (m : FgaVerif.Model.Model) :
    ∀ l ∈ (build m).lines, l.src < (build m).nodes.length ∧ l.dst < (build m).nodes.length :=
  (build_lines_valid m).1

/-- **the path query of a built graph answers true iff a path exists** -/
theorem path_query_exact (m : FgaVerif.Model.Model) (a b : Nat) (ha : a < (build m).nodes.length) :
    pathExistsIds (build m) a b = true ↔ Path (build m) a b := by
  rw [pathExistsIds_iff (build m) (build_lines_valid m).1 a b ha, path_iff_reach]

theorem reversed_lines_valid (g : G) (h : LinesValid g) : LinesValid (reversed g) := by
  intro l hl
  unfold reversed at hl
  obtain ⟨l0, hl0, rfl⟩ := List.mem_map.1 hl
  have := h l0 hl0
  exact ⟨this.2, this.1⟩

/-- the same on the reversed graph -/
theorem path_query_exact_reversed (m : FgaVerif.Model.Model) (a b : Nat) (ha : a < (build m).nodes.length) :
    pathExistsIds (reversed (build m)) a b = true ↔ Path (reversed (build m)) a b := by
  rw [pathExistsIds_iff (reversed (build m)) (reversed_lines_valid _ (build_lines_valid m).1) a b (by simpa [reversed] using ha),
    path_iff_reach]

/-! ## cycle flags -/

/-- **soundness of the enumeration** -/
theorem cycles_listed_sound (g : G) (c : List Nat) (h : c ∈ allCycles g) :
    IsCycle g c ∧ IsMinCycle g c ∧ ∃ s, c.head? = some s ∧ s < g.nodes.length :=
  ⟨allCycles_sound g c h, allCycles_sound_min g c h⟩

/-- **completeness of the enumeration** (any rotation) -/
theorem cycles_listed_complete (g : G) (hv : LinesValid g) (c : List Nat) (h : IsCycle g c) :
    ∃ c' ∈ allCycles g, IsMinCycle g c' ∧
      (∃ pre post, c.dropLast = pre ++ post ∧ c'.dropLast = post ++ pre) ∧
      c'.length = c.length ∧ ∀ x, x ∈ c' ↔ x ∈ c :=
  allCycles_complete g hv c h

theorem cycles_listed_exact (g : G) (hv : LinesValid g) (c : List Nat) : c ∈ allCycles g ↔ IsMinCycle g c :=
  mem_allCycles_iff g hv c

theorem proper_cycle_iff_listed (g : G) (hv : LinesValid g) :
    (∃ c, IsCycle g c ∧ c.length > 2) ↔ ∃ c' ∈ allCycles g, c'.length > 2 :=
  FgaVerif.Model.PGraph.proper_cycle_iff_listed g hv

theorem cycle_nodes_exist (g : G) (hv : LinesValid g) (c : List Nat) (h : IsCycle g c) :
    ∀ x ∈ c, x < g.nodes.length :=
  cycle_nodes_lt g hv c h

/-- the flags are undefined exactly when some line is a self loop -/
theorem cycle_flags_undefined_iff (g : G) : cycleFlags g = none ↔ ∃ a, ∃ l ∈ g.lines, l.src = a ∧ l.dst = a := by
  rw [cycleFlags_none_iff, hasSelfLoop_iff]; rfl

/-- the classification of a listed cycle: "compile time" iff every line from an earlier to a later
    position of the node list is a computed line -/
theorem classification_exact (g : G) (c : List Nat) :
    nodeListHasNonComputedEdge g c = false ↔
      c.Pairwise (fun a b => ∀ l ∈ g.lines, l.src = a → l.dst = b → l.etype = .computed) :=
  nodeList_eq_false g c

/-- **an acyclic graph reports no cycle** -/
theorem no_cycle_no_flags (g : G) (hs : hasSelfLoop g = false) (h : ¬ ∃ c, IsCycle g c ∧ c.length > 2) :
    cycleFlags g = some (false, false) :=
  FgaVerif.Model.PGraph.no_cycle_no_flags g hs h

theorem acyclic_no_flags (g : G) (h : ∀ c, ¬ IsCycle g c) : cycleFlags g = some (false, false) :=
  FgaVerif.Model.PGraph.acyclic_no_flags g h

theorem acyclic_model_no_flags (m : FgaVerif.Model.Model) (h : ∀ c, ¬ IsCycle (build m) c) :
    cycleFlags (build m) = some (false, false) :=
  FgaVerif.Model.PGraph.acyclic_no_flags _ h

theorem no_flags_no_cycle (g : G) (hv : LinesValid g) (h : cycleFlags g = some (false, false)) :
    ¬ ∃ c, IsCycle g c ∧ c.length > 2 :=
  FgaVerif.Model.PGraph.no_flags_no_cycle g hv h

/-- **a cycle of pure computed usersets is reported as a compile-time cycle** -/
theorem computed_cycle_flagged (g : G) (hv : LinesValid g) (hs : hasSelfLoop g = false) (c : List Nat)
    (hc : IsCycle g c) (hl : c.length > 2)
    (hcomp : ∀ l ∈ g.lines, l.src ∈ c → l.dst ∈ c → l.etype = .computed) :
    ∃ r, cycleFlags g = some (true, r) :=
  FgaVerif.Model.PGraph.computed_cycle_flagged g hv hs c hc hl hcomp

/-- the same for the graph of a model (its lines always connect existing nodes) -/
theorem computed_cycle_model_flagged (m : FgaVerif.Model.Model) (hs : hasSelfLoop (build m) = false) (c : List Nat)
    (hc : IsCycle (build m) c) (hl : c.length > 2)
    (hcomp : ∀ l ∈ (build m).lines, l.src ∈ c → l.dst ∈ c → l.etype = .computed) :
    ∃ r, cycleFlags (build m) = some (true, r) :=
  FgaVerif.Model.PGraph.computed_cycle_flagged _ (build_lines_valid m).1 hs c hc hl hcomp

/-- exact meaning of both flags -/
theorem flags_exact (g : G) (hv : LinesValid g) (t r : Bool) (h : cycleFlags g = some (t, r)) :
    (t = true ↔ ∃ c, IsMinCycle g c ∧ c.length > 2 ∧ c.Pairwise (OnlyComputed g)) ∧
    (r = true ↔ ∃ c, IsMinCycle g c ∧ c.length > 2 ∧ ¬ c.Pairwise (OnlyComputed g)) :=
  FgaVerif.Model.PGraph.flags_exact g hv t r h

/-- converse of `computed_cycle_flagged`, for every graph -/
theorem compile_flag_sound (g : G) (r : Bool) (h : cycleFlags g = some (true, r)) :
    ∃ c, IsMinCycle g c ∧ c.length > 2 ∧ c.Pairwise (OnlyComputed g) :=
  FgaVerif.Model.PGraph.compile_flag_sound g r h

theorem compile_flag_computed_walk (g : G) (r : Bool) (h : cycleFlags g = some (true, r)) :
    ∃ s mid, mid ≠ [] ∧ (s :: mid).Nodup ∧ ComputedWalk g s (mid ++ [s]) :=
  FgaVerif.Model.PGraph.compile_flag_computed_walk g r h

/-! ### non-vacuity -/

/-- `type doc  relations  define a: b  define b: a` -/
def mAB : FgaVerif.Model.Model :=
  { schema := "1.1", types := [{ name := "doc", relations := [("a", .computed "b"), ("b", .computed "a")] }] }
def gAB : G :=
  { nodes := [⟨0, "doc", .specificType, "doc"⟩, ⟨1, "doc#a", .typeAndRelation, "doc#a"⟩,
              ⟨2, "doc#b", .typeAndRelation, "doc#b"⟩],
    lines := [⟨2, 1, 0, .computed, ""⟩, ⟨1, 2, 0, .computed, ""⟩] }
theorem build_mAB : build mAB = gAB := by rfl

/-- the hypotheses of `computed_cycle_model_flagged` hold of the two-relation cycle … -/
example : ∃ r, cycleFlags (build mAB) = some (true, r) :=
  computed_cycle_model_flagged mAB (by rw [build_mAB]; decide) [1, 2, 1]
    ⟨1, [2], rfl, by decide, by rw [build_mAB]; simp [Walk, Line, gAB]⟩ (by decide) (by rw [build_mAB]; decide)
/-- … also written from its other node … -/
example : IsCycle (build mAB) [2, 1, 2] :=
  ⟨2, [1], rfl, by decide, by rw [build_mAB]; simp [Walk, Line, gAB]⟩
/-- … and the flags evaluate to (compile time, not runtime) -/
example : cycleFlags (build mAB) = some (true, false) := by
  rw [build_mAB]
  simp [cycleFlags, hasSelfLoop, allCycles, gAB, cyclesFrom, cyclesVia, succSet, succs, List.range, List.range.loop,
    List.eraseDups_cons, nodeListHasNonComputedEdge, hasNonComputedBetween]
  decide
example : allCycles (build mAB) = [[1, 2, 1]] := by
  rw [build_mAB]
  simp [allCycles, gAB, cyclesFrom, cyclesVia, succSet, succs, List.range, List.range.loop, List.eraseDups_cons]

/-- `type doc  relations  define a: b  define b: c or d` — acyclic -/
def mAcyc : FgaVerif.Model.Model :=
  { schema := "1.1",
    types := [{ name := "doc", relations := [("a", .computed "b"), ("b", .union [.computed "c", .computed "d"])] }] }
def gAcyc : G :=
  { nodes := [⟨0, "doc", .specificType, "doc"⟩, ⟨1, "doc#a", .typeAndRelation, "doc#a"⟩,
              ⟨2, "doc#b", .typeAndRelation, "doc#b"⟩, ⟨3, "union", .operator, "union:0"⟩,
              ⟨4, "doc#c", .typeAndRelation, "doc#c"⟩, ⟨5, "doc#d", .typeAndRelation, "doc#d"⟩],
    lines := [⟨2, 1, 0, .computed, ""⟩, ⟨3, 2, 0, .rewrite, ""⟩, ⟨4, 3, 0, .rewrite, ""⟩, ⟨5, 3, 0, .rewrite, ""⟩],
    opCount := 1 }
theorem build_mAcyc : build mAcyc = gAcyc := by rfl

/-- the hypothesis of `acyclic_model_no_flags` holds (every line goes from a larger to a smaller id) … -/
example : ∀ c, ¬ IsCycle (build mAcyc) c :=
  no_cycle_of_rank _ id (by rw [build_mAcyc]; decide)
example : cycleFlags (build mAcyc) = some (false, false) :=
  acyclic_model_no_flags mAcyc (no_cycle_of_rank _ id (by rw [build_mAcyc]; decide))
/-- … and the flags evaluate to "none reported" -/
example : cycleFlags (build mAcyc) = some (false, false) := by
  rw [build_mAcyc]
  simp [cycleFlags, hasSelfLoop, allCycles, gAcyc, cyclesFrom, cyclesVia, succSet, succs, List.range, List.range.loop,
    List.eraseDups_cons]

/-- why `computed_cycle_flagged` asks about all lines among the nodes of the cycle: a pure computed cycle
    0 → 1 → 2 → 0 with a direct chord 0 → 2 is not reported at compile time (both listed cycles,
    `[0, 1, 2, 0]` and `[0, 2, 0]`, see the direct line) -/
def gChord : G :=
  { nodes := [⟨0, "t#a", .typeAndRelation, "t#a"⟩, ⟨1, "t#b", .typeAndRelation, "t#b"⟩,
              ⟨2, "t#c", .typeAndRelation, "t#c"⟩],
    lines := [⟨0, 1, 0, .computed, ""⟩, ⟨1, 2, 0, .computed, ""⟩, ⟨2, 0, 0, .computed, ""⟩, ⟨0, 2, 0, .direct, ""⟩] }
theorem chord_defeats_compile_flag :
    ComputedWalk gChord 0 [1, 2, 0] ∧ cycleFlags gChord = some (false, true) := by
  constructor
  · simp [ComputedWalk, Line, OnlyComputed, gChord]
  · simp [cycleFlags, hasSelfLoop, allCycles, gChord, cyclesFrom, cyclesVia, succSet, succs, List.range,
      List.range.loop, List.eraseDups_cons, nodeListHasNonComputedEdge, hasNonComputedBetween]
    decide

/-- a self loop: the flags are undefined -/
example : cycleFlags { nodes := [⟨0, "t#a", .typeAndRelation, "t#a"⟩], lines := [⟨0, 0, 0, .computed, ""⟩] } = none := by
  decide


end FgaVerif.Props.C17
