import FgaVerif.Proofs.Weights
import FgaVerif.Proofs.ReachComplete
import FgaVerif.Proofs.WAssign
import FgaVerif.Proofs.WAssignWild
import FgaVerif.Proofs.WGraph
/-! # C11 — wildcard sets are the reachable public types (specification side)

    As for C04, the real wildcard lists (nodes and edges, every forced traversal order) are compared
    with `Spec.Weights.wildTargets`; the Go propagation through cycle resolution is ported in
    `Model/WAssign.lean` (one theorem about it below) but not proved to compute this set.

    Proved for every specification graph and node:
    * `wildcard_set_sound` — every type in the set is the type of a `T:*` restriction that is reachable
      from the node by following edges (declarative reachability `Reach`).
    * `wildcard_set_no_duplicates` — the list has no duplicates.
    * `no_wildcard_reachable_empty` — if no `T:*` edge is reachable the list is empty.

    * `wildcard_set_complete`, `wildcard_set_exact` — on a graph in which every referenced node exists
      (`Closed`; evaluated by the driver on every input) every reachable `T:*` is listed: the fuel of
      the search suffices (potential `|work| + |U| − |seen|` decreases by one per step), so the set is
      **exactly** the public types reachable by following edges.

    And one clause about the **algorithm itself**: `Model/WAssign.lean` is a port of `AssignWeights`
    with its wildcard propagation (`addWildcardToEdge`, `addEdgeWildcardsToNode`,
    `calculateEdgeWildcards`, `addReferentialWildcardsTo{Edge,Node}`), compared with the real code on
    every node and edge under every forced start order (stream `corr:wassign`).
    * `algorithm_wildcard_lists_no_duplicates` — for every graph and every start order, if the
      assignment succeeds then no wildcard list of a node or of an edge contains a duplicate.  It is an
      invariant of the whole computation (`Proofs/WAssign.lean`: every writer copies a duplicate-free
      list or appends an element it has just found absent; the depth-first recursion, cycle
      resolution and the dependency fix-ups preserve it), not a property of the final sets only.

    The port IS now proved to compute the reachable public types (last section, `Proofs/WAssignWild.lean`), as
    post-conditions of a successful assignment for every graph and start order: `algorithm_edge_wildcards_on_success`
    (edge into `T:*` ↦ `[T]`, into a type ↦ `[]`, otherwise the same set as the final list of the target, also on
    and behind tuple cycles), `algorithm_node_wildcards_on_success` (node list = union of its edges' lists, every
    node kind), `algorithm_wildcards_sound` / `_complete` / `_exact` (the list of a visited node is exactly the set
    of `T` with a reachable `T:*` node), `algorithm_no_wildcard_reachable_empty`; with the counterexample
    `placeholder_named_type_breaks_wildcards` for the side condition `noPHTypesB`. -/
namespace FgaVerif.Props.C11
open FgaVerif.Spec.Weights

theorem wildcard_set_sound (g : SGraph) (n t : String) (h : t ∈ wildTargets g n) :
    ∃ x, Reach g true n x ∧ HasWildcardEdge g x t := wildTargets_sound g n t h

theorem wildcard_set_no_duplicates (g : SGraph) (n : String) : (wildTargets g n).Nodup :=
  wildTargets_nodup g n

theorem no_wildcard_reachable_empty (g : SGraph) (n : String)
    (h : ∀ x t, Reach g true n x → ¬ HasWildcardEdge g x t) : wildTargets g n = [] := by
  cases hw : wildTargets g n with
  | nil => rfl
  | cons t rest =>
    obtain ⟨x, hr, hx⟩ := wildcard_set_sound g n t (by rw [hw]; simp)
    exact absurd hx (h x t hr)

theorem wildcard_set_complete (g : SGraph) (hc : Closed g) (n t x : String)
    (hr : Reach g true n x) (hw : HasWildcardEdge g x t) : t ∈ wildTargets g n :=
  wildTargets_complete g hc n t x hr hw

/-- the wildcard set of a node is exactly the set of reachable public restrictions -/
theorem wildcard_set_exact (g : SGraph) (hc : Closed g) (n t : String) :
    t ∈ wildTargets g n ↔ ∃ x, Reach g true n x ∧ HasWildcardEdge g x t :=
  ⟨wildcard_set_sound g n t, fun ⟨x, hr, hw⟩ => wildcard_set_complete g hc n t x hr hw⟩

/-- the ported algorithm never produces a wildcard list with a duplicate -/
theorem algorithm_wildcard_lists_no_duplicates (g : FgaVerif.Model.WGraph.G) (order : List String)
    (st : FgaVerif.Model.WAssign.AState) (h : FgaVerif.Model.WAssign.assignWeights g order = .ok st) :
    (∀ n, (FgaVerif.Model.WAssign.aget n st.nodeWild).Nodup) ∧
    (∀ r, (FgaVerif.Model.WAssign.aget r st.edgeWild).Nodup) := by
  have hinv := FgaVerif.Model.WAssign.assignWeights_wildNodup g order st h
  exact ⟨fun n => FgaVerif.Model.WAssign.aget_allP FgaVerif.Model.WAssign.nodup_default hinv.node n,
    fun r => FgaVerif.Model.WAssign.aget_allP FgaVerif.Model.WAssign.nodup_default hinv.edge r⟩

/-! ### non-vacuity: a public restriction behind a tuple cycle -/
def demo : SGraph := [
  ⟨"doc#a", .rel, [⟨.node "doc#b", true, ""⟩]⟩,
  ⟨"doc#b", .rel, [⟨.node "doc#a", true, ""⟩, ⟨.wildcard "user", true, ""⟩, ⟨.wildcard "bot", true, ""⟩]⟩,
  ⟨"doc#c", .rel, [⟨.type "user", true, ""⟩]⟩]

example : wildTargets demo "doc#a" = ["bot", "user"] ∧ wildTargets demo "doc#c" = [] := by decide

/-! ### non-vacuity for the algorithm: `define a: [user:*, doc#b]`, `define b: [bot:*, doc#a]` — a tuple
    cycle with a public restriction on each side; started from `doc#b`, the assignment succeeds and both
    nodes end with both public types, each once -/
open FgaVerif.Model.WGraph FgaVerif.Model.WAssign in
def algoDemo : G := {
  nodes := [⟨"doc#a", "doc#a", .typeAndRelation⟩, ⟨"user:*", "user:*", .wildcard⟩,
            ⟨"doc#b", "doc#b", .typeAndRelation⟩, ⟨"bot:*", "bot:*", .wildcard⟩],
  edges := [("doc#a", [⟨"doc#a", "user:*", .direct, "", ["none"]⟩, ⟨"doc#a", "doc#b", .direct, "", ["none"]⟩]),
            ("doc#b", [⟨"doc#b", "bot:*", .direct, "", ["none"]⟩, ⟨"doc#b", "doc#a", .direct, "", ["none"]⟩])] }

open FgaVerif.Model.WGraph FgaVerif.Model.WAssign in
example : (match assignWeights algoDemo ["doc#b"] with
    | .ok st => (aget "doc#a" st.nodeW, aget "doc#a" st.nodeWild, aget "doc#b" st.nodeWild)
    | .error _ => ([], [], [])) =
    ([("bot", FgaVerif.Model.WAssign.infinite), ("user", FgaVerif.Model.WAssign.infinite)], ["user", "bot"], ["bot", "user"]) := by
  decide +kernel

/-! ## the wildcard lists computed by the algorithm (`Proofs/WAssignWild.lean`)

    Post-conditions of `assignWeights g order = .ok st`, for every graph and every start order.  Hypotheses (all
    evaluated by Boolean checks): `noPHTypesB g` — no terminal type is named like a cycle placeholder `R#…`
    (needed: `placeholder_named_type_breaks_wildcards` below); `srcOKB g` — every edge is stored under its own
    source (an artefact of the proof of the edge clause; true of every built graph: `built_graph_srcOK`);
    `termSinkB g` — types and `T:*` nodes have no outgoing edges (only for the exact reading). -/
section algorithm
open FgaVerif.Model.WGraph FgaVerif.Model.WAssign

/-- **E. the edge clause**: an edge into `T:*` carries exactly `[T]`, an edge into a plain type carries nothing,
    and every other edge carries the same set as the FINAL list of its target — also when the edge was computed
    while its target was still in progress on a tuple cycle (the dependency fix-ups complete it) -/
theorem algorithm_edge_wildcards_on_success (g : G) (hn : noPHTypesB g = true) (hs : srcOKB g = true)
    (order : List String) (st : AState) (h : assignWeights g order = .ok st) (v : String) (hv : v ∈ st.visited)
    (i : Nat) (e : WEdge) (he : (edgesOf g v)[i]? = some e) :
    (nodeType g e.dst = .wildcard → aget (v, i) st.edgeWild = [(e.dst.dropEnd 2).toString]) ∧
    (nodeType g e.dst = .specificType → aget (v, i) st.edgeWild = []) ∧
    (isTerminal (nodeType g e.dst) = false → ∀ T, T ∈ aget (v, i) st.edgeWild ↔ T ∈ aget e.dst st.nodeWild) :=
  ⟨(assignWeights_terminal_edge_wild g order st h v hv i e he).1,
    (assignWeights_terminal_edge_wild g order st h v hv i e he).2,
    assignWeights_edge_wild g (noPHTypesB_sound g hn) (srcOKB_sound g hs) order st h v hv i e he⟩

/-- **N. the node clause**: the list of a node is the union of the lists of its edges — for EVERY node kind: the
    strategies for intersections and exclusions (which may drop a type from the weights) never prune a wildcard
    list (`intersection_keeps_dropped_type` below); no hypothesis on the graph -/
theorem algorithm_node_wildcards_on_success (g : G) (order : List String) (st : AState)
    (h : assignWeights g order = .ok st) (v T : String) :
    T ∈ aget v st.nodeWild ↔ ∃ i, T ∈ aget (v, i) st.edgeWild := by
  rw [assignWeights_node_wild g order st h v T]
  constructor
  · rintro ⟨⟨a, i⟩, rfl, hT⟩; exact ⟨i, hT⟩
  · rintro ⟨i, hT⟩; exact ⟨(v, i), rfl, hT⟩

/-- **R, sound**: every listed type is the type of a wildcard node reachable by at least one edge -/
theorem algorithm_wildcards_sound (g : G) (hn : noPHTypesB g = true) (order : List String) (st : AState)
    (h : assignWeights g order = .ok st) (v T : String) (hT : T ∈ aget v st.nodeWild) : ReachesWild g v T :=
  (assignWeights_wild_sound g (noPHTypesB_sound g hn) order st h).1 v T hT

/-- a node from which no public restriction is reachable has an empty list -/
theorem algorithm_no_wildcard_reachable_empty (g : G) (hn : noPHTypesB g = true) (order : List String) (st : AState)
    (h : assignWeights g order = .ok st) (v : String) (hno : ∀ T, ¬ ReachesWild g v T) : aget v st.nodeWild = [] := by
  cases hw : aget v st.nodeWild with
  | nil => rfl
  | cons T rest => exact absurd (algorithm_wildcards_sound g hn order st h v T (by rw [hw]; simp)) (hno T)

/-- **R, complete** — for every graph, not only union/relation-only ones: every `T:*` reachable from a visited node
    through relations and operators is listed -/
theorem algorithm_wildcards_complete (g : G) (hn : noPHTypesB g = true) (hs : srcOKB g = true) (order : List String)
    (st : AState) (h : assignWeights g order = .ok st) (v : String) (hv : v ∈ st.visited) (T : String)
    (hp : WildPath g v T) : T ∈ aget v st.nodeWild :=
  assignWeights_wild_complete g (noPHTypesB_sound g hn) (srcOKB_sound g hs) order st h v hv T hp

/-- the special case announced in the plan (the hypothesis on operators is not used) -/
theorem algorithm_wildcards_complete_no_ops (g : G) (hn : noPHTypesB g = true) (hs : srcOKB g = true)
    (_hops : ∀ n, nodeType g n = .operator → nodeLabel g n = "union") (order : List String)
    (st : AState) (h : assignWeights g order = .ok st) (v : String) (hv : v ∈ st.visited) (T : String)
    (hp : WildPath g v T) : T ∈ aget v st.nodeWild :=
  algorithm_wildcards_complete g hn hs order st h v hv T hp

/-- **C11 for the algorithm**: the list of a visited node contains `T` exactly when a `T:*` node is reachable -/
theorem algorithm_wildcards_exact (g : G) (hn : noPHTypesB g = true) (hs : srcOKB g = true) (hts : termSinkB g = true)
    (order : List String) (st : AState) (h : assignWeights g order = .ok st) (v : String) (hv : v ∈ st.visited)
    (T : String) : T ∈ aget v st.nodeWild ↔ ReachesWild g v T :=
  assignWeights_wild_exact g (noPHTypesB_sound g hn) (srcOKB_sound g hs) (termSinkB_sound g hts) order st h v hv T

/-- every graph produced by the builder stores its edges under their sources -/
theorem built_graph_srcOK (m : FgaVerif.Model.Model) (g : G) (h : build m = .ok g) : SrcOK g :=
  fun r e he => ((build_inv m g h).edges r.1).src_eq e (List.mem_of_getElem? he)

/-! ### non-vacuity on the tuple cycle `algoDemo` (`a: [user:*, doc#b]`, `b: [bot:*, doc#a]`, started from `doc#b`):
    the hypotheses hold; `(doc#a,1) → doc#b` is computed while `doc#b` is in progress and ends with both types -/
example : noPHTypesB algoDemo = true ∧ srcOKB algoDemo = true ∧ termSinkB algoDemo = true := by decide +kernel

example : (match assignWeights algoDemo ["doc#b"] with
    | .ok st => (st.visited, aget ("doc#a", 0) st.edgeWild, aget ("doc#a", 1) st.edgeWild, aget "doc#b" st.nodeWild)
    | .error _ => ([], [], [], [])) = (["doc#a", "doc#b"], ["user"], ["bot", "user"], ["bot", "user"]) := by
  decide +kernel
example : (match assignWeights algoDemo ["doc#b"] with
    | .ok st => (aget ("doc#b", 0) st.edgeWild, aget ("doc#b", 1) st.edgeWild, aget "doc#a" st.nodeWild)
    | .error _ => ([], [], [])) = (["bot"], ["user", "bot"], ["user", "bot"]) := by
  decide +kernel

/-- the reachability reading is inhabited: `user:*` is reached from `doc#b` through `doc#a` -/
example : ReachesWild algoDemo "doc#b" "user" ∧ WildPath algoDemo "doc#b" "user" := by
  have s1 : EStep algoDemo "doc#b" "doc#a" :=
    ⟨⟨"doc#b", "doc#a", .direct, "", ["none"]⟩, by rw [show edgesOf algoDemo "doc#b" = [_, _] from rfl]; simp, rfl⟩
  have s2 : EStep algoDemo "doc#a" "user:*" :=
    ⟨⟨"doc#a", "user:*", .direct, "", ["none"]⟩, by rw [show edgesOf algoDemo "doc#a" = [_, _] from rfl]; simp, rfl⟩
  have hw : IsWild algoDemo "user:*" "user" := ⟨by decide, by decide +kernel⟩
  exact ⟨⟨"doc#a", s1, "user:*", EPath.single s2, hw⟩, WildPath.via s1 (by decide) (WildPath.direct s2 hw)⟩

/-- the node clause holds at intersections although a type is dropped from the weights: `doc#v = a and b` with
    `a: [user, bot:*]`, `b: [user:*]` keeps `bot` in the wildcard list while the weights keep only `user` -/
def interDemo : G := {
  nodes := [⟨"doc#v", "doc#v", .typeAndRelation⟩, ⟨"intersection:0", "intersection", .operator⟩,
            ⟨"doc#a", "doc#a", .typeAndRelation⟩, ⟨"doc#b", "doc#b", .typeAndRelation⟩,
            ⟨"user", "user", .specificType⟩, ⟨"user:*", "user:*", .wildcard⟩, ⟨"bot:*", "bot:*", .wildcard⟩],
  edges := [("doc#v", [⟨"doc#v", "intersection:0", .rewrite, "", ["none"]⟩]),
            ("intersection:0", [⟨"intersection:0", "doc#a", .rewrite, "", ["none"]⟩, ⟨"intersection:0", "doc#b", .rewrite, "", ["none"]⟩]),
            ("doc#a", [⟨"doc#a", "user", .direct, "", ["none"]⟩, ⟨"doc#a", "bot:*", .direct, "", ["none"]⟩]),
            ("doc#b", [⟨"doc#b", "user:*", .direct, "", ["none"]⟩])] }

theorem intersection_keeps_dropped_type :
    (match assignWeights interDemo [] with
      | .ok st => (aget "intersection:0" st.nodeW, aget "intersection:0" st.nodeWild, aget "doc#v" st.nodeWild)
      | .error _ => ([], [], [])) = ([("user", 1)], ["bot", "user"], ["bot", "user"]) := by
  decide +kernel

/-- `noPHTypesB` is needed for E and for R: with a terminal type named `R#doc#b` the scan records a spurious
    dependency of `doc#x → doc#a` on `doc#b`, and the resolution of `doc#b` copies `user` onto that edge and onto
    `doc#x`, although `doc#a` has no wildcard and `doc#x` reaches no wildcard node -/
def phWild : G := {
  nodes := [⟨"doc#b", "doc#b", .typeAndRelation⟩, ⟨"doc#x", "doc#x", .typeAndRelation⟩, ⟨"doc#a", "doc#a", .typeAndRelation⟩,
            ⟨"R#doc#b", "R#doc#b", .specificType⟩, ⟨"user:*", "user:*", .wildcard⟩],
  edges := [("doc#b", [⟨"doc#b", "doc#x", .direct, "", ["none"]⟩, ⟨"doc#b", "user:*", .direct, "", ["none"]⟩]),
            ("doc#x", [⟨"doc#x", "doc#a", .direct, "", ["none"]⟩]),
            ("doc#a", [⟨"doc#a", "R#doc#b", .direct, "", ["none"]⟩])] }

theorem placeholder_named_type_breaks_wildcards :
    noPHTypesB phWild = false ∧ srcOKB phWild = true ∧ termSinkB phWild = true ∧
    (match assignWeights phWild ["doc#b"] with
      | .ok st => (st.visited, aget ("doc#x", 0) st.edgeWild, aget "doc#a" st.nodeWild, aget "doc#x" st.nodeWild)
      | .error _ => ([], [], [], [])) = (["doc#a", "doc#x", "doc#b"], ["user"], [], ["user"]) ∧
    ¬ ReachesWild phWild "doc#x" "user" := by
  refine ⟨by decide +kernel, by decide +kernel, by decide +kernel, by decide +kernel, ?_⟩
  rintro ⟨d, ⟨e, he, rfl⟩, w, hp, hw⟩
  have he' : e = ⟨"doc#x", "doc#a", .direct, "", ["none"]⟩ := by
    have : edgesOf phWild "doc#x" = [⟨"doc#x", "doc#a", .direct, "", ["none"]⟩] := by decide
    rw [this] at he; simpa using he
  subst he'
  cases hp with
  | refl => exact absurd hw.1 (by decide)
  | step hs hp' =>
    obtain ⟨e2, he2, rfl⟩ := hs
    have he2' : e2 = ⟨"doc#a", "R#doc#b", .direct, "", ["none"]⟩ := by
      have : edgesOf phWild "doc#a" = [⟨"doc#a", "R#doc#b", .direct, "", ["none"]⟩] := by decide
      rw [this] at he2; simpa using he2
    subst he2'
    cases hp' with
    | refl => exact absurd hw.1 (by decide)
    | step hs2 _ =>
      obtain ⟨e3, he3, _⟩ := hs2
      have : edgesOf phWild "R#doc#b" = [] := by decide
      rw [this] at he3
      cases he3

end algorithm

end FgaVerif.Props.C11
