import FgaVerif.Proofs.Weights
import FgaVerif.Proofs.ReachComplete
import FgaVerif.Proofs.WAssign
/-! # C11 — wildcard sets are the reachable public types (specification side)

    As for C04, the real wildcard lists (nodes and edges, every forced traversal order) are compared
    with `Spec.Weights.wildTargets`; the Go propagation through cycle resolution is ported in
    `Model/WAssign.lean` (one theorem about it below) but not proved to compute this set.

    Proved for every specification graph and node:
    * `wildcard_set_sound` — every type in the set is the type of a `T:*` restriction that is reachable
      from the node by following edges (declarative reachability `Reach`).
    * `wildcard_set_no_duplicates` — the list has no duplicates.
    * `no_wildcard_reachable_empty` — if no `T:*` edge is reachable the list is empty.

    * `wildcard_set_complete`, `wildcard_set_exact` — on a graph in which every referenced node exists
      (`Closed`; evaluated by the driver on every input) every reachable `T:*` is listed: the fuel of
      the search suffices (potential `|work| + |U| − |seen|` decreases by one per step), so the set is
      **exactly** the public types reachable by following edges.

    And one clause about the **algorithm itself**: `Model/WAssign.lean` is a port of `AssignWeights`
    with its wildcard propagation (`addWildcardToEdge`, `addEdgeWildcardsToNode`,
    `calculateEdgeWildcards`, `addReferentialWildcardsTo{Edge,Node}`), compared with the real code on
    every node and edge under every forced start order (stream `corr:wassign`).
    * `algorithm_wildcard_lists_no_duplicates` — for every graph and every start order, if the
      assignment succeeds then no wildcard list of a node or of an edge contains a duplicate.  It is an
      invariant of the whole computation (`Proofs/WAssign.lean`: every writer copies a duplicate-free
      list or appends an element it has just found absent; the depth-first recursion, cycle
      resolution and the dependency fix-ups preserve it), not a property of the final sets only. -/
namespace FgaVerif.Props.C11
open FgaVerif.Spec.Weights

theorem wildcard_set_sound (g : SGraph) (n t : String) (h : t ∈ wildTargets g n) :
    ∃ x, Reach g true n x ∧ HasWildcardEdge g x t := wildTargets_sound g n t h

theorem wildcard_set_no_duplicates (g : SGraph) (n : String) : (wildTargets g n).Nodup :=
  wildTargets_nodup g n

theorem no_wildcard_reachable_empty (g : SGraph) (n : String)
    (h : ∀ x t, Reach g true n x → ¬ HasWildcardEdge g x t) : wildTargets g n = [] := by
  cases hw : wildTargets g n with
  | nil => rfl
  | cons t rest =>
    obtain ⟨x, hr, hx⟩ := wildcard_set_sound g n t (by rw [hw]; simp)
    exact absurd hx (h x t hr)

theorem wildcard_set_complete (g : SGraph) (hc : Closed g) (n t x : String)
    (hr : Reach g true n x) (hw : HasWildcardEdge g x t) : t ∈ wildTargets g n :=
  wildTargets_complete g hc n t x hr hw

/-- the wildcard set of a node is exactly the set of reachable public restrictions -/
theorem wildcard_set_exact (g : SGraph) (hc : Closed g) (n t : String) :
    t ∈ wildTargets g n ↔ ∃ x, Reach g true n x ∧ HasWildcardEdge g x t :=
  ⟨wildcard_set_sound g n t, fun ⟨x, hr, hw⟩ => wildcard_set_complete g hc n t x hr hw⟩

/-- the ported algorithm never produces a wildcard list with a duplicate -/
theorem algorithm_wildcard_lists_no_duplicates (g : FgaVerif.Model.WGraph.G) (order : List String)
    (st : FgaVerif.Model.WAssign.AState) (h : FgaVerif.Model.WAssign.assignWeights g order = .ok st) :
    (∀ n, (FgaVerif.Model.WAssign.aget n st.nodeWild).Nodup) ∧
    (∀ r, (FgaVerif.Model.WAssign.aget r st.edgeWild).Nodup) := by
  have hinv := FgaVerif.Model.WAssign.assignWeights_wildNodup g order st h
  exact ⟨fun n => FgaVerif.Model.WAssign.aget_allP FgaVerif.Model.WAssign.nodup_default hinv.node n,
    fun r => FgaVerif.Model.WAssign.aget_allP FgaVerif.Model.WAssign.nodup_default hinv.edge r⟩

/-! ### non-vacuity: a public restriction behind a tuple cycle -/
def demo : SGraph := [
  ⟨"doc#a", .rel, [⟨.node "doc#b", true, ""⟩]⟩,
  ⟨"doc#b", .rel, [⟨.node "doc#a", true, ""⟩, ⟨.wildcard "user", true, ""⟩, ⟨.wildcard "bot", true, ""⟩]⟩,
  ⟨"doc#c", .rel, [⟨.type "user", true, ""⟩]⟩]

example : wildTargets demo "doc#a" = ["bot", "user"] ∧ wildTargets demo "doc#c" = [] := by decide

/-! ### non-vacuity for the algorithm: `define a: [user:*, doc#b]`, `define b: [bot:*, doc#a]` — a tuple
    cycle with a public restriction on each side; started from `doc#b`, the assignment succeeds and both
    nodes end with both public types, each once -/
open FgaVerif.Model.WGraph FgaVerif.Model.WAssign in
def algoDemo : G := {
  nodes := [⟨"doc#a", "doc#a", .typeAndRelation⟩, ⟨"user:*", "user:*", .wildcard⟩,
            ⟨"doc#b", "doc#b", .typeAndRelation⟩, ⟨"bot:*", "bot:*", .wildcard⟩],
  edges := [("doc#a", [⟨"doc#a", "user:*", .direct, "", ["none"]⟩, ⟨"doc#a", "doc#b", .direct, "", ["none"]⟩]),
            ("doc#b", [⟨"doc#b", "bot:*", .direct, "", ["none"]⟩, ⟨"doc#b", "doc#a", .direct, "", ["none"]⟩])] }

open FgaVerif.Model.WGraph FgaVerif.Model.WAssign in
example : (match assignWeights algoDemo ["doc#b"] with
    | .ok st => (aget "doc#a" st.nodeW, aget "doc#a" st.nodeWild, aget "doc#b" st.nodeWild)
    | .error _ => ([], [], [])) =
    ([("bot", FgaVerif.Model.WAssign.infinite), ("user", FgaVerif.Model.WAssign.infinite)], ["user", "bot"], ["bot", "user"]) := by
  decide +kernel

end FgaVerif.Props.C11
