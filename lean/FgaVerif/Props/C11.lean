import FgaVerif.Proofs.Weights
import FgaVerif.Proofs.ReachComplete
/-! # C11 — wildcard sets are the reachable public types (specification side)

    As for C04, the real wildcard lists (nodes and edges, every forced traversal order) are compared
    with `Spec.Weights.wildTargets`; the Go propagation through cycle resolution is not modelled.

    Proved for every specification graph and node:
    * `wildcard_set_sound` — every type in the set is the type of a `T:*` restriction that is reachable
      from the node by following edges (declarative reachability `Reach`).
    * `wildcard_set_no_duplicates` — the list has no duplicates.
    * `no_wildcard_reachable_empty` — if no `T:*` edge is reachable the list is empty.

    * `wildcard_set_complete`, `wildcard_set_exact` — on a graph in which every referenced node exists
      (`Closed`; evaluated by the driver on every input) every reachable `T:*` is listed: the fuel of
      the search suffices (potential `|work| + |U| − |seen|` decreases by one per step), so the set is
      **exactly** the public types reachable by following edges. -/
namespace FgaVerif.Props.C11
open FgaVerif.Spec.Weights

theorem wildcard_set_sound (g : SGraph) (n t : String) (h : t ∈ wildTargets g n) :
    ∃ x, Reach g true n x ∧ HasWildcardEdge g x t := wildTargets_sound g n t h

theorem wildcard_set_no_duplicates (g : SGraph) (n : String) : (wildTargets g n).Nodup :=
  wildTargets_nodup g n

theorem no_wildcard_reachable_empty (g : SGraph) (n : String)
    (h : ∀ x t, Reach g true n x → ¬ HasWildcardEdge g x t) : wildTargets g n = [] := by
  cases hw : wildTargets g n with
  | nil => rfl
  | cons t rest =>
    obtain ⟨x, hr, hx⟩ := wildcard_set_sound g n t (by rw [hw]; simp)
    exact absurd hx (h x t hr)

theorem wildcard_set_complete (g : SGraph) (hc : Closed g) (n t x : String)
    (hr : Reach g true n x) (hw : HasWildcardEdge g x t) : t ∈ wildTargets g n :=
  wildTargets_complete g hc n t x hr hw

/-- the wildcard set of a node is exactly the set of reachable public restrictions -/
theorem wildcard_set_exact (g : SGraph) (hc : Closed g) (n t : String) :
    t ∈ wildTargets g n ↔ ∃ x, Reach g true n x ∧ HasWildcardEdge g x t :=
  ⟨wildcard_set_sound g n t, fun ⟨x, hr, hw⟩ => wildcard_set_complete g hc n t x hr hw⟩

/-! ### non-vacuity: a public restriction behind a tuple cycle -/
def demo : SGraph := [
  ⟨"doc#a", .rel, [⟨.node "doc#b", true, ""⟩]⟩,
  ⟨"doc#b", .rel, [⟨.node "doc#a", true, ""⟩, ⟨.wildcard "user", true, ""⟩, ⟨.wildcard "bot", true, ""⟩]⟩,
  ⟨"doc#c", .rel, [⟨.type "user", true, ""⟩]⟩]

example : wildTargets demo "doc#a" = ["bot", "user"] ∧ wildTargets demo "doc#c" = [] := by decide

end FgaVerif.Props.C11
