import FgaVerif.Proofs.Weights
/-! # C11 — wildcard sets are the reachable public types (specification side)

    As for C04, the real wildcard lists (nodes and edges, every forced traversal order) are compared
    with `Spec.Weights.wildTargets`; the Go propagation through cycle resolution is not modelled.

    Proved for every specification graph and node:
    * `wildcard_set_sound` — every type in the set is the type of a `T:*` restriction that is reachable
      from the node by following edges (declarative reachability `Reach`).
    * `wildcard_set_no_duplicates` — the list has no duplicates.
    * `no_wildcard_reachable_empty` — if no `T:*` edge is reachable the list is empty.

    Not proved: completeness of the fuelled search (every reachable `T:*` is listed) — checked per
    input against the real code, whose lists must equal the specification's exactly. -/
namespace FgaVerif.Props.C11
open FgaVerif.Spec.Weights

theorem wildcard_set_sound (g : SGraph) (n t : String) (h : t ∈ wildTargets g n) :
    ∃ x, Reach g true n x ∧ HasWildcardEdge g x t := wildTargets_sound g n t h

theorem wildcard_set_no_duplicates (g : SGraph) (n : String) : (wildTargets g n).Nodup :=
  wildTargets_nodup g n

theorem no_wildcard_reachable_empty (g : SGraph) (n : String)
    (h : ∀ x t, Reach g true n x → ¬ HasWildcardEdge g x t) : wildTargets g n = [] := by
  cases hw : wildTargets g n with
  | nil => rfl
  | cons t rest =>
    obtain ⟨x, hr, hx⟩ := wildcard_set_sound g n t (by rw [hw]; simp)
    exact absurd hx (h x t hr)

/-! ### non-vacuity: a public restriction behind a tuple cycle -/
def demo : SGraph := [
  ⟨"doc#a", .rel, [⟨.node "doc#b", true, ""⟩]⟩,
  ⟨"doc#b", .rel, [⟨.node "doc#a", true, ""⟩, ⟨.wildcard "user", true, ""⟩, ⟨.wildcard "bot", true, ""⟩]⟩,
  ⟨"doc#c", .rel, [⟨.type "user", true, ""⟩]⟩]

example : wildTargets demo "doc#a" = ["bot", "user"] ∧ wildTargets demo "doc#c" = [] := by decide

end FgaVerif.Props.C11
