import FgaVerif.Props.C07
/-! # C12 — the merge outcome is deterministic and independent of the order of the files

    In the port (`Model/Merge.lean`) the outcome is a function of the list of files by construction:
    Go's maps are key-sorted association lists there, so no iteration order exists that could vary
    between invocations; that the *code* behaves like the port on every invocation is what the
    repeated-call oracle and the correspondence check of C12 establish (the merger's three map
    iterations were made deterministic by fix a110f65).

    Proved here, for every list of files and every permutation of it:
    * `verdict_order_independent` — the merge of the permuted list succeeds iff the merge of the
      original list does (from `merge_ok_iff_conflict_free` and the symmetry of the predicate).
    * `failure_order_independent` — hence a set that fails in one order fails in every order, with a
      non-empty error list and never a model.

    * `result_order_independent` — on success the two results have the same type names up to order,
      the same condition names, the same schema version, and bind every relation of every type to the
      same rewrite (from `merge_conserves_names` / `merge_conserves_rewrites` of C07): a permutation
      changes nothing but the order of the type definitions, as far as names and rewrites go.

    Not proved: the same for metadata (attribution) and condition bodies, and that the error *list* of a
    permuted input is a permutation of the original one; both are evaluated on the real code over all
    permutations of up to four files (thorough tier). -/
namespace FgaVerif.Props.C12
open FgaVerif.Model FgaVerif.Model.Merge FgaVerif.Props.C07

theorem verdict_order_independent {fs fs' : List FileIn} (v : String) (hp : fs.Perm fs') (wf : FilesWF fs) :
    (∃ m, merge fs v = .ok m) ↔ (∃ m, merge fs' v = .ok m) :=
  merge_verdict_order_independent v hp wf

theorem failure_order_independent {fs fs' : List FileIn} (v : String) (hp : fs.Perm fs') (wf : FilesWF fs)
    (hnp : ∀ f ∈ fs, ∀ p, f.outcome ≠ .panic p) (es : List MergeErr) (h : merge fs v = .errors es) :
    ∃ es', merge fs' v = .errors es' ∧ es' ≠ [] := by
  have hno : ¬ ∃ m, merge fs' v = .ok m := by
    intro hok
    obtain ⟨m, hm⟩ := (verdict_order_independent v hp wf).2 hok
    rw [h] at hm; cases hm
  have hnp' : ∀ f ∈ fs', ∀ p, f.outcome ≠ .panic p := fun f hf => hnp f (hp.mem_iff.2 hf)
  rcases merge_never_partial fs' v with hok | ⟨es', h1, h2⟩ | ⟨p, hp'⟩
  · exact absurd hok hno
  · exact ⟨es', h1, h2⟩
  · exact absurd hp' (merge_no_panic fs' v (filesWF_perm hp wf) hnp' p)

/-- **on success a permutation of the files changes nothing but the order of the type definitions**
    (as far as names and rewrites go): the two results have the same type names up to order, the same
    condition names, and bind every relation of every type to the same rewrite -/
theorem result_order_independent {fs fs' : List FileIn} (v : String) (hp : fs.Perm fs') (wf : FilesWF fs)
    (m m' : Model) (h : merge fs v = .ok m) (h' : merge fs' v = .ok m') :
    (m.types.map (·.name)).Perm (m'.types.map (·.name)) ∧
    (∀ x, x ∈ AList.keys m.conds ↔ x ∈ AList.keys m'.conds) ∧
    (∀ n k, valNow m.types n k = valNow m'.types n k) ∧ m.schema = m'.schema := by
  have wf' := filesWF_perm hp wf
  obtain ⟨a1, a2, _⟩ := merge_conserves_names fs v wf m h
  obtain ⟨b1, b2, _⟩ := merge_conserves_names fs' v wf' m' h'
  refine ⟨?_, ?_, ?_, ?_⟩
  · rw [a1, b1]; exact hp.flatMap_right _
  · intro x; rw [a2 x, b2 x]; exact (hp.flatMap_right _).mem_iff
  · intro n k
    have key : ∀ v', valNow m.types n k = some v' ↔ valNow m'.types n k = some v' := by
      intro v'
      rw [merge_conserves_rewrites fs v wf m h n k v', merge_conserves_rewrites fs' v wf' m' h' n k v']
      have hperm : (fs.flatMap fileBaseDefs ++ fs.flatMap fileExtDefs).Perm
          (fs'.flatMap fileBaseDefs ++ fs'.flatMap fileExtDefs) := (hp.flatMap_right _).append (hp.flatMap_right _)
      constructor
      · rintro ⟨d, hd, r⟩; exact ⟨d, hperm.mem_iff.1 hd, r⟩
      · rintro ⟨d, hd, r⟩; exact ⟨d, hperm.mem_iff.2 hd, r⟩
    cases hv : valNow m.types n k with
    | none =>
      cases hv' : valNow m'.types n k with
      | none => rfl
      | some w => exact absurd ((key w).2 hv') (by simp [hv])
    | some w => exact ((key w).1 hv).symm
  · rw [merge_schema fs v m h, merge_schema fs' v m' h']

/-- the examples of Props/C07 exhibit both verdicts under both orders -/
example : isOk (merge [core, extOk] "1.2") = isOk (merge [extOk, core] "1.2") := by decide
example : isOk (merge [core, extClash] "1.2") = isOk (merge [extClash, core] "1.2") := by decide

end FgaVerif.Props.C12
