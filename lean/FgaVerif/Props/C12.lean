import FgaVerif.Props.C07
import FgaVerif.Proofs.MergeOrder
/-! # C12 — the merge outcome is deterministic and independent of the order of the files

    In the port (`Model/Merge.lean`) the outcome is a function of the list of files by construction:
    Go's maps are key-sorted association lists there, so no iteration order exists that could vary
    between invocations; that the *code* behaves like the port on every invocation is what the
    repeated-call oracle and the correspondence check of C12 establish (the merger's three map
    iterations were made deterministic by fix a110f65).

    Proved here, for every list of files and every permutation of it:
    * `verdict_order_independent` — the merge of the permuted list succeeds iff the merge of the
      original list does (from `merge_ok_iff_conflict_free` and the symmetry of the predicate).
    * `failure_order_independent` — hence a set that fails in one order fails in every order, with a
      non-empty error list and never a model.

    * `result_order_independent` — on success the two results have the same type names up to order,
      the same condition names, the same schema version, and bind every relation of every type to the
      same rewrite (from `merge_conserves_names` / `merge_conserves_rewrites` of C07): a permutation
      changes nothing but the order of the type definitions, as far as names and rewrites go.

    * `result_full_order_independent` (proof in `Proofs/MergeOrder.lean`) — for files with pairwise
      distinct names, on success the two results have the same type definitions up to order as whole
      `TypeDef` values (name, relations with their rewrites *in their order*, metadata: module, file,
      and the metadata of every relation), **equal** condition maps and the same schema version: a
      permutation changes nothing but the order of the type definitions.  Hence
      `typeDef_determined_by_name`: a type definition of the one result and a type definition of the
      other with the same name are equal.  `conditions_order_independent` (equal condition maps) and
      `type_attribution_order_independent` (module and file of every type) need no hypothesis on the
      file names, like the statement about names and rewrites above.
      Why it holds: the extension table and the text table the first loop builds are key-sorted with
      one entry per file name, so they are *equal* for a list and its permutations
      (`collect_extended_perm`, `collect_moduleFiles_perm`); the second loop walks the extension table
      in file-name order and rewrites the base definition it finds *by name*, so on permuted base
      definitions it computes permuted results and the same errors (`applyAll_rel`).  No sortedness of
      the parsed relation lists is needed: the order in which extensions reach a type is the same.
    * the hypothesis on the file names cannot be dropped under `FilesWF` alone: with two files of the
      same name the blocks of both are applied in list order, and the examples at the end show a
      permutation changing the *order of the relations* of a type (extension with unsorted relations) or
      its *relation metadata* (extension carrying metadata for a relation it does not declare; the
      `relations.isEmpty` path of `applyExtension` copies all of it, the `addRelations` path only that of
      the declared relations).  Both inputs satisfy `FilesWF` but not what the listener produces (sorted
      relations, metadata exactly for the declared relations).  Not proved: that for listener-shaped
      files (or, for the metadata of the *declared* relations, for `FilesWF` files) order independence
      holds without the hypothesis on the names.

    The error list under permutation.  The property asks for the same error list on every invocation
    (determinism, by construction in the port) and, for permutations, only for the same verdict; the
    error *list* of a permuted input is in general **not** a permutation of the original one, and this
    is the behaviour of the code, not a defect (examples at the end, all evaluated in the port):
    * "duplicate type definition" / "duplicate condition" are raised on whichever declaration comes
      second, so the error names a different file (and position) after a permutation;
    * not even the messages are invariant: a type defined by a module file and by a file without
      `module` header gives one error in one order ("duplicate type definition") and two in the other
      ("file is not a module" and "duplicate type definition"), because only the first definition of a
      name is examined for its module;
    * with module files only: of two definitions of a type only the first is registered, so whether an
      extension clashes with a relation depends on which definition came first — one error in one
      order, two in the other.
    What is proved instead, `errors_order_independent`: when the file names are pairwise distinct and
    **nothing is declared twice** (no type defined twice, no condition declared twice) the error list of
    a permuted input *is* a permutation of the original one; more precisely the errors of the first
    loop (syntax errors, "file is not a module") are the per-file lists `fileErrs1` concatenated in the
    order of the files, and the errors of the second loop ("extended type … does not exist", "relation …
    already exists on type …", with their files and positions) are the same *list*.  So every order
    dependence of the error list comes from duplicate declarations.  This needs no well-formedness
    hypothesis.  Order independence of the verdict and of the non-emptiness of the error list hold
    unconditionally (above).  The oracles evaluate both over all permutations of up to four files. -/
namespace FgaVerif.Props.C12
open FgaVerif.Model FgaVerif.Model.Merge FgaVerif.Props.C07

theorem verdict_order_independent {fs fs' : List FileIn} (v : String) (hp : fs.Perm fs') (wf : FilesWF fs) :
    (∃ m, merge fs v = .ok m) ↔ (∃ m, merge fs' v = .ok m) :=
  merge_verdict_order_independent v hp wf

theorem failure_order_independent {fs fs' : List FileIn} (v : String) (hp : fs.Perm fs') (wf : FilesWF fs)
    (hnp : ∀ f ∈ fs, ∀ p, f.outcome ≠ .panic p) (es : List MergeErr) (h : merge fs v = .errors es) :
    ∃ es', merge fs' v = .errors es' ∧ es' ≠ [] := by
  have hno : ¬ ∃ m, merge fs' v = .ok m := by
    intro hok
    obtain ⟨m, hm⟩ := (verdict_order_independent v hp wf).2 hok
    rw [h] at hm; cases hm
  have hnp' : ∀ f ∈ fs', ∀ p, f.outcome ≠ .panic p := fun f hf => hnp f (hp.mem_iff.2 hf)
  rcases merge_never_partial fs' v with hok | ⟨es', h1, h2⟩ | ⟨p, hp'⟩
  · exact absurd hok hno
  · exact ⟨es', h1, h2⟩
  · exact absurd hp' (merge_no_panic fs' v (filesWF_perm hp wf) hnp' p)

/-- **on success a permutation of the files changes nothing but the order of the type definitions**
    (as far as names and rewrites go): the two results have the same type names up to order, the same
    condition names, and bind every relation of every type to the same rewrite -/
theorem result_order_independent {fs fs' : List FileIn} (v : String) (hp : fs.Perm fs') (wf : FilesWF fs)
    (m m' : Model) (h : merge fs v = .ok m) (h' : merge fs' v = .ok m') :
    (m.types.map (·.name)).Perm (m'.types.map (·.name)) ∧
    (∀ x, x ∈ AList.keys m.conds ↔ x ∈ AList.keys m'.conds) ∧
    (∀ n k, valNow m.types n k = valNow m'.types n k) ∧ m.schema = m'.schema := by
  have wf' := filesWF_perm hp wf
  obtain ⟨a1, a2, _⟩ := merge_conserves_names fs v wf m h
  obtain ⟨b1, b2, _⟩ := merge_conserves_names fs' v wf' m' h'
  refine ⟨?_, ?_, ?_, ?_⟩
  · rw [a1, b1]; exact hp.flatMap_right _
  · intro x; rw [a2 x, b2 x]; exact (hp.flatMap_right _).mem_iff
  · intro n k
    have key : ∀ v', valNow m.types n k = some v' ↔ valNow m'.types n k = some v' := by
      intro v'
      rw [merge_conserves_rewrites fs v wf m h n k v', merge_conserves_rewrites fs' v wf' m' h' n k v']
      have hperm : (fs.flatMap fileBaseDefs ++ fs.flatMap fileExtDefs).Perm
          (fs'.flatMap fileBaseDefs ++ fs'.flatMap fileExtDefs) := (hp.flatMap_right _).append (hp.flatMap_right _)
      constructor
      · rintro ⟨d, hd, r⟩; exact ⟨d, hperm.mem_iff.1 hd, r⟩
      · rintro ⟨d, hd, r⟩; exact ⟨d, hperm.mem_iff.2 hd, r⟩
    cases hv : valNow m.types n k with
    | none =>
      cases hv' : valNow m'.types n k with
      | none => rfl
      | some w => exact absurd ((key w).2 hv') (by simp [hv])
    | some w => exact ((key w).1 hv).symm
  · rw [merge_schema fs v m h, merge_schema fs' v m' h']

/-- the examples of Props/C07 exhibit both verdicts under both orders -/
example : isOk (merge [core, extOk] "1.2") = isOk (merge [extOk, core] "1.2") := by decide
example : isOk (merge [core, extClash] "1.2") = isOk (merge [extClash, core] "1.2") := by decide


/-! ### the whole result -/

/-- **on success a permutation of the files changes nothing but the order of the type definitions**:
    for files with pairwise distinct names the two results have the same type definitions up to order —
    whole `TypeDef` values: name, relations (rewrites, in their order), metadata (module, file, metadata
    of every relation) —, equal condition maps and the same schema version -/
theorem result_full_order_independent {fs fs' : List FileIn} (v : String) (hp : fs.Perm fs') (wf : FilesWF fs)
    (hnames : (fs.map (·.name)).Nodup) (m m' : Model) (h : merge fs v = .ok m) (h' : merge fs' v = .ok m') :
    m.types.Perm m'.types ∧ m.conds = m'.conds ∧ m.schema = m'.schema :=
  merge_result_perm v hp wf hnames m m' h h'

/-- … so a type definition is determined by its name: type definitions of the two results that have
    the same name are equal -/
theorem typeDef_determined_by_name {fs fs' : List FileIn} (v : String) (hp : fs.Perm fs') (wf : FilesWF fs)
    (hnames : (fs.map (·.name)).Nodup) (m m' : Model) (h : merge fs v = .ok m) (h' : merge fs' v = .ok m')
    (t t' : TypeDef) (ht : t ∈ m.types) (ht' : t' ∈ m'.types) (hn : t.name = t'.name) : t = t' := by
  have hperm := (result_full_order_independent v hp wf hnames m m' h h').1
  have hnd : (m'.types.map (·.name)).Nodup := by
    have wf' := filesWF_perm hp wf
    rw [(merge_conserves_names fs' v wf' m' h').1]
    exact ((merge_ok_iff_conflict_free fs' v wf').1 ⟨m', h'⟩).types
  exact inj_of_nodup_map (fun t : TypeDef => t.name) m'.types hnd t (hperm.mem_iff.1 ht) t' ht' hn

/-- the condition map of the result does not depend on the order of the files (whatever their names) -/
theorem conditions_order_independent {fs fs' : List FileIn} (v : String) (hp : fs.Perm fs') (wf : FilesWF fs)
    (m m' : Model) (h : merge fs v = .ok m) (h' : merge fs' v = .ok m') : m.conds = m'.conds :=
  merge_conds_perm v hp wf m m' h h'

/-- the module and the file recorded on every type do not depend on the order of the files (whatever
    their names) -/
theorem type_attribution_order_independent {fs fs' : List FileIn} (v : String) (hp : fs.Perm fs') (wf : FilesWF fs)
    (m m' : Model) (h : merge fs v = .ok m) (h' : merge fs' v = .ok m') :
    (m.types.map (fun t => (t.name, tyAttr t))).Perm (m'.types.map (fun t => (t.name, tyAttr t))) := by
  rw [merge_attributes_types fs v wf m h, merge_attributes_types fs' v (filesWF_perm hp wf) m' h']
  exact hp.flatMap_right _

/-- **when nothing is declared twice the error list of a permuted input is a permutation of the
    original one**: file names pairwise distinct, no type defined twice, no condition declared twice.
    The first-loop errors are the per-file lists in the order of the files, the second-loop errors
    (`E2`) are the same list.  (Without the hypotheses this is false, see the examples below.) -/
theorem errors_order_independent {fs fs' : List FileIn} (v : String) (hp : fs.Perm fs')
    (hnames : (fs.map (·.name)).Nodup) (htypes : (fs.flatMap fileBaseNames).Nodup)
    (hconds : (fs.flatMap fileCondNames).Nodup) (es es' : List MergeErr)
    (h : merge fs v = .errors es) (h' : merge fs' v = .errors es') :
    es.Perm es' ∧ ∃ E2, es = fs.flatMap fileErrs1 ++ E2 ∧ es' = fs'.flatMap fileErrs1 ++ E2 :=
  merge_errors_perm v hp hnames htypes hconds es es' h h'

/-! ### non-vacuity: a type extended by two files, merged in two orders -/

def extOwner : FileIn := { name := "own.fga", contents := "module own\nextend type doc\n  relations\n    define owner: [user]", outcome := .ok { schema := "", types := [extDoc "owner"], conds := [] } (some [("doc", 0)]) }
def grp : FileIn := { name := "grp.fga", contents := "module grp\ntype group", outcome := .ok { schema := "", types := [{ name := "group", relations := [], md := some { relations := [], «module» := "grp" } }], conds := [] } (some []) }

def modelOf : MergeOutcome → Model
  | .ok m => m
  | _ => {}

def four : List FileIn := [core, grp, extOk, extOwner]
def fourRev : List FileIn := [extOwner, extOk, grp, core]

example : isOk (merge four "1.2") = true ∧ isOk (merge fourRev "1.2") = true := by decide
/-- the type definitions come in the order of the files … -/
example : (modelOf (merge four "1.2")).types.map (·.name) = ["user", "doc", "group"] := by decide
example : (modelOf (merge fourRev "1.2")).types.map (·.name) = ["group", "user", "doc"] := by decide
/-- … `doc` carries the relations of its definition and of both extensions, each with the file that
    declared it, in either order … -/
example : (modelOf (merge four "1.2")).types.map (fun t => (t.name, (relMetaOf t).map (fun kv => (kv.1, kv.2.module, kv.2.file)))) =
    [("user", []), ("doc", [("editor", "ext", "ext.fga"), ("owner", "ext", "own.fga"), ("viewer", "core", "")]), ("group", [])] := by decide
example : (modelOf (merge fourRev "1.2")).types.map (fun t => (t.name, (relMetaOf t).map (fun kv => (kv.1, kv.2.module, kv.2.file)))) =
    [("group", []), ("user", []), ("doc", [("editor", "ext", "ext.fga"), ("owner", "ext", "own.fga"), ("viewer", "core", "")])] := by decide
/-- … and the theorem applies: the whole type definitions are the same up to order -/
example : (modelOf (merge four "1.2")).types.Perm (modelOf (merge fourRev "1.2")).types :=
  (result_full_order_independent "1.2" (List.reverse_perm four).symm (filesWFb_sound _ (by decide)) (by decide)
    _ _ rfl rfl).1
/-- with one defining file the results are equal -/
example : merge [core, extOk, extOwner] "1.2" = merge [extOwner, core, extOk] "1.2" := by rfl


/-! ### the hypothesis on the file names is needed (under `FilesWF` alone)

    Two files named `x.fga` extend the relation-less type `user`; their blocks are applied in list
    order.  (These parse results are not of the listener's shape — relations out of order, metadata for
    an undeclared relation — but they satisfy `FilesWF`.) -/

def mkExt (file : String) (rels : List String) (metas : List String) : FileIn :=
  { name := file, contents := "",
    outcome := .ok { schema := "", types := [{ name := "user", relations := rels.map (fun r => (r, Userset.this)),
                                                md := some { relations := metas.map (fun r => (r, { «module» := "x" })), «module» := "x" } }],
                     conds := [] } (some [("user", 0)]) }

def extZA : FileIn := mkExt "x.fga" ["z", "a"] ["a", "z"]
def extM : FileIn := mkExt "x.fga" ["m"] ["m"]
def extGhost : FileIn := mkExt "x.fga" ["editor"] ["editor", "ghost"]
def extOwn : FileIn := mkExt "x.fga" ["owner"] ["owner"]

example : filesWFb [core, extZA, extM] = true ∧ filesWFb [core, extGhost, extOwn] = true := by decide
example : isOk (merge [core, extZA, extM] "1.2") = true ∧ isOk (merge [core, extM, extZA] "1.2") = true := by decide
/-- unsorted relations in an extension: the order of the relations of `user` depends on the order of the files -/
example : (modelOf (merge [core, extZA, extM] "1.2")).types.map (fun t => (t.name, AList.keys t.relations)) =
    [("user", ["m", "z", "a"]), ("doc", ["viewer"])] := by decide
example : (modelOf (merge [core, extM, extZA] "1.2")).types.map (fun t => (t.name, AList.keys t.relations)) =
    [("user", ["a", "m", "z"]), ("doc", ["viewer"])] := by decide
example : ¬ (modelOf (merge [core, extZA, extM] "1.2")).types.Perm (modelOf (merge [core, extM, extZA] "1.2")).types :=
  fun hp => absurd (hp.map (fun t => (t.name, AList.keys t.relations))) (by decide)
/-- metadata for an undeclared relation: it survives only when its block is the first to reach the type -/
example : (modelOf (merge [core, extGhost, extOwn] "1.2")).types.map (fun t => (t.name, AList.keys (relMetaOf t))) =
    [("user", ["editor", "ghost", "owner"]), ("doc", ["viewer"])] := by decide
example : (modelOf (merge [core, extOwn, extGhost] "1.2")).types.map (fun t => (t.name, AList.keys (relMetaOf t))) =
    [("user", ["editor", "owner"]), ("doc", ["viewer"])] := by decide
example : ¬ (modelOf (merge [core, extGhost, extOwn] "1.2")).types.Perm (modelOf (merge [core, extOwn, extGhost] "1.2")).types :=
  fun hp => absurd (hp.map (fun t => (t.name, AList.keys (relMetaOf t)))) (by decide)
/-- with distinct file names the same blocks are applied in file-name order, whatever the list order -/
example : merge [core, mkExt "y.fga" ["z", "a"] ["a", "z"], extM] "1.2" =
    merge [extM, mkExt "y.fga" ["z", "a"] ["a", "z"], core] "1.2" := by rfl

/-! ### the error list of a permuted input is not, in general, a permutation of the original one -/

/-- message and file of every error -/
def msgsOf (o : MergeOutcome) : List (String × String) :=
  (errorsOf o).map fun
    | .mod m f _ => (m, f)
    | .syn e => (e.msg, "")

/-- (a) a duplicate is reported on the declaration that comes second: another file is named -/
example : msgsOf (merge [core, dupUser] "1.2") = [("duplicate type definition user", "dup.fga")] ∧
    msgsOf (merge [dupUser, core] "1.2") = [("duplicate type definition user", "core.fga")] := by decide
example : ¬ (errorsOf (merge [core, dupUser] "1.2")).Perm (errorsOf (merge [dupUser, core] "1.2")) := by decide

def mkDef (file mod : String) (rels : List String) : FileIn :=
  { name := file, contents := "",
    outcome := .ok { schema := "", types := [{ name := "t", relations := rels.map (fun r => (r, Userset.this)),
                                                md := some { relations := rels.map (fun r => (r, { «module» := mod })), «module» := mod } }],
                     conds := [] } (some []) }
def extT : FileIn :=
  { name := "c.fga", contents := "",
    outcome := .ok { schema := "", types := [{ name := "t", relations := [("editor", .this)],
                                                md := some { relations := [("editor", { «module» := "c" })], «module» := "c" } }],
                     conds := [] } (some [("t", 0)]) }

/-- (b) not even the messages: only the first definition of a name is examined for its module -/
example : msgsOf (merge [mkDef "a.fga" "a" [], mkDef "b.fga" "" []] "1.2") =
    [("duplicate type definition t", "b.fga")] := by decide
example : msgsOf (merge [mkDef "b.fga" "" [], mkDef "a.fga" "a" []] "1.2") =
    [("file is not a module", "b.fga"), ("duplicate type definition t", "a.fga")] := by decide
/-- (c) module files only: which of two definitions is registered decides whether an extension clashes -/
example : msgsOf (merge [mkDef "a.fga" "a" ["viewer"], mkDef "b.fga" "b" ["editor"], extT] "1.2") =
    [("duplicate type definition t", "b.fga")] := by decide
example : msgsOf (merge [mkDef "b.fga" "b" ["editor"], mkDef "a.fga" "a" ["viewer"], extT] "1.2") =
    [("duplicate type definition t", "a.fga"), ("relation editor already exists on type t", "c.fga")] := by decide

/-- non-vacuity of `errors_order_independent`: nothing declared twice, three kinds of error -/
def bad : List FileIn := [extClash, core, noModule, broken, extT]
example : msgsOf (merge bad "1.2") =
    [("file is not a module", "plain.fga"), ("mismatched input 'typ'", ""),
     ("extended type t does not exist", "c.fga"), ("relation viewer already exists on type doc", "ext.fga")] := by decide
example : msgsOf (merge bad.reverse "1.2") =
    [("mismatched input 'typ'", ""), ("file is not a module", "plain.fga"),
     ("extended type t does not exist", "c.fga"), ("relation viewer already exists on type doc", "ext.fga")] := by decide
example : (errorsOf (merge bad "1.2")).Perm (errorsOf (merge bad.reverse "1.2")) :=
  (errors_order_independent "1.2" (List.reverse_perm bad).symm (by decide) (by decide) (by decide) _ _ rfl rfl).1

end FgaVerif.Props.C12
