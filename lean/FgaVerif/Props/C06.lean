import FgaVerif.Proofs.WMap
import FgaVerif.Proofs.Weights
/-! # C06 — the weighted graph is a deterministic function of the model (specification side)

    C06 is a property of the Go code's schedule (map iteration, depth-first start order, concurrent
    builds); it is decided by building every generated model repeatedly, under every forced start
    order (hook), with permuted type definitions, with permuted operands and from eight goroutines, and
    demanding identical verdicts, weights and wildcard sets.  The specification the results are
    compared with (`Spec/Weights.lean`) has no schedule parameter at all, so "same model ⇒ same result"
    holds of it by construction.  What is not obvious, and proved here, is the clause about operands:

    * `merge_order_irrelevant`, `intersection_order_irrelevant` — the pointwise-maximum merge of weight
      maps, and the common-keys combination of an intersection, do not depend on the order of the maps
      (key-sorted maps are determined by their lookups; the combinations are commutative and
      associative at the level of lookups).
    * `operand_order_irrelevant` — hence, for a relation, union, operand group or intersection node,
      permuting its operands leaves its weights unchanged, in every state whose maps are sorted …
    * `result_is_sorted` — … which every state of the iteration is, in particular its result.
    * `reordered_model_same_solution` — if the result satisfies the node equations of a graph, it also
      satisfies those of the graph in which some nodes' operands (other than an exclusion's, whose
      subtract operand is positional) are permuted: reordering the operands of unions and intersections
      changes no weight.

    Not proved: anything about the Go algorithm's independence of its schedule (the oracle's job), and
    invariance of the specification under permutation of *type definitions* (node order in the state
    list; lookups are by name). -/
namespace FgaVerif.Props.C06
open FgaVerif.Spec.Weights

theorem merge_order_irrelevant {cs cs' : List WMap} (h : cs.Perm cs') :
    cs.foldl unionMax [] = cs'.foldl unionMax [] := foldl_unionMax_perm h

theorem intersection_order_irrelevant {cs cs' : List WMap} (h : cs.Perm cs') (hs : ∀ c ∈ cs, SortedW c) :
    interCombine cs = interCombine cs' := interCombine_perm h hs

theorem result_is_sorted (g : SGraph) : StateSorted (weights g) := stateSorted_weights g

theorem operand_order_irrelevant (g : SGraph) (n : Node) (edges' : List Edge)
    (hp : n.edges.Perm edges') (hk : n.kind ≠ .diff) :
    nodeWeights (g.length + 2) (weights g) { n with edges := edges' } =
      nodeWeights (g.length + 2) (weights g) n :=
  nodeWeights_perm _ _ (result_is_sorted g) n edges' hp hk

/-- `g'` is `g` with the operands of some non-exclusion nodes permuted -/
inductive Reordered : SGraph → SGraph → Prop
  | nil : Reordered [] []
  | same (n : Node) {g g' : SGraph} : Reordered g g' → Reordered (n :: g) (n :: g')
  | perm (n : Node) (edges' : List Edge) {g g' : SGraph} : n.edges.Perm edges' → n.kind ≠ .diff →
      Reordered g g' → Reordered (n :: g) ({ n with edges := edges' } :: g')

theorem Reordered.length {g g' : SGraph} (h : Reordered g g') : g'.length = g.length := by
  induction h with
  | nil => rfl
  | same _ _ ih => simp [ih]
  | perm _ _ _ _ _ ih => simp [ih]

theorem stepState_reordered (cap : Nat) (st : State) (hst : StateSorted st) {g g' : SGraph} (h : Reordered g g') :
    stepState cap g' st = stepState cap g st := by
  induction h with
  | nil => rfl
  | same n _ ih =>
    unfold stepState at ih ⊢
    simp only [List.map_cons, ih]
  | perm n edges' hp hk _ ih =>
    unfold stepState at ih ⊢
    simp only [List.map_cons, ih]
    rw [nodeWeights_perm cap st hst n edges' hp hk]

/-- the solution of the model's equations is also the solution after reordering operands -/
theorem reordered_model_same_solution {g g' : SGraph} (h : Reordered g g')
    (hfix : isFixpoint g (weights g) = true) : isFixpoint g' (weights g) = true := by
  unfold isFixpoint at *
  rw [h.length, stepState_reordered _ _ (result_is_sorted g) h]
  exact hfix

/-! ### non-vacuity -/
def m1 : WMap := [("employee", 2), ("user", 1)]
def m2 : WMap := [("user", 3)]
def m3 : WMap := [("group", 1), ("user", 2)]
example : [m1, m2, m3].foldl unionMax [] = [m3, m1, m2].foldl unionMax [] := by decide
example : interCombine [m1, m2, m3] = [("user", 3)] ∧ interCombine [m3, m2, m1] = [("user", 3)] := by decide

end FgaVerif.Props.C06
