import FgaVerif.Proofs.WMap
import FgaVerif.Proofs.Weights
import FgaVerif.Proofs.WeightsCongr
import FgaVerif.Props.C11
import FgaVerif.Props.C04
/-! # C06 — the weighted graph is a deterministic function of the model (specification side)

    C06 is a property of the Go code's schedule (map iteration, depth-first start order, concurrent
    builds); it is decided by building every generated model repeatedly, under every forced start
    order (hook), with permuted type definitions, with permuted operands and from eight goroutines, and
    demanding identical verdicts, weights and wildcard sets.  The specification the results are
    compared with (`Spec/Weights.lean`) has no schedule parameter at all, so "same model ⇒ same result"
    holds of it by construction.  What is not obvious, and proved here, is the clause about operands:

    * `merge_order_irrelevant`, `intersection_order_irrelevant` — the pointwise-maximum merge of weight
      maps, and the common-keys combination of an intersection, do not depend on the order of the maps
      (key-sorted maps are determined by their lookups; the combinations are commutative and
      associative at the level of lookups).
    * `operand_order_irrelevant` — hence, for a relation, union, operand group or intersection node,
      permuting its operands leaves its weights unchanged, in every state whose maps are sorted …
    * `result_is_sorted` — … which every state of the iteration is, in particular its result.
    * `reordered_model_same_solution` — if the result satisfies the node equations of a graph, it also
      satisfies those of the graph in which some nodes' operands (other than an exclusion's, whose
      subtract operand is positional) are permuted: reordering the operands of unions and intersections
      changes no weight.

    * `weights_are_a_function_of_meaning` — two specification graphs in which the same terminal types
      reach the same nodes and the same walks exist (`Spec/WeightsSem.lean`) get the same weight map on
      every node (both results are characterised by those relations, Props/C04); hypotheses: both
      iterations converged (`Converged` = `isFixpoint` ∧ `normalB`, evaluated by the driver).
    * `type_order_permutes_graph`, `type_order_irrelevant` — permuting the **type definitions** of a
      model permutes its specification graph, and a permuted graph (distinct node names) gets the same
      weights on every node.  The harness also evaluates the conclusion: the driver's answer for the
      permuted model must be the same line.
    * `reordered_same_weights` — the graph with the operands of some unions / intersections /
      relations permuted (`Reordered`) gets the same weights on every node — not only "the old result
      still satisfies the new equations".

    Not proved: anything about the Go algorithm's independence of its schedule (the oracle's job); the
    model-level statement for permuted operands (operator nodes are named by preorder position, so a
    permuted model's graph is equivalent only up to renaming operator nodes). -/
namespace FgaVerif.Props.C06
open FgaVerif.Spec.Weights

theorem merge_order_irrelevant {cs cs' : List WMap} (h : cs.Perm cs') :
    cs.foldl unionMax [] = cs'.foldl unionMax [] := foldl_unionMax_perm h

theorem intersection_order_irrelevant {cs cs' : List WMap} (h : cs.Perm cs') (hs : ∀ c ∈ cs, SortedW c) :
    interCombine cs = interCombine cs' := interCombine_perm h hs

theorem result_is_sorted (g : SGraph) : StateSorted (weights g) := stateSorted_weights g

theorem operand_order_irrelevant (g : SGraph) (n : Node) (edges' : List Edge)
    (hp : n.edges.Perm edges') (hk : n.kind ≠ .diff) :
    nodeWeights (g.length + 2) (weights g) { n with edges := edges' } =
      nodeWeights (g.length + 2) (weights g) n :=
  nodeWeights_perm _ _ (result_is_sorted g) n edges' hp hk

/-- `g'` is `g` with the operands of some non-exclusion nodes permuted -/
inductive Reordered : SGraph → SGraph → Prop
  | nil : Reordered [] []
  | same (n : Node) {g g' : SGraph} : Reordered g g' → Reordered (n :: g) (n :: g')
  | perm (n : Node) (edges' : List Edge) {g g' : SGraph} : n.edges.Perm edges' → n.kind ≠ .diff →
      Reordered g g' → Reordered (n :: g) ({ n with edges := edges' } :: g')

theorem Reordered.length {g g' : SGraph} (h : Reordered g g') : g'.length = g.length := by
  induction h with
  | nil => rfl
  | same _ _ ih => simp [ih]
  | perm _ _ _ _ _ ih => simp [ih]

theorem stepState_reordered (cap : Nat) (st : State) (hst : StateSorted st) {g g' : SGraph} (h : Reordered g g') :
    stepState cap g' st = stepState cap g st := by
  induction h with
  | nil => rfl
  | same n _ ih =>
    unfold stepState at ih ⊢
    simp only [List.map_cons, ih]
  | perm n edges' hp hk _ ih =>
    unfold stepState at ih ⊢
    simp only [List.map_cons, ih]
    rw [nodeWeights_perm cap st hst n edges' hp hk]

/-- the solution of the model's equations is also the solution after reordering operands -/
theorem reordered_model_same_solution {g g' : SGraph} (h : Reordered g g')
    (hfix : isFixpoint g (weights g) = true) : isFixpoint g' (weights g) = true := by
  unfold isFixpoint at *
  rw [h.length, stepState_reordered _ _ (result_is_sorted g) h]
  exact hfix

/-! ### order of type definitions, order of operands: same weights -/

theorem weights_are_a_function_of_meaning (g g' : SGraph) (hg : Converged g) (hg' : Converged g')
    (hH : ∀ T n, HasType g T n ↔ HasType g' T n) (hW : ∀ T n k, Walk g T n k ↔ Walk g' T n k) (n : String) :
    stateGet (weights g) n = stateGet (weights g') n := weights_determined g g' hg hg' hH hW n

theorem type_order_permutes_graph (grouped : Bool) (m m' : FgaVerif.Model.Model) (hp : m.types.Perm m'.types) :
    (sgraph grouped m).Perm (sgraph grouped m') := sgraph_perm grouped m m' hp

theorem type_order_irrelevant (grouped : Bool) (m m' : FgaVerif.Model.Model) (hp : m.types.Perm m'.types)
    (hn : ((sgraph grouped m).map (·.name)).Nodup)
    (hg : Converged (sgraph grouped m)) (hg' : Converged (sgraph grouped m')) (n : String) :
    stateGet (weights (sgraph grouped m)) n = stateGet (weights (sgraph grouped m')) n :=
  weights_perm _ _ (sgraph_perm grouped m m' hp) hn hg hg' n

theorem nodeOf_cons (a : Node) (g : SGraph) (x : String) :
    nodeOf (a :: g) x = if (a.name == x) = true then some a else nodeOf g x := by
  unfold nodeOf
  simp only [List.find?_cons]
  cases a.name == x <;> rfl

theorem Reordered.graphEquiv {g g' : SGraph} (h : Reordered g g') : GraphEquiv g g' := by
  induction h with
  | nil => intro x; exact Or.inl ⟨rfl, rfl⟩
  | same n _ ih =>
    intro x
    rw [nodeOf_cons, nodeOf_cons]
    by_cases hx : (n.name == x) = true
    · simp only [hx, if_true]; exact Or.inr ⟨n, n, rfl, rfl, .refl n⟩
    · simp only [hx]; exact ih x
  | perm n edges' hp hk _ ih =>
    intro x
    rw [nodeOf_cons, nodeOf_cons]
    by_cases hx : (n.name == x) = true
    · simp only [hx, if_true]
      exact Or.inr ⟨n, _, rfl, rfl, rfl, fun e => hp.mem_iff, fun hd => absurd hd hk⟩
    · simp only [hx]; exact ih x

theorem reordered_same_weights {g g' : SGraph} (h : Reordered g g') (hg : Converged g) (hg' : Converged g')
    (n : String) : stateGet (weights g) n = stateGet (weights g') n :=
  weights_congr g g' hg hg' h.graphEquiv n

/-! ### non-vacuity -/
def m1 : WMap := [("employee", 2), ("user", 1)]
def m2 : WMap := [("user", 3)]
def m3 : WMap := [("group", 1), ("user", 2)]
example : [m1, m2, m3].foldl unionMax [] = [m3, m1, m2].foldl unionMax [] := by decide
example : interCombine [m1, m2, m3] = [("user", 3)] ∧ interCombine [m3, m2, m1] = [("user", 3)] := by decide

/-- `define a: b or [user]` / `define b: [user] or a from p` / `define p: [doc]`, and the same nodes in
    another order with the union's operands swapped: both converge, same weights -/
def gA : SGraph := [
  ⟨"doc#a", .rel, [⟨.node "doc#b", false, ""⟩, ⟨.type "user", true, ""⟩]⟩,
  ⟨"doc#b", .rel, [⟨.type "user", true, ""⟩, ⟨.node "doc#a", true, "doc#p"⟩]⟩,
  ⟨"doc#p", .rel, [⟨.type "doc", true, ""⟩]⟩]
def gB : SGraph := [
  ⟨"doc#p", .rel, [⟨.type "doc", true, ""⟩]⟩,
  ⟨"doc#b", .rel, [⟨.node "doc#a", true, "doc#p"⟩, ⟨.type "user", true, ""⟩]⟩,
  ⟨"doc#a", .rel, [⟨.node "doc#b", false, ""⟩, ⟨.type "user", true, ""⟩]⟩]
example : Converged gA ∧ Converged gB := by unfold Converged; decide
example : stateGet (weights gA) "doc#a" = [("user", infinite)] ∧ stateGet (weights gB) "doc#a" = [("user", infinite)] := by decide

/-! ### the algorithm: what it computes does not depend on the traversal

    About the **port** of `AssignWeights` (`Model/WAssign.lean`, whose depth-first start order is a parameter):
    two successful runs from any two start orders visit the same nodes and give every node the same wildcard
    *set* (from C11's exact characterisation: the set is determined by reachability in the graph, in which no
    order occurs), and the same weight for every terminal type (from C04's exact characterisation of the weights by
    `HasT` and `WalkT`).  Not covered: that the *verdict* (success or the error class) is independent of the order
    — that is the correspondence per forced order plus the specification oracle, and for rewrite-only cycles the
    theorem of C05. -/
section algorithm
open FgaVerif.Model FgaVerif.Model.WGraph FgaVerif.Model.WAssign

/-- both runs visit exactly the non-terminal nodes of the graph that are nodes of the graph -/
theorem algorithm_visits_order_independent (g : G) (o1 o2 : List String) (s1 s2 : AState)
    (h1 : assignWeights g o1 = .ok s1) (h2 : assignWeights g o2 = .ok s2) (n : WNode) (hn : n ∈ g.nodes)
    (hnt : isTerminal (nodeType g n.uniqueLabel) = false) :
    n.uniqueLabel ∈ s1.visited ∧ n.uniqueLabel ∈ s2.visited :=
  ⟨(FgaVerif.Props.C04.algorithm_all_nodes_visited g o1 s1 h1).1 n hn hnt,
   (FgaVerif.Props.C04.algorithm_all_nodes_visited g o2 s2 h2).1 n hn hnt⟩

/-- **the wildcard set of every node is independent of the depth-first start order** -/
theorem algorithm_wildcards_order_independent (g : G) (hph : noPHTypesB g = true) (hs : srcOKB g = true)
    (hts : termSinkB g = true) (o1 o2 : List String) (s1 s2 : AState)
    (h1 : assignWeights g o1 = .ok s1) (h2 : assignWeights g o2 = .ok s2) (n : WNode) (hn : n ∈ g.nodes)
    (hnt : isTerminal (nodeType g n.uniqueLabel) = false) (T : String) :
    T ∈ aget n.uniqueLabel s1.nodeWild ↔ T ∈ aget n.uniqueLabel s2.nodeWild := by
  obtain ⟨v1, v2⟩ := algorithm_visits_order_independent g o1 o2 s1 s2 h1 h2 n hn hnt
  rw [FgaVerif.Props.C11.algorithm_wildcards_exact g hph hs hts o1 s1 h1 _ v1 T,
      FgaVerif.Props.C11.algorithm_wildcards_exact g hph hs hts o2 s2 h2 _ v2 T]

/-- **the weight of every terminal type at every node is independent of the depth-first start order**: two
    successful runs of the algorithm agree on every lookup of every node's weight map (the keys are the types
    that reach the node, a finite weight is the largest hop count of a walk, `Infinite` stands for unbounded
    walks — C04's exact characterisation, in which no order occurs) -/
theorem algorithm_weights_order_independent (g : G) (hph : noPHTypesB g = true) (o1 o2 : List String) (s1 s2 : AState)
    (h1 : assignWeights g o1 = .ok s1) (h2 : assignWeights g o2 = .ok s2) (n : WNode) (hn : n ∈ g.nodes)
    (hnt : isTerminal (nodeType g n.uniqueLabel) = false) (T : String) :
    wget T (aget n.uniqueLabel s1.nodeW) = wget T (aget n.uniqueLabel s2.nodeW) := by
  obtain ⟨v1, v2⟩ := algorithm_visits_order_independent g o1 o2 s1 s2 h1 h2 n hn hnt
  -- one direction, used twice
  have key : ∀ (oa ob : List String) (sa sb : AState) (ha : assignWeights g oa = .ok sa) (hb : assignWeights g ob = .ok sb)
      (va : n.uniqueLabel ∈ sa.visited) (vb : n.uniqueLabel ∈ sb.visited) (w : Nat),
      wget T (aget n.uniqueLabel sa.nodeW) = some w → wget T (aget n.uniqueLabel sb.nodeW) = some w := by
    intro oa ob sa sb ha hb va vb w hw
    have hle := (FgaVerif.Props.C04.algorithm_weights_witnessed g hph oa sa ha _ T w hw).1
    have hT : HasT g n.uniqueLabel T :=
      (FgaVerif.Props.C04.algorithm_keys_exact g hph oa sa ha _ T va).1 (by rw [hw]; rfl)
    have hsome := (FgaVerif.Props.C04.algorithm_keys_exact g hph ob sb hb _ T vb).2 hT
    obtain ⟨w', hw'⟩ := Option.isSome_iff_exists.1 hsome
    have hle' := (FgaVerif.Props.C04.algorithm_weights_witnessed g hph ob sb hb _ T w' hw').1
    rw [hw']
    congr 1
    by_cases hfin : w < FgaVerif.Model.WAssign.infinite
    · obtain ⟨_, hwalk, hmax⟩ := FgaVerif.Props.C04.algorithm_finite_weight_is_max_hops g hph oa sa ha _ T w va hw hfin
      by_cases hfin' : w' < FgaVerif.Model.WAssign.infinite
      · obtain ⟨_, hwalk', hmax'⟩ := FgaVerif.Props.C04.algorithm_finite_weight_is_max_hops g hph ob sb hb _ T w' vb hw' hfin'
        have a := hmax w' hwalk'
        have b := hmax' w hwalk
        omega
      · have hinf' : w' = FgaVerif.Model.WAssign.infinite := by omega
        rw [hinf'] at hw'
        rcases (FgaVerif.Props.C04.algorithm_infinite_iff g hph ob sb hb _ T vb).1 hw' with hu | ⟨k, hk, hwk⟩
        · obtain ⟨k, hk, hwk⟩ := hu (w + 1)
          have := hmax k hwk
          omega
        · have := hmax k hwk
          omega
    · have hinf : w = FgaVerif.Model.WAssign.infinite := by omega
      rw [hinf] at hw
      have hcond := (FgaVerif.Props.C04.algorithm_infinite_iff g hph oa sa ha _ T va).1 hw
      have hw2 := (FgaVerif.Props.C04.algorithm_infinite_iff g hph ob sb hb _ T vb).2 hcond
      rw [hw'] at hw2
      rw [hinf]
      exact (Option.some.inj hw2)
  cases e1 : wget T (aget n.uniqueLabel s1.nodeW) with
  | some w => exact (key o1 o2 s1 s2 h1 h2 v1 v2 w e1).symm
  | none =>
    cases e2 : wget T (aget n.uniqueLabel s2.nodeW) with
    | none => rfl
    | some w =>
      have := key o2 o1 s2 s1 h2 h1 v2 v1 w e2
      rw [e1] at this
      cases this

end algorithm

end FgaVerif.Props.C06
