import FgaVerif.Proofs.Listener
import FgaVerif.Proofs.AList
import FgaVerif.Proofs.ErasePos
/-!
# C03 — every grammatical layout of a model parses to exactly the model written

What is proved here, for **all** typed CSTs of relation declarations (`Model/Cst.lean` mirrors the
grammar rules relationDeclaration … relationDefTypeRestrictionBase *with their layout choices*: the
text of every WHITESPACE/NEWLINE token, optional tokens present or absent, line breaks inside a
restriction list, redundant parentheses of any depth, keyword tokens used as identifiers): the
listener port, walking the parse tree ANTLR builds for the CST, records exactly the denotation of
the CST — so layout and parenthesisation never change the result, operand order and nesting are
preserved, and the restrictions are kept in order.

`real_declaration_denotes` carries this over to **real parse trees**: for any tree `t` — with ANTLR's
line/column positions — that passes the decidable test `isEmbedding` (its position-erased form is
literally `Decl.tree d` for a well-formed CST `d`, found by an unverified reader and confirmed by a
verified equality test), walking `t` itself yields, up to the positions recorded in the error log,
the result determined by `d`'s name, denotation and restrictions (the walk commutes with erasing
positions, `Proofs/ErasePos.lean`).  The driver evaluates `isEmbedding` on every relation declaration
of every error-free real parse tree; the evidence reports how many pass (all of them, so far).

What is *not* proved: that the real lexer/parser maps the text of a CST to that parse tree (ANTLR is
a parameter).  That link is executed on every run: an independent grammar-mirroring renderer writes
generated models in random layouts, the real parser must return the model written, and the Lean
listener port walks the real parse trees and must agree with the real listener (correspondence).
The comment pre-pass is ported (`Model/Clean.lean`) and tied by the same correspondence.
-/
namespace FgaVerif.Props.C03
open FgaVerif.Model FgaVerif.Model.Listener FgaVerif.Model.Cst

/-- **listener_denotes** (restated from `Proofs/Listener.lean`): walking the parse tree of any
    well-formed relation declaration inside a type yields `declResult`, which mentions the CST only
    through its name text, its denotation `Def.den` and its declared restrictions `Def.restr`. -/
theorem listener_denotes (pe : Option Bool) (d : Decl) (hd : d.body.wf = true) (st : LState) (td : TypeDef)
    (m : TypeMeta) (htd : st.currentTypeDef = some td) (hm : td.md = some m) :
    walk pe (Decl.tree d) st = .ok (declResult pe d st td m) :=
  walk_decl pe d hd st td m htd hm

/-- **real parse trees**: a relation-declaration subtree of a real parse tree (positions and all) that
    passes the embedding test yields — up to the positions in the error log — the result that the
    well-formed CST `d` it embeds determines -/
theorem real_declaration_denotes (pe : Option Bool) (t : Tree) (d : Decl) (h : embeddingOf t = some d)
    (st : LState) (td : TypeDef) (m : TypeMeta) (htd : st.currentTypeDef = some td) (hm : td.md = some m) :
    stripR (walk pe t st) = .ok (stripSt (declResult pe d (stripSt st) td m)) := by
  obtain ⟨hwf, htree⟩ := embeddingOf_sound t d h
  rw [walk_strip pe t st (stripSt st) (stripSt_idem st).symm, ← htree,
    walk_decl pe d hwf (stripSt st) td m htd hm]
  rfl

/-- in particular the relation recorded for it is the CST's denotation, under the CST's name -/
theorem real_declaration_relation (pe : Option Bool) (t : Tree) (d : Decl) (h : embeddingOf t = some d)
    (st : LState) (td : TypeDef) (m : TypeMeta) (htd : st.currentTypeDef = some td) (hm : td.md = some m) :
    ∃ st', walk pe t st = .ok st' ∧
      st'.currentTypeDef = some (declTypeDef pe d (stripSt st) td m) := by
  have := real_declaration_denotes pe t d h st td m htd hm
  cases hw : walk pe t st with
  | error p => rw [hw] at this; simp [stripR] at this
  | ok st' =>
    rw [hw] at this
    simp only [stripR, Except.ok.injEq] at this
    refine ⟨st', rfl, ?_⟩
    have h2 : (stripSt st').currentTypeDef = (stripSt (declResult pe d (stripSt st) td m)).currentTypeDef := by
      rw [this]
    simpa [stripSt, declResult_typeDef] using h2

/-- **Layout and parentheses never change the result.**  Two declarations that agree on the name,
    the denotation and the declared restrictions — in particular two renderings of one definition
    that differ in whitespace, line breaks, optional tokens or redundant parentheses — leave the
    listener with the same type definition under construction, the same finished types and
    conditions, and the same error log. -/
theorem listener_layout_invariant (pe : Option Bool) (d1 d2 : Decl) (h1 : d1.body.wf = true) (h2 : d2.body.wf = true)
    (hname : d1.name.text = d2.name.text) (hden : Def.den d1.body = Def.den d2.body)
    (hrestr : Def.restr d1.body = Def.restr d2.body)
    (st : LState) (td : TypeDef) (m : TypeMeta) (htd : st.currentTypeDef = some td) (hm : td.md = some m) :
    ∃ s1 s2, walk pe (Decl.tree d1) st = .ok s1 ∧ walk pe (Decl.tree d2) st = .ok s2 ∧
      s1.currentTypeDef = s2.currentTypeDef ∧ s1.types = s2.types ∧ s1.conds = s2.conds ∧ s1.errors = s2.errors ∧
      s1.currentRelation = s2.currentRelation := by
  refine ⟨_, _, walk_decl pe d1 h1 st td m htd hm, walk_decl pe d2 h2 st td m htd hm, ?_, ?_, ?_, ?_, ?_⟩
  · rw [declResult_typeDef, declResult_typeDef]
    simp only [declTypeDef, hname, hden, hrestr]
  · rw [declResult_types, declResult_types]
  · rw [declResult_conds, declResult_conds]
  · rw [declResult_errors, declResult_errors, hname]
  · rw [declResult_currentRelation, declResult_currentRelation]

/-- the relation recorded for the declaration is the denotation of its CST (operand order and
    nesting as written, one operator per parenthesis level) and its metadata carries the declared
    restrictions in order -/
theorem declared_rewrite_recorded (pe : Option Bool) (d : Decl) (hd : d.body.wf = true) (st : LState) (td : TypeDef)
    (m : TypeMeta) (htd : st.currentTypeDef = some td) (hm : td.md = some m) :
    ∃ s td' m', walk pe (Decl.tree d) st = .ok s ∧ s.currentTypeDef = some td' ∧ td'.md = some m' ∧
      AList.find? d.name.text td'.relations = some (Def.den d.body) ∧
      (AList.find? d.name.text m'.relations).map (·.restr) = some ((Def.restr d.body).getD []) := by
  refine ⟨_, declTypeDef pe d st td m, _, walk_decl pe d hd st td m htd hm, declResult_typeDef _ _ _ _ _, rfl, ?_, ?_⟩
  · exact AList.find?_insert_self _ _ _
  · simp [AList.find?_insert_self, tiAfter]

/-! ## non-vacuity: two concrete layouts / parenthesisations of `[user] or (a and b from p)` -/
def idT (s : String) : Ident := ⟨true, "IDENTIFIER", s⟩
def rwA : Rw := ⟨idT "a", none⟩
def rwB : Rw := ⟨idT "b", some (" ", " ", idT "p")⟩
def restrUser : Restr := ⟨none, idT "user", .plain, none, none⟩
def inner : DefND := .mk (.rw rwA) (some (.mk .and (.one " " " " (.rw rwB))))

/-- `define v: [user] or (a and b from p)` -/
def d1 : Decl :=
  ⟨"\n    ", " ", idT "v", none, some " ",
   .mk (.direct ⟨none, restrUser, none, []⟩) (some (.mk .or (.one " " " " (.paren (.ofDef [] [] inner)))))⟩
/-- `define  v : ([ user\n ]) or (( a and b   from p ))` — other whitespace, a line break in the
    restriction list, redundant parentheses -/
def d2 : Decl :=
  ⟨"\r\n\r\n", "  ", idT "v", some " ", none,
   .mk (.recurse (.ofDef [] [] (.mk (.direct ⟨some " ", { restrUser with post := some "\n " }, none, []⟩) none)))
       (some (.mk .or (.one " " "   " (.paren (.ofRec [] [] (.ofDef [" "] [" "]
         (.mk (.rw rwA) (some (.mk .and (.one " " " " (.rw { rwB with from_ := some ("   ", " ", idT "p") })))))))))))⟩

example : d1.body.wf = true ∧ d2.body.wf = true := by decide
example : Def.den d1.body = .union [.this, .inter [.computed "a", .ttu "p" "b"]] := by rfl
example : Def.den d1.body = Def.den d2.body := by rfl
example : Def.restr d1.body = Def.restr d2.body := by decide
example : (Decl.tree d1).text ≠ (Decl.tree d2).text := by decide

end FgaVerif.Props.C03
