import FgaVerif.Gen.Atn
import FgaVerif.Model.Listener
import FgaVerif.Model.AtnGraph
import FgaVerif.Gen.Grammar
import FgaVerif.Gen.LexGrammar
import FgaVerif.Gen.ParserCode
/-!
# C19 — the Go, JS and Java parsers are generated from the one grammar in the repository

Everything here is a statement about finite tables that are re-extracted from /repo on every run
(`tools/gen_atn.py`): the serialized ATNs of the three generated lexers and parsers (three concrete
syntaxes: Go `[]int32`, TypeScript `number[]`, Java `String` in ANTLR's 16-bit-word encoding), the
`atn:` sections of the six `.interp` files, the vocabulary tables, the names declared in the two
`.g4` files and the callbacks of the Go listener.  Each theorem is decided by kernel evaluation over
the whole table (`decide +kernel`, no axioms beyond the kernel's literal arithmetic).
-/
namespace FgaVerif.Props.C19
open FgaVerif.Gen.Atn

/-- chunk-wise equality of all serialized copies of one automaton (the tables are stored in
    chunks of 400 integers: a flat comparison of several thousand elements exceeds the kernel's
    recursion depth) -/
theorem parser_atn_chunks :
    goParserAtnChunks = jsParserAtnChunks ∧ goParserAtnChunks = javaParserAtnChunks ∧
    goParserAtnChunks = goInterpParserAtnChunks ∧ goParserAtnChunks = jsInterpParserAtnChunks ∧
    goParserAtnChunks = javaInterpParserAtnChunks ∧ 1000 < (goParserAtnChunks.map List.length).sum := by
  decide +kernel

theorem lexer_atn_chunks :
    goLexerAtnChunks = jsLexerAtnChunks ∧ goLexerAtnChunks = javaLexerAtnChunks ∧
    goLexerAtnChunks = goInterpLexerAtnChunks ∧ goLexerAtnChunks = jsInterpLexerAtnChunks ∧
    goLexerAtnChunks = javaInterpLexerAtnChunks ∧ 1000 < (goLexerAtnChunks.map List.length).sum := by
  decide +kernel

/-- the parser automaton embedded in the three packages is the same list of integers, and equals
    the one recorded in each package's `.interp` file -/
theorem parser_atn_equal :
    goParserAtn = jsParserAtn ∧ goParserAtn = javaParserAtn ∧ goParserAtn = goInterpParserAtn ∧
    goParserAtn = jsInterpParserAtn ∧ goParserAtn = javaInterpParserAtn := by
  obtain ⟨h1, h2, h3, h4, h5, _⟩ := parser_atn_chunks
  exact ⟨congrArg List.flatten h1, congrArg List.flatten h2, congrArg List.flatten h3,
         congrArg List.flatten h4, congrArg List.flatten h5⟩

/-- the same for the lexer automaton -/
theorem lexer_atn_equal :
    goLexerAtn = jsLexerAtn ∧ goLexerAtn = javaLexerAtn ∧ goLexerAtn = goInterpLexerAtn ∧
    goLexerAtn = jsInterpLexerAtn ∧ goLexerAtn = javaInterpLexerAtn := by
  obtain ⟨h1, h2, h3, h4, h5, _⟩ := lexer_atn_chunks
  exact ⟨congrArg List.flatten h1, congrArg List.flatten h2, congrArg List.flatten h3,
         congrArg List.flatten h4, congrArg List.flatten h5⟩

/-- drop the trailing "no name" entries (the generated sources trim them, `.interp` pads them) -/
def trimNames (xs : List String) : List String := (xs.reverse.dropWhile (· == "")).reverse

/-- token literal / symbolic names, rule names and modes agree across the three packages, between
    lexer and parser, and with the `.interp` files -/
theorem vocab_equal :
    goParserSymbolic = jsParserSymbolic ∧ goParserSymbolic = javaParserSymbolic ∧
    goParserSymbolic = goLexerSymbolic ∧ goLexerSymbolic = jsLexerSymbolic ∧ goLexerSymbolic = javaLexerSymbolic ∧
    goParserSymbolic = goInterpParserSymbolic ∧ goParserSymbolic = jsInterpParserSymbolic ∧
    goParserSymbolic = javaInterpParserSymbolic ∧ goParserSymbolic = goInterpLexerSymbolic ∧
    trimNames goParserLiteral = trimNames jsParserLiteral ∧ trimNames goParserLiteral = trimNames javaParserLiteral ∧
    trimNames goParserLiteral = trimNames goLexerLiteral ∧ trimNames goLexerLiteral = trimNames jsLexerLiteral ∧
    trimNames goLexerLiteral = trimNames javaLexerLiteral ∧
    trimNames goParserLiteral = trimNames goInterpParserLiteral ∧ trimNames goParserLiteral = trimNames jsInterpParserLiteral ∧
    trimNames goParserLiteral = trimNames javaInterpParserLiteral ∧
    goParserRules = jsParserRules ∧ goParserRules = javaParserRules ∧ goParserRules = goInterpParserRules ∧
    goParserRules = jsInterpParserRules ∧ goParserRules = javaInterpParserRules ∧
    goLexerRules = jsLexerRules ∧ goLexerRules = javaLexerRules ∧ goLexerRules = goInterpLexerRules ∧
    goLexerRules = jsInterpLexerRules ∧ goLexerRules = javaInterpLexerRules ∧
    goLexerModes = jsLexerModes ∧ goLexerModes = javaLexerModes ∧ goLexerModes = goInterpLexerModes ∧
    goParserTokens = jsParserTokens ∧ goParserTokens = javaParserTokens ∧ goLexerTokens = jsLexerTokens ∧
    goLexerTokens = javaLexerTokens ∧ goParserTokens = goLexerTokens := by
  decide +kernel

/-- the vocabularies are those of the `.g4` sources: same parser rules in the same order, same
    lexer rules (fragments included) in the same order, same modes, and every token name is
    declared in the lexer grammar (a rule or the `tokens {}` block) -/
theorem vocab_matches_g4 :
    goParserRules = g4ParserRules ∧ goLexerRules = g4LexerAll ∧ goLexerModes = g4Modes ∧
    (goParserSymbolic.all fun n => n == "" || g4TokensBlock.contains n || g4LexerRules.contains n) = true ∧
    (goParserTokens.all fun (n, i) => n.startsWith "'" || goParserSymbolic[i]? == some n) = true ∧
    g4ParserRules.length = 27 := by
  decide +kernel

def decapitalize (s : String) : String :=
  match s.toList with
  | [] => ""
  | c :: cs => String.ofList (c.toLower :: cs)

/-- every Enter*/Exit* method of the Go listener names a rule of the grammar (a renamed rule would
    leave a callback that is silently never called), and the Lean port implements callbacks for
    exactly the same rules -/
theorem listener_callbacks_exist :
    (goListenerCallbacks.all fun (_, n) => goParserRules.contains (decapitalize n)) = true ∧
    (goListenerCallbacks.all fun (_, n) => Model.Listener.callbackRules.contains (decapitalize n)) = true ∧
    (Model.Listener.callbackRules.all fun r => goListenerCallbacks.any fun (_, n) => decapitalize n == r) = true ∧
    goListenerCallbacks.length = 20 := by
  decide +kernel

/-! ## The parser grammar and the automaton the generated parsers embed

    `Gen/Grammar.lean` is the translation of `OpenFGAParser.g4` made on this run; `goParserAtn` is the
    serialized automaton found in the generated Go parser (equal to the JS and Java copies by
    `parser_atn_equal`).  The automaton is read back (`AtnGraph.deserialize`) and compared with the
    grammar rule by rule at the precision of Glushkov's local sets: nullable, first symbols, last
    symbols, and which symbol may follow which (symbols = token types and rule references; token sets
    and complements expanded).  An edit of a rule body in the `.g4` without regenerating the parsers -
    an added or removed alternative, token or rule reference, a changed `?`/`*`/`+` - changes one of
    these sets and this theorem stops checking.  (Equality of local sets is not language equality: two
    bodies with the same local sets can differ, e.g. in how often a symbol may repeat.) -/

open FgaVerif.Model.AtnGraph in
def parserAtn : Atn := (deserialize goParserAtn).getD default

open FgaVerif.Model.AtnGraph in
def resolvedRules : List NGram :=
  FgaVerif.Gen.Grammar.rules.map (fun r => resolve parserAtn.maxTok goParserSymbolic goParserRules r.2)

open FgaVerif.Model.AtnGraph in
def ruleAgrees (i : Nat) : Bool :=
  match resolvedRules[i]? with
  | some g => atnLocal parserAtn i == gramLocal g
  | none => false

theorem parser_atn_deserializes : (FgaVerif.Model.AtnGraph.deserialize goParserAtn).isSome = true := by
  decide +kernel

/-- the rules of the `.g4`, in order, are the rule table of the generated parsers -/
theorem grammar_rule_names : FgaVerif.Gen.Grammar.rules.map (·.1) = goParserRules := by decide +kernel

/-- every rule body of the `.g4` has the local sets of its sub-automaton in the embedded ATN -/
theorem grammar_matches_atn :
    (List.range FgaVerif.Gen.Grammar.rules.length).all ruleAgrees = true ∧ 20 < FgaVerif.Gen.Grammar.rules.length := by
  decide +kernel

/-! ## The code of the generated parsers and the automaton

    The serialized ATN is data; the recursive-descent *code* around it is generated too and can be
    hand-edited independently.  `tools/gen_parsercode.py` re-extracts, from the Go, TypeScript and Java
    parser sources, every statement a rule function makes about the automaton — the start state it
    enters its rule at, the decision number it asks the interpreter to predict at a state, the token
    it matches at a state, the rule it calls at a state — and the kernel decides that each one is a
    fact of the deserialized ATN (206 facts per language). -/

open FgaVerif.Model.AtnGraph FgaVerif.Gen.ParserCode in
theorem go_parser_code_matches_atn :
    codeAgrees parserAtn goParserRules goParserSymbolic goEnter goDecisions goMatches goCalls = true ∧
    goEnter.length = goParserRules.length ∧ 20 < goDecisions.length ∧ 50 < goMatches.length ∧ 30 < goCalls.length := by
  decide +kernel

open FgaVerif.Model.AtnGraph FgaVerif.Gen.ParserCode in
theorem js_parser_code_matches_atn :
    codeAgrees parserAtn goParserRules goParserSymbolic jsEnter jsDecisions jsMatches jsCalls = true ∧
    jsEnter.length = goParserRules.length ∧ 20 < jsDecisions.length ∧ 50 < jsMatches.length ∧ 30 < jsCalls.length := by
  decide +kernel

open FgaVerif.Model.AtnGraph FgaVerif.Gen.ParserCode in
theorem java_parser_code_matches_atn :
    codeAgrees parserAtn goParserRules goParserSymbolic javaEnter javaDecisions javaMatches javaCalls = true ∧
    javaEnter.length = goParserRules.length ∧ 20 < javaDecisions.length ∧ 50 < javaMatches.length ∧ 30 < javaCalls.length := by
  decide +kernel

open FgaVerif.Gen.ParserCode in
/-- the three generated parsers make the same statements, in the same order -/
theorem parser_code_same_in_all_languages :
    goEnter = jsEnter ∧ goEnter = javaEnter ∧ goDecisions = jsDecisions ∧ goDecisions = javaDecisions ∧
    goMatches = jsMatches ∧ goMatches = javaMatches ∧ goCalls = jsCalls ∧ goCalls = javaCalls := by
  decide +kernel

/-! ## The lexer grammar and the lexer automaton

    The same for `OpenFGALexer.g4` (`Gen/LexGrammar.lean`, 75 rules with fragments, two modes) and the
    lexer ATN of the generated lexers (equal across Go/JS/Java by `lexer_atn_equal`): per rule the local
    sets over characters and rule references (character sets evaluated on every ASCII code point and
    nine sample code points beyond; `lexer_sets_ascii_or_cofinite` shows that no set of the automaton
    distinguishes between non-ASCII characters other than by containing all or none of a sample's
    kind), the lexer commands (`pushMode`, `popMode`, `type`, `channel`), the token type the rule
    produces, and for each mode the list of its token rules in priority order. -/

open FgaVerif.Model.AtnGraph in
def lexerAtn : LexAtn := (deserializeLexer goLexerAtn).getD default

open FgaVerif.Model.AtnGraph in
def lexResolved : List NGram := FgaVerif.Gen.LexGrammar.rules.map (fun r => lexResolve goLexerRules r.body)

def tokTypeOf (name : String) : Nat := (goLexerSymbolic.findIdx? (· == name)).getD 0

open FgaVerif.Model.AtnGraph in
def lexRuleAgrees (i : Nat) : Bool :=
  match lexResolved[i]?, FgaVerif.Gen.LexGrammar.rules[i]? with
  | some g, some r =>
      lexAtnLocal lexerAtn.base i == gramLocal256 g &&
      atnCommands lexerAtn i == gramCommands goLexerSymbolic goLexerModes r.commands &&
      lexerAtn.ruleTokenType[i]? == some (if r.fragment then 0 else tokTypeOf r.name)
  | _, _ => false

open FgaVerif.Model.AtnGraph in
def modeAgrees (m : Nat) : Bool :=
  match goLexerModes[m]? with
  | some mode => atnModeRules lexerAtn m ==
      (List.range FgaVerif.Gen.LexGrammar.rules.length).filter (fun i =>
        match FgaVerif.Gen.LexGrammar.rules[i]? with
        | some r => r.mode == mode && !r.fragment
        | none => false)
  | none => false

theorem lexer_atn_deserializes : (FgaVerif.Model.AtnGraph.deserializeLexer goLexerAtn).isSome = true := by
  decide +kernel

/-- the rules of the lexer grammar (fragments included), in order, are the rule table of the lexers -/
theorem lexer_rule_names : FgaVerif.Gen.LexGrammar.rules.map (·.name) = goLexerRules := by decide +kernel

/-- every lexer rule has the local sets, the commands and the token type of its sub-automaton -/
theorem lexer_grammar_matches_atn :
    (List.range FgaVerif.Gen.LexGrammar.rules.length).all lexRuleAgrees = true ∧
    60 < FgaVerif.Gen.LexGrammar.rules.length := by
  decide +kernel

/-- each mode offers exactly its token rules, in grammar (= priority) order -/
theorem lexer_modes_match : (List.range goLexerModes.length).all modeAgrees = true ∧ goLexerModes.length = 2 := by
  decide +kernel

/-- all interval bounds of the automaton's character sets, atoms and ranges are ASCII, or the set
    extends to the last code point -/
theorem lexer_sets_ascii_or_cofinite :
    (lexerAtn.base.sets.all (fun iv => iv.all (fun (a, b) => a < 128 && (b < 128 || b == 0x10FFFF))) &&
     lexerAtn.base.edges.all (fun e => (e.ty != 5 || e.a1 < 128) && (e.ty != 2 || (e.a1 < 128 && e.a2 < 128)))) = true := by
  decide +kernel

end FgaVerif.Props.C19
