import FgaVerif.Proofs.WGraph
import FgaVerif.Proofs.WGraphDst
/-! # C10 — the weighted-graph structure mirrors the model

    Theorems about `Model/WGraph.lean`, the port of the construction half of
    `WeightedAuthorizationModelGraphBuilder.Build` (everything before `AssignWeights`), for **every**
    model for which the construction succeeds.  The port is tied to the code by the correspondence
    check (node list and per-node ordered edge lists with kind, tupleset label and ordered condition
    names) and by an independent edge oracle in the harness.

    Proved:
    * `nodes_unique` — one node per unique label (type, `type#relation`, `type:*`, operator occurrence);
      `types_and_relations_have_nodes` — every type and every defined relation of the model has its node;
      `direct_assignment_complete` gives the node of every referenced userset and wildcard restriction.
    * `deduplicated_edges_distinct` — among the direct and TTU edges of one node no two share target,
      kind and tupleset label ("one direct edge per distinct target", "one TTU edge per parent type").
    * `conditions_are_sets` — the condition list of every edge is non-empty, has no repetition and never
      contains the empty name (an unconditioned restriction is recorded as `none`).
    * `direct_assignment_complete` / `direct_assignment_sound` — after `parseThis` every restriction has a
      direct edge to its target carrying its condition; and nothing is invented: every edge is old or
      points to the target of a restriction, every condition on it is old or is the condition of a
      restriction with that very target.
    * `ttu_complete` — a tuple-to-userset yields, for every parent type of the tupleset, an edge of kind
      TTU to `parent#computed` labelled `type#tupleset`, and every parent type has the computed relation.
    * `operator_edge_last`, `computed_edge_last` — an operator / a computed userset adds exactly one
      edge, at the end of its parent's list.
    * `construction_append_only` — construction only ever appends: for every node the sequence of edge
      keys after any sub-step has the sequence before it as a prefix, and conditions of an existing edge
      only grow at the end.  Hence operands appear in source order and
      `exclusion_subtract_last` — the edges of the subtract operand come after those of the base.

    * `edges_end_in_nodes` — no dangling edge: every edge of a built graph ends in a node of the graph
      (an invariant carried through every construction step, `Proofs/WGraphDst.lean`).

    "Building never modifies the model" holds by construction in the port (the model is an immutable
    value); of the code it is checked by the harness (model compared before/after every `Build`).

    Not proved here: that `T#r@k` renaming of the code's ULID labels is injective (operator labels are
    fresh ULIDs in the code, creation ordinals in the port), and everything about weights (C04–C06, C11). -/
namespace FgaVerif.Props.C10
open FgaVerif.Model FgaVerif.Model.WGraph

theorem nodes_unique (m : Model) (g : G) (h : build m = .ok g) :
    (g.nodes.map (·.uniqueLabel)).Nodup := (build_inv m g h).labels

/-- no dangling edge -/
theorem edges_end_in_nodes (m : Model) (g : G) (h : build m = .ok g) (src : String) :
    ∀ e ∈ edgesOf g src, e.dst ∈ g.nodes.map (·.uniqueLabel) :=
  build_dst m g h src

/-- every type and every defined relation of the model has its node -/
theorem types_and_relations_have_nodes (m : Model) (g : G) (h : build m = .ok g) :
    ∀ td ∈ m.types, td.name ∈ g.nodes.map (·.uniqueLabel) ∧
      ∀ ru ∈ td.relations, (td.name ++ "#" ++ ru.1) ∈ g.nodes.map (·.uniqueLabel) :=
  build_labels m g h

theorem deduplicated_edges_distinct (m : Model) (g : G) (h : build m = .ok g) (src : String) :
    (((edgesOf g src).filter (fun e => e.etype == .direct || e.etype == .ttu)).map
      (fun e => (e.dst, e.etype, e.tupleset))).Nodup := ((build_inv m g h).edges src).keys

theorem conditions_are_sets (m : Model) (g : G) (h : build m = .ok g) (src : String) :
    ∀ e ∈ edgesOf g src, e.conditions.Nodup ∧ e.conditions ≠ [] ∧ "" ∉ e.conditions ∧ e.src = src :=
  fun e he => ⟨((build_inv m g h).edges src).conds e he, ((build_inv m g h).edges src).nonempty e he,
    ((build_inv m g h).edges src).noBlank e he, ((build_inv m g h).edges src).src_eq e he⟩

/-- every restriction `[.., T, T:*, T#r, T with c, ..]` gets its direct edge with its condition, and its node -/
theorem direct_assignment_complete (parent : String) (refs : List RelRef) (g : G) :
    ∀ r ∈ refs, ∃ e ∈ edgesOf (parseThisRefs parent refs g) parent,
      e.dst = refLabel r ∧ e.etype = .direct ∧ e.tupleset = "" ∧ normCond r.cond ∈ e.conditions := by
  intro r hr
  obtain ⟨e, he, hk, hc⟩ := parseThisRefs_complete parent refs g r hr
  simp only [key, Prod.mk.injEq] at hk
  exact ⟨e, he, hk.1, hk.2.1, hk.2.2, hc⟩

/-- nothing is invented by a direct assignment on a node that had no edges yet: every edge is a direct
    edge to the target of some restriction and each of its conditions belongs to a restriction with
    that target -/
theorem direct_assignment_sound (parent : String) (refs : List RelRef) (g : G) (hfresh : edgesOf g parent = []) :
    ∀ e ∈ edgesOf (parseThisRefs parent refs g) parent,
      (∃ r ∈ refs, e.dst = refLabel r) ∧ e.etype = .direct ∧
      ∀ c ∈ e.conditions, ∃ r ∈ refs, c = normCond r.cond ∧ e.dst = refLabel r := by
  intro e he
  rcases parseThisRefs_sound parent refs g e he with ⟨e0, he0, _⟩ | ⟨⟨r, hr, hk⟩, hc⟩
  · rw [hfresh] at he0; simp at he0
  · simp only [key, Prod.mk.injEq] at hk
    refine ⟨⟨r, hr, hk.1⟩, hk.2.1, ?_⟩
    intro c hcm
    obtain ⟨r', hr', h1, h2⟩ := hc c hcm
    simp only [key, Prod.mk.injEq] at h2
    exact ⟨r', hr', h1, h2.1⟩

theorem ttu_complete (m : Model) (td : TypeDef) (parent ts cu : String) (refs : List RelRef) (g g' : G)
    (h : parseTTURefs m td parent ts cu refs g = .ok g') :
    ∀ r ∈ refs, typeAndRelationExists m r.type cu = true ∧
      ∃ e ∈ edgesOf g' parent, e.dst = r.type ++ "#" ++ cu ∧ e.etype = .ttu ∧ e.tupleset = td.name ++ "#" ++ ts := by
  intro r hr
  obtain ⟨h1, e, he, hk⟩ := parseTTURefs_complete m td parent ts cu refs g g' h r hr
  simp only [key, Prod.mk.injEq] at hk
  exact ⟨h1, e, he, hk.1, hk.2.1, hk.2.2⟩

theorem operator_edge_last (g : G) (parent op : String) :
    edgesOf (mkOp g parent op).1 parent =
      edgesOf g parent ++ [⟨parent, (mkOp g parent op).2, .rewrite, "", ["none"]⟩] := mkOp_edge g parent op

theorem computed_edge_last (m : Model) (td : TypeDef) (rel parent r : String) (pr : Bool) (g g' : G)
    (h : parseRewrite m td rel parent pr (.computed r) g = .ok g') :
    ∃ et, (et = .computed ∨ et = .rewrite) ∧
      edgesOf g' parent = edgesOf g parent ++ [⟨parent, td.name ++ "#" ++ r, et, "", ["none"]⟩] := by
  simp only [parseRewrite, Except.ok.injEq] at h
  subst h
  refine ⟨if pr && (getOrAddNode g (td.name ++ "#" ++ r) (td.name ++ "#" ++ r) .typeAndRelation).2.ntype == .typeAndRelation
      then .computed else .rewrite, ?_, ?_⟩
  · split <;> simp
  · unfold addEdge
    rw [edgesOf_setEdges_same, edgesOf_getOrAddNode, getOrAddNode_label]

/-- any part of the construction only appends -/
theorem construction_append_only (m : Model) (td : TypeDef) (rel : String) (u : Userset) (parent : String) (pr : Bool)
    (g g' : G) (h : parseRewrite m td rel parent pr u g = .ok g') (src : String) :
    g.nodes <+: g'.nodes ∧
    (edgesOf g src).map (fun e => (e.dst, e.etype, e.tupleset)) <+: (edgesOf g' src).map (fun e => (e.dst, e.etype, e.tupleset)) ∧
    ∀ e ∈ edgesOf g src, ∃ e' ∈ edgesOf g' src,
      (e'.dst, e'.etype, e'.tupleset) = (e.dst, e.etype, e.tupleset) ∧ e.conditions <+: e'.conditions :=
  let s := (parseRewrite_step m td rel u parent pr g g' h).ext
  ⟨s.nodes, s.keys src, s.conds src⟩

/-- exclusion: the operator node is the last edge of the parent; then come the edges of the base
    operand, then (appended after them) those of the subtract operand -/
theorem exclusion_subtract_last (m : Model) (td : TypeDef) (rel parent : String) (pr : Bool) (b s : Userset) (g g' : G)
    (h : parseRewrite m td rel parent pr (.diff b s) g = .ok g') :
    ∃ g2, parseRewrite m td rel (mkOp g parent "exclusion").2 false b (mkOp g parent "exclusion").1 = .ok g2 ∧
      parseRewrite m td rel (mkOp g parent "exclusion").2 false s g2 = .ok g' ∧
      (edgesOf g2 (mkOp g parent "exclusion").2).map key <+: (edgesOf g' (mkOp g parent "exclusion").2).map key := by
  simp only [parseRewrite] at h
  split at h
  · cases h
  · rename_i g2 hb
    exact ⟨g2, hb, h, (parseRewrite_step m td rel s _ _ _ _ h).ext.keys _⟩

/-! ### non-vacuity: a concrete model with a duplicated, mixed conditioned restriction, a TTU and an exclusion -/

def demo : Model := {
  schema := "1.1",
  types := [
    { name := "user", relations := [], md := none },
    { name := "doc",
      relations := [("parent", .this), ("viewer", .diff (.union [.this, .ttu "parent" "viewer"]) (.computed "blocked")),
                    ("blocked", .this)],
      md := some { relations := [
        ("blocked", { restr := [⟨"user", "", false, ""⟩] }),
        ("parent", { restr := [⟨"doc", "", false, ""⟩] }),
        ("viewer", { restr := [⟨"user", "", false, ""⟩, ⟨"user", "", false, "c1"⟩, ⟨"user", "", true, ""⟩, ⟨"user", "", false, ""⟩] })] } }],
  conds := [] }

example : (match build demo with | .ok g => g.nodes.length | .error _ => 0) = 8 := by decide
example : (match build demo with
    | .ok g => (edgesOf g "union:1").map (fun e => (e.dst, e.conditions))
    | .error _ => []) = [("user", ["none", "c1"]), ("user:*", ["none"]), ("doc#viewer", ["none"])] := by decide

end FgaVerif.Props.C10
