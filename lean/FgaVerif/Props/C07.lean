import FgaVerif.Proofs.Merge
import FgaVerif.Proofs.MergeValues
import FgaVerif.Proofs.MergeAttr
import FgaVerif.Proofs.MergeConds
import FgaVerif.Proofs.MergeRelAttr
import FgaVerif.Proofs.MergeErrFile
import FgaVerif.Model.Utils
/-! # C07 — module merge succeeds iff conflict-free (and C12: independently of the order of the files)

    Theorems about `Model/Merge.lean`, the port of `TransformModuleFilesToModel` (in its repaired form,
    see DESIGN.md §7), for **every** list of module files.  A file enters the merger as its name, its
    text and the outcome of `TransformModularDSLToProto` on it (C03/C09 are about that outcome).  The
    port is tied to the code by the correspondence check on generated module sets.

    `FilesWF` states what the listener guarantees about every parsed file and the merger relies on
    (every relation of a type definition has relation metadata, relation names inside one definition
    are distinct); the driver evaluates it on every
    file it is given, so an input outside it would be reported, not silently covered.

    Proved:
    * `merge_ok_iff_conflict_free` — the merge succeeds **iff** every file is a module that parsed, no
      type is defined twice, no condition is defined twice, every `extend type` targets a type defined
      in some file, and no relation name is contributed twice to one type (by its definition and its
      extensions, in whatever files they stand).
    * `merge_never_partial` — otherwise the result is an error list, never a model (and never a panic,
      `merge_no_panic`).
    * `merge_schema` — the requested schema version is the result's.
    * `merge_conserves_names` — on success the result has exactly the declared type names (in file
      order), exactly the declared condition names, and each type exactly the relation names its
      definition and extensions declare: none lost, none invented.
    * `merge_verdict_order_independent` (C12) — permuting the list of files never changes whether the
      merge succeeds.
    * `conflict_free_order_independent` — because the predicate is symmetric.

    * `merge_conserves_rewrites` — and **rewrites are unchanged**: relation `k` of type `n` is bound to
      `v` in the result iff some definition or extension of `n` in the files declares `k` with exactly `v`.

    * `merge_attributes_types` — and every type carries the module of its definition and the name of
      the file that defined it, whatever extensions were applied.

    * `merge_conserves_conditions` — and every condition of the result is exactly the declared one
      (name, expression, parameters, module) with the declaring file's name recorded; a name nobody
      declares is absent.

    * `merge_attributes_relations`, `merge_module_for_relation` — and every **relation** of every type
      of the result carries the relation metadata of its declaration: of the base definition exactly as
      declared, or of the `extend type` block that added it exactly as declared there (the extending
      module, its type restrictions) with that file's name recorded; `GetModuleForObjectTypeRelation`
      (ported in `Model/Utils.lean`) therefore answers the declaring module, falling back to the type's.

    Not proved here: that a permutation changes nothing but the order of type definitions on success
    (C12 proves it for names, rewrites and conditions); determinism of the error list is by
    construction in the port (no map order exists in it) and evaluated on the real code by the oracles
    of C07 and C12. -/
namespace FgaVerif.Props.C07
open FgaVerif.Model FgaVerif.Model.Listener FgaVerif.Model.Merge

/-- what the listener guarantees about parsed files (checked by the driver on every input) -/
structure FilesWF (fs : List FileIn) : Prop where
  relMeta : ∀ f ∈ fs, ∀ m e, f.outcome = .ok m e → ∀ td ∈ m.types, ExtWF td
  relKeys : ∀ f ∈ fs, ∀ m e, f.outcome = .ok m e → ∀ td ∈ m.types, (AList.keys td.relations).Nodup

/-- the executable form of the hypothesis, which the driver evaluates on every input (`merge-wf`) -/
theorem filesWFb_sound (fs : List FileIn) (h : filesWFb fs = true) : FilesWF fs := by
  have key : ∀ f ∈ fs, ∀ m e, f.outcome = .ok m e → ∀ td ∈ m.types, typeDefWF td = true := by
    intro f hf m e hout td htd
    have := List.all_eq_true.1 h f hf
    simp only [hout] at this
    exact List.all_eq_true.1 this td htd
  refine ⟨?_, ?_⟩
  · intro f hf m e hout td htd kv hkv
    have := key f hf m e hout td htd
    simp only [typeDefWF, Bool.and_eq_true] at this
    exact List.all_eq_true.1 this.1 kv hkv
  · intro f hf m e hout td htd
    have := key f hf m e hout td htd
    simp only [typeDefWF, Bool.and_eq_true, decide_eq_true_eq] at this
    exact this.2

/-- the files are conflict-free -/
structure ConflictFree (fs : List FileIn) : Prop where
  /-- every file parsed and is a module (its types carry a module name, its conditions module metadata) -/
  modules : ∀ f ∈ fs, fileIsModule f
  /-- no type is defined twice -/
  types : (fs.flatMap fileBaseNames).Nodup
  /-- no condition is defined twice -/
  conds : (fs.flatMap fileCondNames).Nodup
  /-- every `extend type` targets a type defined in some file -/
  targets : ∀ e ∈ fs.flatMap fileExtDefs, e.name ∈ fs.flatMap fileBaseNames
  /-- no relation name is contributed twice to one type -/
  relations : ∀ n, (contrib n (fs.flatMap fileBaseDefs ++ fs.flatMap fileExtDefs)).Nodup

theorem setTypeFile_name (td : TypeDef) (f : String) : (setTypeFile td f).name = td.name := by
  unfold setTypeFile; split <;> rfl
theorem setTypeFile_relations (td : TypeDef) (f : String) : (setTypeFile td f).relations = td.relations := by
  unfold setTypeFile; split <;> rfl
theorem setTypeFile_md (td : TypeDef) (f : String) (h : td.md.isSome = true) : (setTypeFile td f).md.isSome = true := by
  unfold setTypeFile; split <;> simp_all

/-- a definition that carries a module name carries metadata -/
theorem md_of_modName (td : TypeDef) (h : modName td ≠ "") : td.md.isSome = true := by
  unfold modName at h
  cases hmd : td.md with
  | none => simp [hmd] at h
  | some _ => rfl

theorem contrib_map_setTypeFile (n f : String) (ds : List TypeDef) :
    contrib n (ds.map (fun td => setTypeFile td f)) = contrib n ds := by
  induction ds with
  | nil => rfl
  | cons d rest ih => simp only [List.map_cons, contrib_cons, setTypeFile_name, setTypeFile_relations, ih]

theorem contrib_raw (n : String) (fs : List FileIn) :
    contrib n (fs.flatMap fileRaw) = contrib n (fs.flatMap fileBaseDefs) := by
  induction fs with
  | nil => rfl
  | cons f rest ih =>
    simp only [List.flatMap_cons, contrib_append, ih, fileRaw, contrib_map_setTypeFile]

theorem names_raw (fs : List FileIn) : (fs.flatMap fileRaw).map (·.name) = fs.flatMap fileBaseNames := by
  induction fs with
  | nil => rfl
  | cons f rest ih =>
    simp only [List.flatMap_cons, List.map_append, ih, fileRaw, fileBaseNames_eq, List.map_map]
    congr 1
    apply List.map_congr_left
    intro td _
    exact setTypeFile_name td f.name

/-- with distinct names, what the base definitions contribute to one type has no repetition -/
theorem contrib_nodup (n : String) (ds : List TypeDef) (h : (ds.map (·.name)).Nodup)
    (hk : ∀ d ∈ ds, (AList.keys d.relations).Nodup) : (contrib n ds).Nodup := by
  rw [← curKeys_eq_contrib ds n h]
  unfold curKeys
  split
  · rename_i t ht; exact hk t (List.mem_of_find?_eq_some ht)
  · simp

theorem fileDefs_wf {fs : List FileIn} (wf : FilesWF fs) :
    (∀ d ∈ fs.flatMap fileBaseDefs, (AList.keys d.relations).Nodup) ∧
    (∀ d ∈ fs.flatMap fileExtDefs, (AList.keys d.relations).Nodup ∧ ExtWF d) := by
  constructor
  · intro d hd
    obtain ⟨f, hf, hdf⟩ := List.mem_flatMap.1 hd
    unfold fileBaseDefs at hdf
    split at hdf
    · rename_i m e hout
      have := baseDefs_mem e m.types 0 d hdf
      exact wf.relKeys f hf m e hout d this
    · simp at hdf
  · intro d hd
    obtain ⟨f, hf, hdf⟩ := List.mem_flatMap.1 hd
    unfold fileExtDefs at hdf
    split at hdf
    · rename_i m e hout
      have := extDefs_mem e m.types 0 d hdf
      exact ⟨wf.relKeys f hf m e hout d this, wf.relMeta f hf m e hout d this⟩
    · simp at hdf

/-- the second loop on the state the first loop leaves, when the first loop raised no error -/
theorem phase2 (fs : List FileIn) (wf : FilesWF fs) (st : MState) (hcol : collect fs {} = .ok st)
    (hclean : filesClean fs [] [] = true) :
    ∃ st2 E2, applyAll st.extended st = .ok st2 ∧ st2.errors = st.errors ++ E2 ∧
      (E2 = [] ↔ (∀ e ∈ fs.flatMap fileExtDefs, e.name ∈ fs.flatMap fileBaseNames) ∧
                 ∀ n, (contrib n (fs.flatMap fileBaseDefs ++ fs.flatMap fileExtDefs)).Nodup) ∧
      st2.rawTypeDefs.map (·.name) = fs.flatMap fileBaseNames ∧
      (∀ x, x ∈ AList.keys st2.conditions ↔ x ∈ fs.flatMap fileCondNames) ∧
      (E2 = [] → ∀ n k, k ∈ curKeys st2.rawTypeDefs n ↔
        k ∈ contrib n (fs.flatMap fileBaseDefs ++ fs.flatMap fileExtDefs)) := by
  have hrc := collect_raw fs {} st [] (fun x => by simp [AList.contains, AList.find?]) hcol hclean
  have hraw : st.rawTypeDefs = fs.flatMap fileRaw := by simpa using hrc.1
  have hconds : ∀ x, x ∈ AList.keys st.conditions ↔ x ∈ fs.flatMap fileCondNames := by
    intro x
    rw [AList.mem_keys_iff_contains, hrc.2 x]; simp
  obtain ⟨hsorted, hperm, _⟩ := collect_state fs {} st hcol (by simp [AList.SortedKeys])
  simp only [List.flatMap_nil, List.nil_append] at hperm
  obtain ⟨hbwf, hewf⟩ := fileDefs_wf wf
  have hnames : st.rawTypeDefs.map (·.name) = fs.flatMap fileBaseNames := by rw [hraw]; exact names_raw fs
  have hnd : (fs.flatMap fileBaseNames).Nodup := ((filesClean_iff fs [] []).1 hclean).2.2.1
  have hR : ∀ t ∈ st.rawTypeDefs, t.md.isSome = true := by
    intro t ht
    rw [hraw] at ht
    obtain ⟨f, hf, htf⟩ := List.mem_flatMap.1 ht
    obtain ⟨td, htd, rfl⟩ := List.mem_map.1 htf
    have hmod := ((filesClean_iff fs [] []).1 hclean).1 f hf
    unfold fileIsModule at hmod
    unfold fileBaseDefs at htd
    split at hmod
    · simp_all
    · simp_all
    · rename_i m' e' hout
      simp only [hout] at htd
      exact setTypeFile_md td f.name (md_of_modName td (hmod.1 td htd))
  have hE : ∀ x ∈ st.extended, ∀ e ∈ x.2, ExtWF e := by
    intro x hx e he
    have : e ∈ st.extended.flatMap (·.2) := List.mem_flatMap.2 ⟨x, hx, he⟩
    exact (hewf e (hperm.mem_iff.1 this)).2
  obtain ⟨st2, E2, g1, g2, g3, g4, g5, g6⟩ := applyAll_spec st.extended st (fun n k => k ∈ curKeys st.rawTypeDefs n) hR hE
    (fun _ _ => Iff.rfl)
  have hcur : ∀ n, curKeys st.rawTypeDefs n = contrib n (fs.flatMap fileBaseDefs) := by
    intro n
    rw [curKeys_eq_contrib _ n (by rw [hnames]; exact hnd), hraw, contrib_raw]
  refine ⟨st2, E2, g1, g2, ?_, g4.trans hnames, fun x => by rw [g3]; exact hconds x, ?_⟩
  rotate_left
  · intro hE2 n k
    rw [g6 hE2 n k, contrib_append]
    simp only [keysAfter, List.mem_append, hcur n]
    have hp := contrib_perm n hperm
    constructor
    · rintro (h | ⟨e, he, rfl, hk⟩)
      · exact Or.inl h
      · refine Or.inr (hp.mem_iff.1 ?_)
        unfold contrib
        exact List.mem_flatMap.2 ⟨e, List.mem_filter.2 ⟨he, by simp⟩, hk⟩
    · rintro (h | h)
      · exact Or.inl h
      · have := hp.mem_iff.2 h
        unfold contrib at this
        obtain ⟨e, he, hk⟩ := List.mem_flatMap.1 this
        obtain ⟨he1, he2⟩ := List.mem_filter.1 he
        exact Or.inr ⟨e, he1, (by simpa using he2 : e.name = n).symm, hk⟩
  rw [g5, extsClean_iff _ _ _ (fun e he => (hewf e (hperm.mem_iff.1 he)).1), hnames]
  have hbnd : ∀ n, (contrib n (fs.flatMap fileBaseDefs)).Nodup := by
    intro n
    refine contrib_nodup n _ ?_ (fun d hd => hbwf d hd)
    have : (fs.flatMap fileBaseDefs).map (·.name) = fs.flatMap fileBaseNames := by
      rw [List.map_flatMap]; congr 1; funext f; exact (fileBaseNames_eq f).symm
    rw [this]; exact hnd
  constructor
  · rintro ⟨h1, h2⟩
    refine ⟨fun e he => h1 e (hperm.mem_iff.2 he), ?_⟩
    intro n
    rw [contrib_append]
    have hp := contrib_perm n hperm
    refine List.nodup_append.2 ⟨hbnd n, (hp.nodup_iff).1 (h2 n).2, ?_⟩
    intro a ha b hb hab; subst hab
    exact (h2 n).1 a (hp.mem_iff.2 hb) (by rw [hcur n]; exact ha)
  · rintro ⟨h1, h2⟩
    refine ⟨fun e he => h1 e (hperm.mem_iff.1 he), ?_⟩
    intro n
    have hn := h2 n
    rw [contrib_append] at hn
    obtain ⟨_, hn2, hn3⟩ := List.nodup_append.1 hn
    have hp := contrib_perm n hperm
    refine ⟨?_, (hp.nodup_iff).2 hn2⟩
    intro k hk hc
    rw [hcur n] at hc
    exact hn3 k hc k (hp.mem_iff.1 hk) rfl

theorem merge_ok_iff_conflict_free (fs : List FileIn) (v : String) (wf : FilesWF fs) :
    (∃ m, merge fs v = .ok m) ↔ ConflictFree fs := by
  constructor
  · rintro ⟨m, hm⟩
    unfold merge at hm
    split at hm
    · cases hm
    · rename_i st hcol
      obtain ⟨E, hE, hcl⟩ := collect_spec fs {} st [] (fun x => by simp [AList.contains, AList.find?]) hcol
      split at hm
      · cases hm
      · rename_i st2 happ
        split at hm
        · rename_i hemp
          have hst2 : st2.errors = [] := by simpa using hemp
          -- the first loop raised no error, for otherwise the second loop could only append
          by_cases hclean : filesClean fs [] [] = true
          · obtain ⟨st2', E2, g1, g2, g3, _⟩ := phase2 fs wf st hcol hclean
            rw [happ] at g1
            simp only [Except.ok.injEq] at g1; subst g1
            have hE2 : E2 = [] := by
              rw [g2] at hst2; exact (List.append_eq_nil_iff.1 hst2).2
            obtain ⟨t1, t2⟩ := g3.1 hE2
            obtain ⟨c1, _, c3, _, c5⟩ := (filesClean_iff fs [] []).1 hclean
            exact ⟨c1, c3, c5, t1, t2⟩
          · -- errors of the first loop survive the second
            exfalso
            have hne : st.errors ≠ [] := by
              intro h0
              have : E = [] := by simpa [h0] using hE.symm
              exact hclean (hcl.1 this)
            obtain ⟨_, _, hmem⟩ := collect_state fs {} st hcol (by simp [AList.SortedKeys])
            obtain ⟨_, hperm, _⟩ := collect_state fs {} st hcol (by simp [AList.SortedKeys])
            simp only [List.flatMap_nil, List.nil_append] at hperm
            obtain ⟨hbwf, hewf⟩ := fileDefs_wf wf
            have hR : ∀ t ∈ st.rawTypeDefs, t.md.isSome = true := by
              intro t ht
              rcases hmem t ht with h | ⟨f, hf, m', e', hout, td, htd, hmn, rfl⟩
              · simp at h
              · exact setTypeFile_md td f.name (md_of_modName td hmn)
            have hEw : ∀ x ∈ st.extended, ∀ e ∈ x.2, ExtWF e := by
              intro x hx e he
              have : e ∈ st.extended.flatMap (·.2) := List.mem_flatMap.2 ⟨x, hx, he⟩
              exact (hewf e (hperm.mem_iff.1 this)).2
            obtain ⟨st2', E2, g1, g2, _⟩ := applyAll_spec st.extended st (fun n k => k ∈ curKeys st.rawTypeDefs n) hR hEw
              (fun _ _ => Iff.rfl)
            rw [happ] at g1
            simp only [Except.ok.injEq] at g1; subst g1
            rw [g2] at hst2
            exact hne (List.append_eq_nil_iff.1 hst2).1
        · cases hm
  · intro cf
    have hnp : ∀ f ∈ fs, ∀ p, f.outcome ≠ .panic p := by
      intro f hf p hp
      have := cf.modules f hf
      simp [fileIsModule, hp] at this
    obtain ⟨st, hcol⟩ := collect_ok fs {} hnp
    obtain ⟨E, hE, hcl⟩ := collect_spec fs {} st [] (fun x => by simp [AList.contains, AList.find?]) hcol
    have hclean : filesClean fs [] [] = true :=
      (filesClean_iff fs [] []).2 ⟨cf.modules, by simp, cf.types, by simp, cf.conds⟩
    have hst : st.errors = [] := by rw [hE, hcl.2 hclean]; rfl
    obtain ⟨st2, E2, g1, g2, g3, _⟩ := phase2 fs wf st hcol hclean
    have hE2 : E2 = [] := g3.2 ⟨cf.targets, cf.relations⟩
    refine ⟨{ schema := v, types := st2.rawTypeDefs, conds := st2.conditions }, ?_⟩
    unfold merge
    simp only [hcol, g1]
    have : st2.errors.isEmpty = true := by rw [g2, hst, hE2]; rfl
    simp [this]

/-- no panic on well-formed parsed files, unless a parse itself panicked -/
theorem merge_no_panic (fs : List FileIn) (v : String) (wf : FilesWF fs)
    (hnp : ∀ f ∈ fs, ∀ p, f.outcome ≠ .panic p) : ∀ p, merge fs v ≠ .panic p := by
  intro p hm
  obtain ⟨st, hcol⟩ := collect_ok fs {} hnp
  unfold merge at hm
  simp only [hcol] at hm
  obtain ⟨_, hperm, hmem⟩ := collect_state fs {} st hcol (by simp [AList.SortedKeys])
  simp only [List.flatMap_nil, List.nil_append] at hperm
  obtain ⟨hbwf, hewf⟩ := fileDefs_wf wf
  have hR : ∀ t ∈ st.rawTypeDefs, t.md.isSome = true := by
    intro t ht
    rcases hmem t ht with h | ⟨f, hf, m', e', hout, td, htd, hmn, rfl⟩
    · simp at h
    · exact setTypeFile_md td f.name (md_of_modName td hmn)
  have hEw : ∀ x ∈ st.extended, ∀ e ∈ x.2, ExtWF e := by
    intro x hx e he
    have : e ∈ st.extended.flatMap (·.2) := List.mem_flatMap.2 ⟨x, hx, he⟩
    exact (hewf e (hperm.mem_iff.1 this)).2
  obtain ⟨st2, E2, g1, _⟩ := applyAll_spec st.extended st (fun n k => k ∈ curKeys st.rawTypeDefs n) hR hEw
    (fun _ _ => Iff.rfl)
  simp only [g1] at hm
  split at hm <;> cases hm

/-- all or nothing: a merge that does not succeed returns a non-empty error list (or passes on the
    panic of a parse), never a model -/
theorem merge_never_partial (fs : List FileIn) (v : String) :
    (∃ m, merge fs v = .ok m) ∨ (∃ es, merge fs v = .errors es ∧ es ≠ []) ∨ (∃ p, merge fs v = .panic p) := by
  unfold merge
  split
  · exact Or.inr (Or.inr ⟨_, rfl⟩)
  · split
    · exact Or.inr (Or.inr ⟨_, rfl⟩)
    · split
      · exact Or.inl ⟨_, rfl⟩
      · rename_i h
        exact Or.inr (Or.inl ⟨_, rfl, by intro h0; simp [h0] at h⟩)

theorem merge_schema (fs : List FileIn) (v : String) (m : Model) (h : merge fs v = .ok m) : m.schema = v := by
  unfold merge at h
  split at h
  · cases h
  · split at h
    · cases h
    · split at h
      · simp only [MergeOutcome.ok.injEq] at h; subst h; rfl
      · cases h

/-- conservation of names: on success the model has exactly the declared types (in the order of the
    files), exactly the declared conditions, and every type has exactly the relation names that its
    definition and its extensions declare — none lost, none invented -/
theorem merge_conserves_names (fs : List FileIn) (v : String) (wf : FilesWF fs) (m : Model)
    (h : merge fs v = .ok m) :
    m.types.map (·.name) = fs.flatMap fileBaseNames ∧
    (∀ x, x ∈ AList.keys m.conds ↔ x ∈ fs.flatMap fileCondNames) ∧
    (∀ n k, k ∈ curKeys m.types n ↔ k ∈ contrib n (fs.flatMap fileBaseDefs ++ fs.flatMap fileExtDefs)) := by
  have hcf := (merge_ok_iff_conflict_free fs v wf).1 ⟨m, h⟩
  have hclean : filesClean fs [] [] = true :=
    (filesClean_iff fs [] []).2 ⟨hcf.modules, by simp, hcf.types, by simp, hcf.conds⟩
  unfold merge at h
  split at h
  · cases h
  · rename_i st hcol
    obtain ⟨st2, E2, g1, g2, g3, g4, g5, g6⟩ := phase2 fs wf st hcol hclean
    rw [g1] at h
    simp only at h
    split at h
    · simp only [MergeOutcome.ok.injEq] at h
      subst h
      exact ⟨g4, g5, g6 (g3.2 ⟨hcf.targets, hcf.relations⟩)⟩
    · cases h

/-- the rewrite bound to relation `k` of the base definition named `n`, with distinct type names -/
theorem valNow_raw (fs : List FileIn) (hnd : (fs.flatMap fileBaseNames).Nodup) (n k : String) (v : Userset) :
    valNow (fs.flatMap fileRaw) n k = some v ↔
      ∃ d ∈ fs.flatMap fileBaseDefs, d.name = n ∧ AList.find? k d.relations = some v := by
  have hnames : (fs.flatMap fileRaw).map (·.name) = fs.flatMap fileBaseNames := names_raw fs
  unfold valNow
  constructor
  · intro h
    cases hf : (fs.flatMap fileRaw).find? (fun t => t.name == n) with
    | none => simp [hf] at h
    | some t =>
      simp only [hf] at h
      have htm := List.mem_of_find?_eq_some hf
      have htn : t.name = n := by simpa using List.find?_some hf
      obtain ⟨f, hf', htf⟩ := List.mem_flatMap.1 htm
      obtain ⟨d, hd, rfl⟩ := List.mem_map.1 htf
      exact ⟨d, List.mem_flatMap.2 ⟨f, hf', hd⟩, by rw [← setTypeFile_name d f.name]; exact htn,
        by rw [← setTypeFile_relations d f.name]; exact h⟩
  · rintro ⟨d, hd, hdn, hv⟩
    obtain ⟨f, hf', hdf⟩ := List.mem_flatMap.1 hd
    have hmem : setTypeFile d f.name ∈ fs.flatMap fileRaw :=
      List.mem_flatMap.2 ⟨f, hf', List.mem_map.2 ⟨d, hdf, rfl⟩⟩
    -- the first definition named n is this one, because names are distinct
    have huniq : ∀ (l : List TypeDef), (l.map (·.name)).Nodup → ∀ t ∈ l, t.name = n →
        l.find? (fun t => t.name == n) = some t := by
      intro l
      induction l with
      | nil => intro _ t ht; simp at ht
      | cons a rest ih =>
        intro hnd t ht htn
        simp only [List.map_cons, List.nodup_cons] at hnd
        rcases List.mem_cons.1 ht with rfl | ht
        · simp [List.find?_cons, htn]
        · have hne : a.name ≠ n := fun e => hnd.1 (e ▸ htn ▸ List.mem_map.2 ⟨t, ht, rfl⟩)
          have : (a.name == n) = false := by simpa using hne
          simp only [List.find?_cons, this]
          exact ih hnd.2 t ht htn
    rw [huniq _ (by rw [hnames]; exact hnd) _ hmem (by rw [setTypeFile_name]; exact hdn)]
    simp only [setTypeFile_relations]
    exact hv

/-- **rewrites are conserved**: on success, relation `k` of type `n` is bound to the rewrite `v` in the
    result iff some definition or extension of `n` in the files declares `k` with exactly `v` -/
theorem merge_conserves_rewrites (fs : List FileIn) (ver : String) (wf : FilesWF fs) (m : Model)
    (h : merge fs ver = .ok m) (n k : String) (v : Userset) :
    valNow m.types n k = some v ↔
      ∃ d ∈ fs.flatMap fileBaseDefs ++ fs.flatMap fileExtDefs, d.name = n ∧ AList.find? k d.relations = some v := by
  have hcf := (merge_ok_iff_conflict_free fs ver wf).1 ⟨m, h⟩
  have hclean : filesClean fs [] [] = true :=
    (filesClean_iff fs [] []).2 ⟨hcf.modules, by simp, hcf.types, by simp, hcf.conds⟩
  unfold merge at h
  split at h
  · cases h
  · rename_i st hcol
    have hrc := collect_raw fs {} st [] (fun x => by simp [AList.contains, AList.find?]) hcol hclean
    have hraw : st.rawTypeDefs = fs.flatMap fileRaw := by simpa using hrc.1
    obtain ⟨_, hperm, _⟩ := collect_state fs {} st hcol (by simp [AList.SortedKeys])
    simp only [List.flatMap_nil, List.nil_append] at hperm
    obtain ⟨hbwf, hewf⟩ := fileDefs_wf wf
    have hnames : st.rawTypeDefs.map (·.name) = fs.flatMap fileBaseNames := by rw [hraw]; exact names_raw fs
    have hR : ∀ t ∈ st.rawTypeDefs, t.md.isSome = true := by
      intro t ht
      rw [hraw] at ht
      obtain ⟨f, hf, htf⟩ := List.mem_flatMap.1 ht
      obtain ⟨td, htd, rfl⟩ := List.mem_map.1 htf
      have hmod := hcf.modules f hf
      unfold fileIsModule at hmod
      unfold fileBaseDefs at htd
      split at hmod
      · simp_all
      · simp_all
      · rename_i m' e' hout
        simp only [hout] at htd
        exact setTypeFile_md td f.name (md_of_modName td (hmod.1 td htd))
    have hE : ∀ x ∈ st.extended, ∀ e ∈ x.2, ExtWF e ∧ (AList.keys e.relations).Nodup := by
      intro x hx e he
      have : e ∈ st.extended.flatMap (·.2) := List.mem_flatMap.2 ⟨x, hx, he⟩
      have := hewf e (hperm.mem_iff.1 this)
      exact ⟨this.2, this.1⟩
    -- the second loop raised no error, so the extensions are clean
    obtain ⟨st2, E2, g1, g2, _, _, g5, _⟩ := applyAll_spec st.extended st (fun n k => k ∈ curKeys st.rawTypeDefs n) hR
      (fun x hx e he => (hE x hx e he).1) (fun _ _ => Iff.rfl)
    rw [g1] at h
    simp only at h
    split at h
    · rename_i hemp
      simp only [MergeOutcome.ok.injEq] at h
      subst h
      have hst2 : st2.errors = [] := by simpa using hemp
      have hE2 : E2 = [] := by rw [g2] at hst2; exact (List.append_eq_nil_iff.1 hst2).2
      have hcl := g5.1 hE2
      obtain ⟨st2', f1, f2⟩ := applyAll_values st.extended st (fun n k => k ∈ curKeys st.rawTypeDefs n) hR hE
        (fun _ _ => Iff.rfl) hcl
      have : st2' = st2 := by rw [g1] at f1; simp only [Except.ok.injEq] at f1; exact f1.symm
      subst this
      show valNow st2'.rawTypeDefs n k = some v ↔ _
      rw [f2 n k]
      have hKV : ∀ n k, k ∈ curKeys st.rawTypeDefs n ↔ (valNow st.rawTypeDefs n k).isSome = true := by
        intro n k
        unfold curKeys valNow
        cases st.rawTypeDefs.find? (fun t => t.name == n) with
        | none => simp
        | some t => exact (find?_isSome_iff_mem_keys k _).symm
      rw [valsAfter_some_iff _ _ _ _ hKV hcl n k v, hraw, valNow_raw fs hcf.types n k v]
      simp only [List.mem_append]
      constructor
      · rintro (⟨d, hd, r⟩ | ⟨e, he, r⟩)
        · exact ⟨d, Or.inl hd, r⟩
        · exact ⟨e, Or.inr (hperm.mem_iff.1 he), r⟩
      · rintro ⟨d, hd | hd, r⟩
        · exact Or.inl ⟨d, hd, r⟩
        · exact Or.inr ⟨d, hperm.mem_iff.2 hd, r⟩
    · cases h

theorem relMetaOf_setTypeFile (td : TypeDef) (f : String) : relMetaOf (setTypeFile td f) = relMetaOf td := by
  unfold setTypeFile relMetaOf
  cases hmd : td.md with
  | none => simp [hmd]
  | some m => simp

theorem baseDefs_extwf {fs : List FileIn} (wf : FilesWF fs) : ∀ d ∈ fs.flatMap fileBaseDefs, ExtWF d := by
  intro d hd
  obtain ⟨f, hf, hdf⟩ := List.mem_flatMap.1 hd
  unfold fileBaseDefs at hdf
  split at hdf
  · rename_i m e hout
    exact wf.relMeta f hf m e hout d (baseDefs_mem e m.types 0 d hdf)
  · simp at hdf

/-- **relations are attributed to their declaration**: on success every relation `k` of every type `n`
    of the result carries relation metadata, and it is the metadata of a declaration of `k` for `n` in
    the files — of the base definition of `n` exactly as declared (module, restrictions, no file), or of
    an `extend type n` block in file `f` exactly as declared there (the extending module, its
    restrictions) with `f`'s name recorded as the source file -/
theorem merge_attributes_relations (fs : List FileIn) (ver : String) (wf : FilesWF fs) (m : Model)
    (h : merge fs ver = .ok m) (n k : String) (hv : (valNow m.types n k).isSome = true) :
    ∃ rm', metaNow m.types n k = some rm' ∧
      ((∃ d ∈ fs.flatMap fileBaseDefs, d.name = n ∧ AList.find? k (relMetaOf d) = some rm') ∨
       (∃ f ∈ fs, ∃ e ∈ fileExtDefs f, e.name = n ∧ k ∈ AList.keys e.relations ∧
          ∃ rm, AList.find? k (relMetaOf e) = some rm ∧ rm' = withFile f.name rm)) := by
  have hcf := (merge_ok_iff_conflict_free fs ver wf).1 ⟨m, h⟩
  have hclean : filesClean fs [] [] = true :=
    (filesClean_iff fs [] []).2 ⟨hcf.modules, by simp, hcf.types, by simp, hcf.conds⟩
  unfold merge at h
  split at h
  · cases h
  · rename_i st hcol
    have hrc := collect_raw fs {} st [] (fun x => by simp [AList.contains, AList.find?]) hcol hclean
    have hraw : st.rawTypeDefs = fs.flatMap fileRaw := by simpa using hrc.1
    obtain ⟨_, hperm, _⟩ := collect_state fs {} st hcol (by simp [AList.SortedKeys])
    simp only [List.flatMap_nil, List.nil_append] at hperm
    obtain ⟨_, hewf⟩ := fileDefs_wf wf
    have hR : ∀ t ∈ st.rawTypeDefs, t.md.isSome = true := by
      intro t ht
      rw [hraw] at ht
      obtain ⟨f, hf, htf⟩ := List.mem_flatMap.1 ht
      obtain ⟨td, htd, rfl⟩ := List.mem_map.1 htf
      have hmod := hcf.modules f hf
      unfold fileIsModule at hmod
      unfold fileBaseDefs at htd
      split at hmod
      · simp_all
      · simp_all
      · rename_i m' e' hout
        simp only [hout] at htd
        exact setTypeFile_md td f.name (md_of_modName td (hmod.1 td htd))
    have hE : ∀ x ∈ st.extended, ∀ e ∈ x.2, ExtWF e ∧ (AList.keys e.relations).Nodup := by
      intro x hx e he
      have : e ∈ st.extended.flatMap (·.2) := List.mem_flatMap.2 ⟨x, hx, he⟩
      have := hewf e (hperm.mem_iff.1 this)
      exact ⟨this.2, this.1⟩
    obtain ⟨st2, E2, g1, g2, _, _, g5, _⟩ := applyAll_spec st.extended st (fun n k => k ∈ curKeys st.rawTypeDefs n) hR
      (fun x hx e he => (hE x hx e he).1) (fun _ _ => Iff.rfl)
    rw [g1] at h
    simp only at h
    split at h
    · rename_i hemp
      simp only [MergeOutcome.ok.injEq] at h
      subst h
      have hst2 : st2.errors = [] := by simpa using hemp
      have hE2 : E2 = [] := by rw [g2] at hst2; exact (List.append_eq_nil_iff.1 hst2).2
      have hcl := g5.1 hE2
      -- the invariant holds after the first loop: base definitions keep their declared metadata
      have hbase : AttrInv (fs.flatMap fileBaseDefs) [] st.rawTypeDefs := by
        intro n k hsome
        rw [hraw] at hsome ⊢
        unfold valNow at hsome
        unfold metaNow
        cases hf : (fs.flatMap fileRaw).find? (fun t => t.name == n) with
        | none => simp [hf] at hsome
        | some t =>
          simp only [hf] at hsome ⊢
          have htm := List.mem_of_find?_eq_some hf
          have htn : t.name = n := by simpa using List.find?_some hf
          obtain ⟨f, hf', htf⟩ := List.mem_flatMap.1 htm
          obtain ⟨d, hd, rfl⟩ := List.mem_map.1 htf
          have hdm : d ∈ fs.flatMap fileBaseDefs := List.mem_flatMap.2 ⟨f, hf', hd⟩
          rw [setTypeFile_relations] at hsome
          rw [relMetaOf_setTypeFile]
          obtain ⟨v, hv⟩ := Option.isSome_iff_exists.1 hsome
          have hmem := find?_some_mem k v _ hv
          have hs := baseDefs_extwf wf d hdm (k, v) hmem
          obtain ⟨rm, hrm⟩ := Option.isSome_iff_exists.1 hs
          exact ⟨rm, hrm, Or.inl ⟨d, hdm, by rw [← setTypeFile_name d f.name]; exact htn, hrm⟩⟩
      obtain ⟨st2', f1, f2⟩ := applyAll_relattr (fs.flatMap fileBaseDefs) st.extended [] st
        (fun n k => k ∈ curKeys st.rawTypeDefs n) hR hE (fun _ _ => Iff.rfl) hcl hbase
      have : st2' = st2 := by rw [g1] at f1; simp only [Except.ok.injEq] at f1; exact f1.symm
      subst this
      obtain ⟨rm', hrm', hsrc⟩ := f2 n k hv
      refine ⟨rm', hrm', ?_⟩
      rcases hsrc with hb | ⟨p, hp, hpn, hpk, rm, hrm, heq⟩
      · exact Or.inl hb
      · right
        simp only [List.nil_append] at hp
        obtain ⟨x, hx, hpx⟩ := List.mem_flatMap.1 hp
        obtain ⟨e, he, rfl⟩ := List.mem_map.1 hpx
        rcases collect_extended_src fs {} st hcol x hx e he with ⟨x0, hx0, _⟩ | ⟨f, hf, hfn, hfe⟩
        · simp at hx0
        · exact ⟨f, hf, e, hfe, hpn, hpk, rm, hrm, by rw [hfn]; exact heq⟩
    · cases h

/-- … **also via `GetModuleForObjectTypeRelation`**: for a relation of a type of the result the utility
    answers the module of the relation's declaration (the extending module for a relation added by an
    extension), falling back to the type's module when the declaration carries none -/
theorem merge_module_for_relation (fs : List FileIn) (ver : String) (wf : FilesWF fs) (m : Model)
    (h : merge fs ver = .ok m) (n k : String) (t : TypeDef)
    (ht : m.types.find? (fun t => t.name == n) = some t) (hk : AList.contains k t.relations = true) :
    ∃ declared : String,
      moduleForRelation t k = some (if declared == "" then (t.md.getD {}).module else declared) ∧
      ((∃ d ∈ fs.flatMap fileBaseDefs, d.name = n ∧ ∃ rm, AList.find? k (relMetaOf d) = some rm ∧ declared = rm.module) ∨
       (∃ f ∈ fs, ∃ e ∈ fileExtDefs f, e.name = n ∧ k ∈ AList.keys e.relations ∧
          ∃ rm, AList.find? k (relMetaOf e) = some rm ∧ declared = rm.module)) := by
  have hv : (valNow m.types n k).isSome = true := by unfold valNow; rw [ht]; exact hk
  obtain ⟨rm', hrm', hsrc⟩ := merge_attributes_relations fs ver wf m h n k hv
  have hfind : AList.find? k (t.md.getD {}).relations = some rm' := by
    simp only [metaNow, ht, relMetaOf] at hrm'
    cases hmd : t.md with
    | none => rw [hmd] at hrm'; simp [AList.find?] at hrm'
    | some tm => rw [hmd] at hrm'; simpa using hrm'

  refine ⟨rm'.module, ?_, ?_⟩
  · unfold moduleForRelation
    simp only [hk, Bool.not_true, Bool.false_eq_true, if_false, hfind]
  · rcases hsrc with ⟨d, hd, hdn, hdm⟩ | ⟨f, hf, e, he, hen, hek, rm, hrm, heq⟩
    · exact Or.inl ⟨d, hd, hdn, rm', hdm, rfl⟩
    · exact Or.inr ⟨f, hf, e, he, hen, hek, rm, hrm, by rw [heq]; rfl⟩

theorem tyAttr_setTypeFile (td : TypeDef) (f : String) :
    tyAttr (setTypeFile td f) = td.md.map (fun md => (md.module, f)) := by
  unfold setTypeFile tyAttr
  cases hmd : td.md with
  | none => simp [hmd]
  | some m => simp

/-- **types are attributed to the module and the file that defined them**: on success the result lists,
    in file order, every base definition with the module its definition carries and the name of the
    file it stands in — whatever extensions were applied to it -/
theorem merge_attributes_types (fs : List FileIn) (ver : String) (wf : FilesWF fs) (m : Model)
    (h : merge fs ver = .ok m) :
    m.types.map (fun t => (t.name, tyAttr t)) =
      fs.flatMap (fun f => (fileBaseDefs f).map (fun td => (td.name, td.md.map (fun md => (md.module, f.name))))) := by
  have hcf := (merge_ok_iff_conflict_free fs ver wf).1 ⟨m, h⟩
  have hclean : filesClean fs [] [] = true :=
    (filesClean_iff fs [] []).2 ⟨hcf.modules, by simp, hcf.types, by simp, hcf.conds⟩
  unfold merge at h
  split at h
  · cases h
  · rename_i st hcol
    have hrc := collect_raw fs {} st [] (fun x => by simp [AList.contains, AList.find?]) hcol hclean
    have hraw : st.rawTypeDefs = fs.flatMap fileRaw := by simpa using hrc.1
    have hR : ∀ t ∈ st.rawTypeDefs, t.md.isSome = true := by
      intro t ht
      rw [hraw] at ht
      obtain ⟨f, hf, htf⟩ := List.mem_flatMap.1 ht
      obtain ⟨td, htd, rfl⟩ := List.mem_map.1 htf
      have hmod := hcf.modules f hf
      unfold fileIsModule at hmod
      unfold fileBaseDefs at htd
      split at hmod
      · simp_all
      · simp_all
      · rename_i m' e' hout
        simp only [hout] at htd
        exact setTypeFile_md td f.name (md_of_modName td (hmod.1 td htd))
    split at h
    · cases h
    · rename_i st2 happ
      split at h
      · simp only [MergeOutcome.ok.injEq] at h
        subst h
        show st2.rawTypeDefs.map (fun t => (t.name, tyAttr t)) = _
        rw [applyAll_attr st.extended st st2 hR happ, hraw, List.map_flatMap]
        congr 1
        funext f
        simp only [fileRaw, List.map_map]
        apply List.map_congr_left
        intro td _
        simp [Function.comp, setTypeFile_name, tyAttr_setTypeFile]
      · cases h

/-- **conditions are conserved and attributed**: on success the condition named `k` of the result is
    exactly the declared one — name, expression, parameters, module — with the declaring file's name
    recorded in its metadata; a name nobody declares is absent -/
theorem merge_conserves_conditions (fs : List FileIn) (ver : String) (wf : FilesWF fs) (m : Model)
    (h : merge fs ver = .ok m) (k : String) :
    AList.find? k m.conds = declaredCond fs k := by
  have hcf := (merge_ok_iff_conflict_free fs ver wf).1 ⟨m, h⟩
  have hclean : filesClean fs [] [] = true :=
    (filesClean_iff fs [] []).2 ⟨hcf.modules, by simp, hcf.types, by simp, hcf.conds⟩
  unfold merge at h
  split at h
  · cases h
  · rename_i st hcol
    have hc := collect_conds fs {} st [] (fun x => by simp [AList.contains, AList.find?]) hcol hclean k
    obtain ⟨st2, E2, g1, _, _, _, _, _⟩ := phase2 fs wf st hcol hclean
    rw [g1] at h
    simp only at h
    split at h
    · simp only [MergeOutcome.ok.injEq] at h
      subst h
      -- the second loop does not touch the conditions
      have hcond : st2.conditions = st.conditions := by
        obtain ⟨hbwf, hewf⟩ := fileDefs_wf wf
        obtain ⟨_, hperm, _⟩ := collect_state fs {} st hcol (by simp [AList.SortedKeys])
        simp only [List.flatMap_nil, List.nil_append] at hperm
        have hrc := collect_raw fs {} st [] (fun x => by simp [AList.contains, AList.find?]) hcol hclean
        have hraw : st.rawTypeDefs = fs.flatMap fileRaw := by simpa using hrc.1
        have hR : ∀ t ∈ st.rawTypeDefs, t.md.isSome = true := by
          intro t ht
          rw [hraw] at ht
          obtain ⟨f, hf, htf⟩ := List.mem_flatMap.1 ht
          obtain ⟨td, htd, rfl⟩ := List.mem_map.1 htf
          have hmod := hcf.modules f hf
          unfold fileIsModule at hmod
          unfold fileBaseDefs at htd
          split at hmod
          · simp_all
          · simp_all
          · rename_i m' e' hout
            simp only [hout] at htd
            exact setTypeFile_md td f.name (md_of_modName td (hmod.1 td htd))
        obtain ⟨st2', _, f1, _, f3, _⟩ := applyAll_spec st.extended st (fun n k => k ∈ curKeys st.rawTypeDefs n) hR
          (fun x hx e he => (hewf e (hperm.mem_iff.1 (List.mem_flatMap.2 ⟨x, hx, he⟩))).2) (fun _ _ => Iff.rfl)
        have : st2' = st2 := by rw [g1] at f1; simp only [Except.ok.injEq] at f1; exact f1.symm
        subst this
        exact f3
      show AList.find? k st2.conditions = _
      rw [hcond, hc]
      cases declaredCond fs k <;> simp [AList.find?]
    · cases h

/-- the predicate does not depend on the order of the files -/
theorem conflict_free_order_independent {fs fs' : List FileIn} (hp : fs.Perm fs') (h : ConflictFree fs) :
    ConflictFree fs' := by
  refine ⟨fun f hf => h.modules f (hp.mem_iff.2 hf), ((hp.flatMap_right _).nodup_iff).1 h.types,
    ((hp.flatMap_right _).nodup_iff).1 h.conds, ?_, ?_⟩
  · intro e he
    exact ((hp.flatMap_right _).mem_iff).1 (h.targets e (((hp.flatMap_right _).mem_iff).2 he))
  · intro n
    exact ((contrib_perm n ((hp.flatMap_right _).append (hp.flatMap_right _))).nodup_iff).1 (h.relations n)

theorem filesWF_perm {fs fs' : List FileIn} (hp : fs.Perm fs') (h : FilesWF fs) : FilesWF fs' :=
  ⟨fun f hf => h.relMeta f (hp.mem_iff.2 hf), fun f hf => h.relKeys f (hp.mem_iff.2 hf)⟩

/-- C12: permuting the list of files never changes whether the merge succeeds -/
theorem merge_verdict_order_independent {fs fs' : List FileIn} (v : String) (hp : fs.Perm fs') (wf : FilesWF fs) :
    (∃ m, merge fs v = .ok m) ↔ (∃ m, merge fs' v = .ok m) := by
  rw [merge_ok_iff_conflict_free fs v wf, merge_ok_iff_conflict_free fs' v (filesWF_perm hp wf)]
  exact ⟨conflict_free_order_independent hp, conflict_free_order_independent hp.symm⟩


/-! ### non-vacuity: a conflict-free set merges, a clash is rejected, in either order of the files -/

def tdDoc : TypeDef := { name := "doc", relations := [("viewer", .this)], md := some { relations := [("viewer", { restr := [⟨"user", "", false, ""⟩], «module» := "core" })], «module» := "core" } }
def tdUser : TypeDef := { name := "user", relations := [], md := some { relations := [], «module» := "core" } }
def extDoc (rel : String) : TypeDef := { name := "doc", relations := [(rel, .this)], md := some { relations := [(rel, { restr := [⟨"user", "", false, ""⟩], «module» := "ext" })], «module» := "ext" } }

def core : FileIn := { name := "core.fga", contents := "module core\ntype user\ntype doc\n  relations\n    define viewer: [user]", outcome := .ok { schema := "", types := [tdUser, tdDoc], conds := [] } (some []) }
def extOk : FileIn := { name := "ext.fga", contents := "module ext\nextend type doc\n  relations\n    define editor: [user]", outcome := .ok { schema := "", types := [extDoc "editor"], conds := [] } (some [("doc", 0)]) }
def extClash : FileIn := { name := "ext.fga", contents := "module ext\nextend type doc\n  relations\n    define viewer: [user]", outcome := .ok { schema := "", types := [extDoc "viewer"], conds := [] } (some [("doc", 0)]) }

def isOk : MergeOutcome → Bool | .ok _ => true | _ => false

example : isOk (merge [core, extOk] "1.2") = true := by decide
example : isOk (merge [extOk, core] "1.2") = true := by decide
example : isOk (merge [core, extClash] "1.2") = false := by decide
example : isOk (merge [extClash, core] "1.2") = false := by decide
example : isOk (merge [core, core] "1.2") = false := by decide
example : isOk (merge [extOk] "1.2") = false := by decide

/-! ### on any conflict an error is returned, naming the offending file

    The last clause of C07.  `merge_never_partial` and `merge_no_panic` above say that a merge that
    does not succeed returns a non-empty error list (never a model, never a panic of its own).  The
    theorems below say what stands in that list, for **every** list of files and with no hypothesis
    but that `merge` returned it (proofs in `Proofs/MergeErrFile.lean`; `merge_error_cases` there is
    the complete case analysis):

    * `merge_errors_name_input_files` — every conflict names one of the input files;
    * `syn_errors_come_from_files` — every syntax error in the list is an error of some file's own parse;
    * `dup_type_error_in_file`, `dup_condition_error_in_file`, `not_module_error_in_file`,
      `missing_target_error_in_file`, `relation_clash_error_in_file` — per kind of conflict, recognised
      by its message: the named file really contains the offending declaration, and the declaration
      really is in conflict (with what, is said per kind).  Where file names repeat in the list "the
      file named so" is ambiguous, so the statements give *a* file of that name which contains the
      declaration.  The position of a first-loop error is computed in that file's text; the position of
      a second-loop error in the text the merger kept under that name (an input file of that name: the
      same file when names are distinct).

    Two places where the literal wording of the clause would be false of the code, and what is proved
    instead:
    * "extended type N does not exist" is raised when `N` is not *registered*, which is the case when no
      file defines `N`, **or** when the first definition of `N` carries no module name (then that
      definition was reported as "file is not a module" and not registered).
      `missing_target_not_defined` gives the plain reading when all definitions carry a module name.
    * the message "relation R already exists on type N" does not determine `R` and `N` when names may
      contain blanks, so `relation_clash_error_in_file` gives a block and a relation *with that
      message*; `relation_clash_error_exact` gives exactly `R` and `N` for blank-free relation names. -/

/-- **A.** every conflict reported by the merge names one of the input files -/
theorem merge_errors_name_input_files (fs : List FileIn) (v : String) (es : List MergeErr)
    (h : merge fs v = .errors es) (msg file : String) (pos : Pos) (hm : MergeErr.mod msg file pos ∈ es) :
    ∃ f ∈ fs, f.name = file :=
  Merge.merge_errors_name_input_files fs v es h msg file pos hm

/-- **C.** every syntax error in the merge's error list is an error of some input file's own parse -/
theorem syn_errors_come_from_files (fs : List FileIn) (v : String) (es : List MergeErr)
    (h : merge fs v = .errors es) (e : SynErr) (hm : MergeErr.syn e ∈ es) :
    ∃ f ∈ fs, ∃ l, f.outcome = .errors l ∧ e ∈ l :=
  Merge.syn_errors_come_from_files fs v es h e hm

/-- **B1.** "duplicate type definition N" names a file `f` (standing after the files `pre` in the list)
    whose parse result has, at some index `i`, a type definition named `N` that is not an extension;
    and `N` is also defined, not as an extension, by one of the files before `f` or at a smaller index
    in `f` itself.  The position is that of `type N` in `f`'s text. -/
theorem dup_type_error_in_file (fs : List FileIn) (v : String) (es : List MergeErr)
    (h : merge fs v = .errors es) (N file : String) (pos : Pos)
    (hm : MergeErr.mod ("duplicate type definition " ++ N) file pos ∈ es) :
    ∃ pre f post mdl exts i td, fs = pre ++ f :: post ∧ f.name = file ∧ f.outcome = .ok mdl exts ∧
      mdl.types[i]? = some td ∧ td.name = N ∧ isExtensionAt exts N i = false ∧
      (N ∈ pre.flatMap fileBaseNames ∨
        ∃ j td', j < i ∧ mdl.types[j]? = some td' ∧ td'.name = N ∧ isExtensionAt exts N j = false) ∧
      pos = constructLineAndColumnData (splitLines f.contents)
              (lineWithPrefix ("type " ++ N) (splitLines f.contents)) N :=
  Merge.dup_type_error_in_file fs v es h N file pos hm

/-- **B2.** "duplicate condition N" names a file `f` that declares condition `N`, and `N` is also
    declared by one of the files before `f` (or at a smaller index in `f` itself).  The position is
    that of `condition N` in `f`'s text. -/
theorem dup_condition_error_in_file (fs : List FileIn) (v : String) (es : List MergeErr)
    (h : merge fs v = .errors es) (N file : String) (pos : Pos)
    (hm : MergeErr.mod ("duplicate condition " ++ N) file pos ∈ es) :
    ∃ (pre : List FileIn) (f : FileIn) (post : List FileIn) (mdl : Model)
      (exts : Option (List (String × Nat))) (i : Nat) (c : Condition),
      fs = pre ++ f :: post ∧ f.name = file ∧ f.outcome = .ok mdl exts ∧
      mdl.conds[i]? = some (N, c) ∧
      (N ∈ pre.flatMap fileCondNames ∨ ∃ (j : Nat) (c' : Condition), j < i ∧ mdl.conds[j]? = some (N, c')) ∧
      pos = constructLineAndColumnData (splitLines f.contents)
              (lineWithPrefix ("condition " ++ N) (splitLines f.contents)) N :=
  Merge.dup_condition_error_in_file fs v es h N file pos hm

/-- **B3.** "file is not a module" names a file that declares a type (not an extension) without module
    name, or a condition without module metadata; it carries no position -/
theorem not_module_error_in_file (fs : List FileIn) (v : String) (es : List MergeErr)
    (h : merge fs v = .errors es) (file : String) (pos : Pos)
    (hm : MergeErr.mod "file is not a module" file pos ∈ es) :
    ∃ f ∈ fs, f.name = file ∧ ∃ mdl exts, f.outcome = .ok mdl exts ∧
      ((∃ i td, mdl.types[i]? = some td ∧ isExtensionAt exts td.name i = false ∧ modName td = "") ∨
       (∃ (i : Nat) (name : String) (c : Condition), mdl.conds[i]? = some (name, c) ∧ c.md = none)) ∧
      pos = {} :=
  Merge.not_module_error_in_file fs v es h file pos hm

/-- **B4.** "extended type N does not exist" names a file that contains an `extend type N` block, and `N`
    is not registered: the first definition of `N` in the order of the files, if there is one at all,
    carries no module name.  The position is that of `extend type N` in the text kept under that name. -/
theorem missing_target_error_in_file (fs : List FileIn) (v : String) (es : List MergeErr)
    (h : merge fs v = .errors es) (N file : String) (pos : Pos)
    (hm : MergeErr.mod ("extended type " ++ N ++ " does not exist") file pos ∈ es) :
    ∃ f ∈ fs, f.name = file ∧ ∃ e ∈ fileExtDefs f, e.name = N ∧
      (∀ d, (fs.flatMap fileBaseDefs).find? (fun d => d.name == N) = some d → modName d = "") ∧
      ∃ f' ∈ fs, f'.name = file ∧
        pos = constructLineAndColumnData (splitLines f'.contents)
                (lineWithPrefix ("extend type " ++ N) (splitLines f'.contents)) N :=
  Merge.missing_target_error_in_file fs v es h N file pos hm

/-- … when every definition carries a module name, no file defines `N`: `ConflictFree.targets` fails -/
theorem missing_target_not_defined (fs : List FileIn) (v : String) (es : List MergeErr)
    (h : merge fs v = .errors es) (N file : String) (pos : Pos)
    (hm : MergeErr.mod ("extended type " ++ N ++ " does not exist") file pos ∈ es)
    (hmod : ∀ d ∈ fs.flatMap fileBaseDefs, modName d ≠ "") : N ∉ fs.flatMap fileBaseNames :=
  Merge.missing_target_not_defined fs v es h N file pos hm hmod

/-- what "an `extend type` block of file `f`" means in terms of the file's parse result -/
theorem mem_fileExtDefs_iff (f : FileIn) (e : TypeDef) :
    e ∈ fileExtDefs f ↔
      ∃ mdl exts i, f.outcome = .ok mdl exts ∧ mdl.types[i]? = some e ∧ isExtensionAt exts e.name i = true :=
  Merge.mem_fileExtDefs_iff f e

/-- **B5.** "relation R already exists on type N" names a file that contains an `extend type` block `e`
    declaring a relation `k`, the message being the one for `k` and `e.name`; and `k` is already on that
    type: declared by its base definition, or by another extension block (the extension blocks of the
    files contribute `k` to `e.name` at least twice).  The position is that of `define k` in the text
    kept under that name. -/
theorem relation_clash_error_in_file (fs : List FileIn) (v : String) (es : List MergeErr)
    (h : merge fs v = .errors es) (R N file : String) (pos : Pos)
    (hm : MergeErr.mod ("relation " ++ R ++ " already exists on type " ++ N) file pos ∈ es) :
    ∃ f ∈ fs, f.name = file ∧ ∃ e ∈ fileExtDefs f, ∃ k ∈ AList.keys e.relations,
      "relation " ++ k ++ " already exists on type " ++ e.name = "relation " ++ R ++ " already exists on type " ++ N ∧
      (k ∈ contrib e.name (fs.flatMap fileBaseDefs) ∨ 2 ≤ (contrib e.name (fs.flatMap fileExtDefs)).count k) ∧
      ∃ f' ∈ fs, f'.name = file ∧
        pos = constructLineAndColumnData (splitLines f'.contents)
                (lineWithPrefix ("define " ++ k) (splitLines f'.contents)) k :=
  Merge.relation_clash_error_in_file fs v es h R N file pos hm

/-- … with relation names free of blanks (as the DSL's identifiers are) the block extends exactly `N`
    and declares exactly `R`, and `ConflictFree.relations` fails at `N` -/
theorem relation_clash_error_exact (fs : List FileIn) (v : String) (es : List MergeErr)
    (h : merge fs v = .errors es) (R N file : String) (pos : Pos)
    (hm : MergeErr.mod ("relation " ++ R ++ " already exists on type " ++ N) file pos ∈ es)
    (hR : ' ' ∉ R.toList)
    (hfs : ∀ f ∈ fs, ∀ e ∈ fileExtDefs f, ∀ k ∈ AList.keys e.relations, ' ' ∉ k.toList) :
    (∃ f ∈ fs, f.name = file ∧ ∃ e ∈ fileExtDefs f, e.name = N ∧ R ∈ AList.keys e.relations) ∧
    (R ∈ contrib N (fs.flatMap fileBaseDefs) ∨ 2 ≤ (contrib N (fs.flatMap fileExtDefs)).count R) ∧
    ¬ (contrib N (fs.flatMap fileBaseDefs ++ fs.flatMap fileExtDefs)).Nodup :=
  Merge.relation_clash_error_exact fs v es h R N file pos hm hR hfs

/-! ### non-vacuity: each kind of error is raised, naming the offending file -/

def dupUser : FileIn := { name := "dup.fga", contents := "module dup\ntype user", outcome := .ok { schema := "", types := [{ name := "user", relations := [], md := some { relations := [], «module» := "dup" } }], conds := [] } (some []) }
def noModule : FileIn := { name := "plain.fga", contents := "type group", outcome := .ok { schema := "", types := [{ name := "group", relations := [], md := some { relations := [] } }], conds := [] } none }
def broken : FileIn := { name := "broken.fga", contents := "module m\ntyp", outcome := .errors [{ line := 1, col := 0, msg := "mismatched input 'typ'" }] }

def errorsOf : MergeOutcome → List MergeErr
  | .errors es => es
  | _ => []

/-- a type defined twice: the error names the second file, at `type user` in its text -/
example : merge [core, dupUser] "1.2" =
    .errors [.mod "duplicate type definition user" "dup.fga" { lineStart := 1, lineEnd := 1, colStart := 5, colEnd := 9 }] := by rfl
/-- … and the first file when the order is the other one -/
example : (errorsOf (merge [dupUser, core] "1.2")).map (fun | .mod m f _ => (m, f) | .syn _ => ("", "")) =
    [("duplicate type definition user", "core.fga")] := by decide
/-- a relation declared twice: the error names the extending file, at `define viewer` in its text -/
example : merge [core, extClash] "1.2" =
    .errors [.mod "relation viewer already exists on type doc" "ext.fga" { lineStart := 3, lineEnd := 3, colStart := 11, colEnd := 17 }] := by rfl
/-- an extension without target: the error names the extending file, at `extend type doc` -/
example : merge [extOk] "1.2" =
    .errors [.mod "extended type doc does not exist" "ext.fga" { lineStart := 1, lineEnd := 1, colStart := 12, colEnd := 15 }] := by rfl
/-- a file without `module` header, and a file that did not parse (its own error is passed on) -/
example : merge [core, noModule, broken] "1.2" =
    .errors [.mod "file is not a module" "plain.fga" {}, .syn { line := 1, col := 0, msg := "mismatched input 'typ'" }] := by rfl
/-- the hypotheses of the theorems are satisfiable: theorem A on the first example -/
example : ∃ f ∈ [core, dupUser], f.name = "dup.fga" :=
  merge_errors_name_input_files [core, dupUser] "1.2" _ rfl _ _ _ (List.mem_singleton.2 rfl)
/-- … and B1: `user` is defined by a file standing before the named one -/
example : ∃ pre f post, [core, dupUser] = pre ++ f :: post ∧ f.name = "dup.fga" ∧
    ("user" ∈ pre.flatMap fileBaseNames ∨ ∃ mdl exts, f.outcome = .ok mdl exts ∧ 2 ≤ mdl.types.length) := by
  obtain ⟨pre, f, post, mdl, exts, i, td, h1, h2, h3, h4, _, _, h7, _⟩ :=
    dup_type_error_in_file [core, dupUser] "1.2" _ rfl "user" "dup.fga" _ (List.mem_singleton.2 rfl)
  refine ⟨pre, f, post, h1, h2, ?_⟩
  rcases h7 with h7 | ⟨j, td', hj, _⟩
  · exact Or.inl h7
  · refine Or.inr ⟨mdl, exts, h3, ?_⟩
    have := (List.getElem?_eq_some_iff.1 h4).1
    omega

end FgaVerif.Props.C07
