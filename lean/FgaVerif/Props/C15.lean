import FgaVerif.Proofs.ModFile
/-!
# C15 — fga.mod: accepted file paths are safe, verbatim and correctly located

The statements quantify over **all** byte strings (entries) and all lists of YAML nodes.  They are about
`Model.ModFile` — the port of the checks of `TransformModFile` after `yaml.Unmarshal`; the port is tied
to the code by the correspondence check (exhaustive over the escape alphabet to a bounded length, random
longer entries, whole manifests over the nodes yaml.v3 produced).  yaml.v3 itself (tags, line/column) is a
parameter, so the *position* clause of C15 is checked by an oracle on the real code, not proved here.
-/
namespace FgaVerif.Props.C15
open FgaVerif.Model.ModFile

/-- `v` has a path segment equal to "..": two dots delimited by '/' or the ends of the string -/
def HasDotDotSegment (v : Bytes) : Prop :=
  ∃ pre post, v = pre ++ [46, 46] ++ post ∧
    (pre = [] ∨ ∃ p, pre = p ++ [47]) ∧ (post = [] ∨ ∃ q, post = 47 :: q)

/-- what C15 calls a safe path -/
structure Safe (v : Bytes) : Prop where
  relative : ¬ [47] <+: v              -- does not start with '/'
  noBackslash : (92 : UInt8) ∉ v
  noDotDot : ¬ HasDotDotSegment v
  fgaSuffix : dotFga <:+ v

theorem no_dotdot_segment (v : Bytes) (hinf : ¬ dotDotSlash <:+: v) (hsuf : dotFga <:+ v) :
    ¬ HasDotDotSegment v := by
  rintro ⟨pre, post, hs, _, hpost⟩
  rcases hpost with hp | ⟨q, hq⟩
  · subst hp
    obtain ⟨t, ht⟩ := hsuf
    have h1 : v.getLast? = some 97 := by rw [← ht]; simp [dotFga]
    have h2 : v.getLast? = some 46 := by rw [hs]; simp
    rw [h1] at h2
    exact absurd h2 (by decide)
  · apply hinf
    refine ⟨pre, q, ?_⟩
    rw [hs, hq]
    simp [dotDotSlash]

/-- **Safety, for every entry**: whatever mix of percent-encoding, upper/lower-case escapes, '+'
    and Windows separators the entry uses, an accepted entry's returned value is relative, has no
    backslash, no `..` segment, and ends in `.fga`. -/
theorem modfile_safe (raw v : Bytes) (h : checkEntry raw = .ok v) : Safe v := by
  unfold checkEntry at h
  split at h
  · cases h
  · rename_i decoded _
    simp only at h
    split at h
    · cases h
    · rename_i hbad
      split at h
      · cases h
      · rename_i hext
        cases h
        have hbad' : containsB dotDotSlash (normalize decoded) = false ∧ isPrefixB [47] (normalize decoded) = false := by
          simpa [Bool.or_eq_true, not_or] using hbad
        have hinf : ¬ dotDotSlash <:+: normalize decoded := by
          intro hc
          have := (containsB_iff _ _).2 hc
          rw [hbad'.1] at this
          exact absurd this (by decide)
        have hsuf : dotFga <:+ normalize decoded := by
          apply (hasSuffixB_iff _ _).1
          simpa using hext
        refine ⟨?_, normalize_no_backslash decoded, no_dotdot_segment _ hinf hsuf, hsuf⟩
        intro hp
        have := (isPrefixB_iff _ _).2 hp
        rw [hbad'.2] at this
        exact absurd this (by decide)

/-- **Verbatim**: an accepted entry written without '%', '+' or backslash is returned unchanged. -/
theorem modfile_verbatim (raw v : Bytes) (h : checkEntry raw = .ok v)
    (h37 : (37 : UInt8) ∉ raw) (h43 : (43 : UInt8) ∉ raw) (h92 : (92 : UInt8) ∉ raw) : v = raw := by
  unfold checkEntry at h
  rw [queryUnescape_id raw h37 h43] at h
  simp only [normalize_id raw h92] at h
  split at h
  · cases h
  · split at h
    · cases h
    · cases h; rfl

/-- the items loop: every node yields exactly one outcome — a returned path or an error — in order;
    nothing is silently filtered -/
theorem items_one_each (items : List Node) :
    (checkItems items).1.length + (checkItems items).2.length = items.length := by
  induction items with
  | nil => simp [checkItems]
  | cons f rest ih =>
    simp only [checkItems]
    split
    · simp only [List.length_cons]; omega
    · split <;> simp only [List.length_cons] <;> omega

/-- a string item is returned iff its entry check succeeds, with the checked value -/
theorem items_paths_safe (items : List Node) : ∀ p ∈ (checkItems items).1, Safe p.value := by
  induction items with
  | nil => simp [checkItems]
  | cons f rest ih =>
    intro p hp
    simp only [checkItems] at hp
    split at hp
    · exact ih p hp
    · split at hp
      · exact ih p hp
      · exact ih p hp
      · exact ih p hp
      · rename_i v hv
        rcases List.mem_cons.1 hp with rfl | h
        · exact modfile_safe _ _ hv
        · exact ih p h

/-- **Whole manifest**: if the manifest is accepted then the schema is exactly "1.2", every returned
    path is safe, the number of returned paths equals the number of entries (none dropped), and no
    error was raised; if any entry or field is rejected the result is an error list and no file. -/
theorem modfile_accepts (schema contents : Node) (out : ModFileOut)
    (h : transform schema contents = .ok out) :
    schema.value = "1.2" ∧ schema.tag = "!!str" ∧ contents.tag = "!!seq" ∧
    out.contents.length = contents.content.length ∧ ∀ p ∈ out.contents, Safe p.value := by
  unfold transform at h
  simp only at h
  -- schema part
  cases hs : checkSchema schema with
  | error e => simp [hs] at h
  | ok sp =>
    have hschema : schema.value = "1.2" ∧ schema.tag = "!!str" := by
      unfold checkSchema at hs
      split at hs
      · cases hs
      · split at hs
        · cases hs
        · split at hs
          · cases hs
          · rename_i h1 h2
            exact ⟨by simpa using h2, by simpa using h1⟩
    cases hz : contents.zero with
    | true => simp [hs, hz] at h
    | false =>
      cases ht : (contents.tag != "!!seq") with
      | true => simp [hs, hz, ht] at h
      | false =>
        have hlen := items_one_each contents.content
        have hsafe := items_paths_safe contents.content
        simp only [hs, hz, ht, Bool.false_eq_true, if_false, List.nil_append] at h
        generalize checkItems contents.content = r at h hlen hsafe
        obtain ⟨ps, es⟩ := r
        simp only at h
        cases hes : es.isEmpty with
        | false => simp [hes] at h
        | true =>
          simp only [hes, if_true] at h
          cases h
          have hes' : es = [] := by simpa using hes
          subst hes'
          exact ⟨hschema.1, hschema.2, by simpa using ht, by simpa using hlen, hsafe⟩

/-! ## non-vacuity and the excluded points -/
/-- ASCII text as bytes (kernel-evaluable, unlike `String.toUTF8`) -/
def asc (s : String) : Bytes := s.toList.map (fun c => c.toNat.toUInt8)

example : checkEntry (asc "a%2Fb.fga") = .ok (asc "a/b.fga") := by decide
example : checkEntry (asc "..%5Cx.fga") = .invalid := by decide
example : checkEntry (asc "%2e%2e/x.fga") = .invalid := by decide
example : checkEntry (asc "dir\\sub\\m.fga") = .ok (asc "dir/sub/m.fga") := by decide
example : checkEntry (asc "a%zz.fga") = .decodeErr := by decide
example : checkEntry (asc "model.txt") = .badExt := by decide

end FgaVerif.Props.C15
