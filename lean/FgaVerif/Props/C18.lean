import FgaVerif.Proofs.Validators
import FgaVerif.Gen.Rules
/-!
# C18 — tuple-field validators accept only unambiguously decomposable strings

All statements quantify over *all* strings (`List Char` = sequences of Unicode scalar values, which is
what Go's `regexp` sees for valid UTF-8).  The validators below are *defined from the regenerated
data* (`Gen.Rules`, re-extracted from the Go/JS/Java sources on every run) through
`validators_shape`, so a change to a rule string, a limit or a composition re-opens these proofs.
-/
namespace FgaVerif.Props.C18
open FgaVerif.FlatRe FgaVerif.Model

/-! ## the rule atoms the proofs are about (hand-written expectation) -/
def nameCls : Cls := ⟨true, [.ch ':', .ch '#', .ch '@', .ch '*', .space]⟩
def typeA : Atom := ⟨nameCls, 1, some 254⟩
def relA : Atom := ⟨nameCls, 1, some 50⟩
def condA : Atom := ⟨⟨true, [.ch '*', .space]⟩, 1, some 50⟩
def id1A : Atom := ⟨⟨true, [.ch '#', .ch ':', .space, .ch '*']⟩, 1, some 1⟩
def idRestA : Atom :=
  ⟨⟨false, [.range 'a' 'z', .range 'A' 'Z', .range '0' '9', .ch '_', .ch '|', .ch '*', .ch '@', .ch '.', .ch '+']⟩, 0, none⟩
def objA : Atom := ⟨⟨true, [.space]⟩, 2, some 256⟩
def lit (c : Char) : Atom := ⟨⟨false, [.ch c]⟩, 1, some 1⟩

def idRe : List Atom := [id1A, idRestA]
def typeIdRe : List Atom := [typeA, lit ':'] ++ idRe
def usersetRe : List Atom := typeIdRe ++ [lit '#', relA]
def wildcardRe : List Atom := [typeA, lit ':', lit '*']

def cObject : CExpr := .and (.re typeIdRe) (.re [objA])
def cUserSet : CExpr := .re usersetRe
def cWildcard : CExpr := .re wildcardRe

def expected : List (String × CExpr) := [
  ("ValidateObject", cObject),
  ("ValidateObjectID", .re idRe),
  ("ValidateRelation", .re [relA]),
  ("ValidateUserSet", cUserSet),
  ("ValidateUserObject", cObject),
  ("ValidateUserWildcard", cWildcard),
  ("ValidateUser", .or (.or cUserSet cObject) cWildcard),
  ("ValidateRelationshipCondition", .re [condA]),
  ("ValidateType", .re [typeA])]

/-- **Tie to the source.** The nine Go validators, as re-extracted from
    `validation-rules.go` and compiled (Sprintf substitution, pattern parsing, call inlining),
    are exactly the expressions the theorems below talk about. -/
theorem validators_shape :
    compileAll Gen.Rules.goRules Gen.Rules.goValidators = some expected := by decide

/-- the rule strings of the JS and Java packages are identical to the Go ones -/
theorem rules_identical :
    Gen.Rules.jsRules.map (·.2) = Gen.Rules.goRules.map (·.2) ∧
    Gen.Rules.javaRules.map (·.2) = Gen.Rules.goRules.map (·.2) ∧
    Gen.Rules.goRules.length = 5 := by decide

/-! ## the validators as functions on strings -/
def validateType (s : List Char) : Bool := (CExpr.re [typeA]).eval s
def validateRelation (s : List Char) : Bool := (CExpr.re [relA]).eval s
def validateCondition (s : List Char) : Bool := (CExpr.re [condA]).eval s
def validateObjectID (s : List Char) : Bool := (CExpr.re idRe).eval s
def validateObject (s : List Char) : Bool := cObject.eval s
def validateUserSet (s : List Char) : Bool := cUserSet.eval s
def validateUserWildcard (s : List Char) : Bool := cWildcard.eval s
def validateUser (s : List Char) : Bool := (CExpr.or (.or cUserSet cObject) cWildcard).eval s

theorem object_iff (s : List Char) : validateObject s = true ↔ M typeIdRe s ∧ M [objA] s := by
  simp [validateObject, cObject, CExpr.eval, matchB_iff]
theorem userset_iff (s : List Char) : validateUserSet s = true ↔ M usersetRe s := by
  simp [validateUserSet, cUserSet, CExpr.eval, matchB_iff]
theorem wildcard_iff (s : List Char) : validateUserWildcard s = true ↔ M wildcardRe s := by
  simp [validateUserWildcard, cWildcard, CExpr.eval, matchB_iff]

/-! ## exactly one ':' / '#' -/

theorem typeId_count_colon (s : List Char) (h : M typeIdRe s) : s.count ':' = 1 := by
  have := count_flat ':' typeIdRe s (by decide) h
  simpa using this.trans (by decide)

theorem typeId_count_hash (s : List Char) (h : M typeIdRe s) : s.count '#' = 0 := by
  have := count_flat '#' typeIdRe s (by decide) h
  simpa using this.trans (by decide)

/-- any accepted object has exactly one ':' -/
theorem object_unique_colon (s : List Char) (h : validateObject s = true) : s.count ':' = 1 :=
  typeId_count_colon s ((object_iff s).1 h).1

theorem typeId_split (s : List Char) (h : M typeIdRe s) :
    ∃ t i, s = t ++ ':' :: i ∧ validateType t = true ∧ validateObjectID i = true := by
  have h' : M ([typeA] ++ ([lit ':'] ++ idRe)) s := h
  obtain ⟨t, r, rfl, ht, hr⟩ := (M_append _ _ _).1 h'
  obtain ⟨c, i, rfl, hc, hi⟩ := (M_append _ _ _).1 hr
  have hc' := (M_single _ _).1 hc
  obtain ⟨hcl, hmin, hmax⟩ := hc'
  have hlen : c.length = 1 := by
    have := hmax 1 rfl
    simp [lit] at hmin
    omega
  match c, hlen with
  | [x], _ =>
    have hx := hcl x (by simp)
    simp [lit, Cls.mem, ClsItem.mem] at hx
    subst hx
    refine ⟨t, i, by simp, ?_, ?_⟩
    · simpa [validateType, CExpr.eval, matchB_iff] using ht
    · simpa [validateObjectID, CExpr.eval, matchB_iff] using hi

/-- any accepted object splits at its only ':' into an accepted type and an accepted object id,
    and that is the only way to split it at a ':' -/
theorem object_splits (s : List Char) (h : validateObject s = true) :
    ∃ t i, s = t ++ ':' :: i ∧ validateType t = true ∧ validateObjectID i = true ∧
      ∀ t' i', s = t' ++ ':' :: i' → t' = t ∧ i' = i := by
  obtain ⟨t, i, rfl, ht, hi⟩ := typeId_split s ((object_iff s).1 h).1
  refine ⟨t, i, rfl, ht, hi, ?_⟩
  intro t' i' he
  have := split_unique ':' t i t' i' he (object_unique_colon _ h)
  exact ⟨this.1.symm, this.2.symm⟩

/-- any accepted userset has exactly one ':' and exactly one '#' -/
theorem userset_unique_colon_hash (s : List Char) (h : validateUserSet s = true) :
    s.count ':' = 1 ∧ s.count '#' = 1 := by
  have hm := (userset_iff s).1 h
  constructor
  · have := count_flat ':' usersetRe s (by decide) hm
    simpa using this.trans (by decide)
  · have := count_flat '#' usersetRe s (by decide) hm
    simpa using this.trans (by decide)

/-- any accepted userset is `type ':' id '#' relation` with each part accepted, uniquely -/
theorem userset_splits (s : List Char) (h : validateUserSet s = true) :
    ∃ t i r, s = t ++ ':' :: i ++ '#' :: r ∧ validateType t = true ∧ validateObjectID i = true ∧
      validateRelation r = true ∧
      ∀ o' r', s = o' ++ '#' :: r' → o' = t ++ ':' :: i ∧ r' = r := by
  have hm := (userset_iff s).1 h
  obtain ⟨o, q, rfl, ho, hq⟩ := (M_append typeIdRe [lit '#', relA] s).1 hm
  obtain ⟨c, r, rfl, hc, hr⟩ := (M_append [lit '#'] [relA] q).1 hq
  obtain ⟨hcl, hmin, hmax⟩ := (M_single _ _).1 hc
  have hlen : c.length = 1 := by
    have := hmax 1 rfl
    simp [lit] at hmin
    omega
  match c, hlen with
  | [x], _ =>
    have hx := hcl x (by simp)
    simp [lit, Cls.mem, ClsItem.mem] at hx
    subst hx
    obtain ⟨t, i, rfl, ht, hi⟩ := typeId_split o ho
    refine ⟨t, i, r, by simp, ht, hi, by simpa [validateRelation, CExpr.eval, matchB_iff] using hr, ?_⟩
    intro o' r' he
    have hcount := (userset_unique_colon_hash _ h).2
    have := split_unique '#' (t ++ ':' :: i) r o' r' (by simpa using he) (by simpa using hcount)
    exact ⟨this.1.symm, this.2.symm⟩

/-! ## a user is exactly one of userset, object, typed wildcard -/

theorem wildcard_shape (s : List Char) (h : M wildcardRe s) :
    ∃ t, s = t ++ [':', '*'] ∧ validateType t = true := by
  have h' : M ([typeA] ++ ([lit ':'] ++ [lit '*'])) s := h
  obtain ⟨t, r, rfl, ht, hr⟩ := (M_append _ _ _).1 h'
  obtain ⟨c, d, rfl, hc, hd⟩ := (M_append _ _ _).1 hr
  obtain ⟨hcl, hmin, hmax⟩ := (M_single _ _).1 hc
  obtain ⟨hdl, hdmin, hdmax⟩ := (M_single _ _).1 hd
  have hlen : c.length = 1 := by have := hmax 1 rfl; simp [lit] at hmin; omega
  have hlen' : d.length = 1 := by have := hdmax 1 rfl; simp [lit] at hdmin; omega
  match c, hlen, d, hlen' with
  | [x], _, [y], _ =>
    have hx := hcl x (by simp)
    have hy := hdl y (by simp)
    simp [lit, Cls.mem, ClsItem.mem] at hx hy
    subst hx; subst hy
    exact ⟨t, by simp, by simpa [validateType, CExpr.eval, matchB_iff] using ht⟩

theorem objectID_first (i : List Char) (h : validateObjectID i = true) :
    ∃ x rest, i = x :: rest ∧ x ≠ '*' := by
  have hm : M ([id1A] ++ [idRestA]) i := by
    simpa [validateObjectID, CExpr.eval, matchB_iff, idRe] using h
  obtain ⟨c, r, rfl, hc, _⟩ := (M_append _ _ _).1 hm
  obtain ⟨hcl, hmin, hmax⟩ := (M_single _ _).1 hc
  have hlen : c.length = 1 := by have := hmax 1 rfl; simp [id1A] at hmin; omega
  match c, hlen with
  | [x], _ =>
    refine ⟨x, r, by simp, ?_⟩
    intro hx
    subst hx
    have := hcl '*' (by simp)
    exact absurd this (by decide)

/-- the three alternatives of `ValidateUser` are pairwise disjoint, so an accepted user is
    exactly one of userset, object, typed wildcard -/
theorem user_exactly_one (s : List Char) :
    ¬ (validateUserSet s = true ∧ validateObject s = true) ∧
    ¬ (validateUserSet s = true ∧ validateUserWildcard s = true) ∧
    ¬ (validateObject s = true ∧ validateUserWildcard s = true) := by
  refine ⟨?_, ?_, ?_⟩
  · rintro ⟨hu, ho⟩
    have h1 := (userset_unique_colon_hash s hu).2
    have h0 := typeId_count_hash s ((object_iff s).1 ho).1
    omega
  · rintro ⟨hu, hw⟩
    have h1 := (userset_unique_colon_hash s hu).2
    have h0 := count_flat '#' wildcardRe s (by decide) ((wildcard_iff s).1 hw)
    have : s.count '#' = 0 := by simpa using h0.trans (by decide)
    omega
  · rintro ⟨ho, hw⟩
    obtain ⟨t, i, hs, _, hi, _⟩ := object_splits s ho
    obtain ⟨t', hs', _⟩ := wildcard_shape s ((wildcard_iff s).1 hw)
    have hcnt := object_unique_colon s ho
    rw [hs] at hs' hcnt
    have := split_unique ':' t i t' ['*'] (by simpa using hs') hcnt
    obtain ⟨x, rest, hx, hne⟩ := objectID_first i hi
    rw [this.2] at hx
    simp at hx
    exact hne hx.1.symm

theorem user_iff (s : List Char) :
    validateUser s = true ↔ validateUserSet s = true ∨ validateObject s = true ∨ validateUserWildcard s = true := by
  simp [validateUser, validateUserSet, validateObject, validateUserWildcard, CExpr.eval, or_assoc]

/-! ## no whitespace; reserved characters never in types and relations -/

theorem no_space_of (as : List Atom) (hside : as.all (·.cls.excludesSpace) = true) (s : List Char)
    (h : M as s) : ∀ c ∈ s, isSpaceRE2 c = false := by
  apply all_chars (fun c => isSpaceRE2 c = false) as s _ h
  intro a ha x hx
  rw [List.all_eq_true] at hside
  exact Cls.excludesSpace_sound a.cls x (hside a ha) hx

/-- no accepted type, relation or object id contains whitespace (the rules' own `\s`) -/
theorem no_space (s : List Char) :
    (validateType s = true → ∀ c ∈ s, isSpaceRE2 c = false) ∧
    (validateRelation s = true → ∀ c ∈ s, isSpaceRE2 c = false) ∧
    (validateObjectID s = true → ∀ c ∈ s, isSpaceRE2 c = false) := by
  refine ⟨?_, ?_, ?_⟩ <;> intro h
  · exact no_space_of [typeA] (by decide) s (by simpa [validateType, CExpr.eval, matchB_iff] using h)
  · exact no_space_of [relA] (by decide) s (by simpa [validateRelation, CExpr.eval, matchB_iff] using h)
  · exact no_space_of idRe (by decide) s (by simpa [validateObjectID, CExpr.eval, matchB_iff] using h)

/-- types and relations never contain ':', '#', '@' or '*' -/
theorem type_relation_alphabet (s : List Char) (h : validateType s = true ∨ validateRelation s = true) :
    ':' ∉ s ∧ '#' ∉ s ∧ '@' ∉ s ∧ '*' ∉ s := by
  rcases h with h | h
  · have hm : M [typeA] s := by simpa [validateType, CExpr.eval, matchB_iff] using h
    exact ⟨excludes_char _ _ s (by decide) hm, excludes_char _ _ s (by decide) hm,
           excludes_char _ _ s (by decide) hm, excludes_char _ _ s (by decide) hm⟩
  · have hm : M [relA] s := by simpa [validateRelation, CExpr.eval, matchB_iff] using h
    exact ⟨excludes_char _ _ s (by decide) hm, excludes_char _ _ s (by decide) hm,
           excludes_char _ _ s (by decide) hm, excludes_char _ _ s (by decide) hm⟩

/-! ## length limits, exactly -/

theorem type_limits (s : List Char) :
    validateType s = true ↔ (∀ c ∈ s, nameCls.mem c = true) ∧ 1 ≤ s.length ∧ s.length ≤ 254 := by
  simp [validateType, CExpr.eval, matchB_iff, M_single, typeA]

theorem relation_limits (s : List Char) :
    validateRelation s = true ↔ (∀ c ∈ s, nameCls.mem c = true) ∧ 1 ≤ s.length ∧ s.length ≤ 50 := by
  simp [validateRelation, CExpr.eval, matchB_iff, M_single, relA]

theorem condition_limits (s : List Char) :
    validateCondition s = true ↔ (∀ c ∈ s, condA.cls.mem c = true) ∧ 1 ≤ s.length ∧ s.length ≤ 50 := by
  simp [validateCondition, CExpr.eval, matchB_iff, M_single, condA]

theorem object_limits (s : List Char) (h : validateObject s = true) : 2 ≤ s.length ∧ s.length ≤ 256 := by
  have := (M_single _ _).1 ((object_iff s).1 h).2
  simpa [objA] using this.2

/-- accepted at the limit, rejected one past it (a family of witnesses for every length) -/
theorem limits_exact (n : Nat) :
    (validateType (List.replicate n 'a') = true ↔ 1 ≤ n ∧ n ≤ 254) ∧
    (validateRelation (List.replicate n 'a') = true ↔ 1 ≤ n ∧ n ≤ 50) ∧
    (validateCondition (List.replicate n 'a') = true ↔ 1 ≤ n ∧ n ≤ 50) := by
  refine ⟨?_, ?_, ?_⟩
  · rw [type_limits]; simp only [List.length_replicate]
    constructor
    · exact fun h => h.2
    · intro h; refine ⟨?_, h⟩; intro c hc; rw [(List.mem_replicate.1 hc).2]; decide
  · rw [relation_limits]; simp only [List.length_replicate]
    constructor
    · exact fun h => h.2
    · intro h; refine ⟨?_, h⟩; intro c hc; rw [(List.mem_replicate.1 hc).2]; decide
  · rw [condition_limits]; simp only [List.length_replicate]
    constructor
    · exact fun h => h.2
    · intro h; refine ⟨?_, h⟩; intro c hc; rw [(List.mem_replicate.1 hc).2]; decide

/-! ## non-vacuity: concrete strings meeting the hypotheses -/
example : validateObject "document:1".toList = true := by decide
example : validateUserSet "group:eng#member".toList = true := by decide
example : validateUserWildcard "user:*".toList = true := by decide
example : validateObject "doc:1:2".toList = false := by decide
example : validateUser "user:*".toList = true ∧ validateUser "a b:c".toList = false := by decide

end FgaVerif.Props.C18
