import FgaVerif.Proofs.ListenerDoc
/-!
# C03, whole documents — every grammatical layout of a model parses to exactly the model written

`Props/C03.lean` proves the property for a single relation declaration.  Here it is lifted to
**whole documents**.  `Model/CstDoc.lean` mirrors the remaining rules of `OpenFGAParser.g4` (main,
modelHeader, moduleHeader, typeDefs, typeDef, conditions, condition, conditionName,
conditionParameter, parameterName, parameterType, conditionExpression) as a typed concrete syntax
tree `DocCst` *with every layout choice* (text of each WHITESPACE / NEWLINE token, optional tokens
present or absent, and — through `Decl` — line breaks inside restriction lists, redundant
parentheses, keyword tokens used as identifiers), `DocCst.tree` is the parse tree ANTLR builds for it,
`DocCst.content` forgets the layout, and `DocContent.den` is the model a content denotes:

* the schema version (model file) / module name (module file);
* the type definitions **in order**, each with its relations (Go map writes in source order, i.e.
  `AList.insert`), the rewrite trees `Def.den`, per relation the declared type restrictions in order
  and, in a module file, the module name on the relations of an `extend`ed type; the type metadata
  (absent for a relation-less type in a model file, carrying the module in a module file);
* the conditions by name with their parameters (`paramTypeName`, generics of `list<…>`/`map<…>`),
  the expression text right-trimmed, the module metadata in a module file;
* for a module file the extension map (extended type ↦ index of its definition).

**What is proved** (`Proofs/ListenerDoc.lean`, on top of `walk_decl`): for every `DocCst` that passes
the decidable test `wfB` — declaration bodies well formed (`Def.wf`: every `relationDefPartials` carries a real
operator), type names non-empty, relation names pairwise distinct per type, condition names pairwise
distinct, parameter names pairwise distinct per condition, no `extend` in a model file, every type
extended at most once in a module file — the listener port `transform` returns, without error,
exactly `DocCst.den d`; hence two documents with the same content, however differently laid out,
yield the same result.  `transform_real_doc` carries this to trees with ANTLR's line/column positions
(the walk commutes with erasing positions, `Proofs/ErasePos.lean`).

Conversely `wfB` is not a convenient over-restriction but **exactly the acceptance condition**
(`transform_doc_ok_iff`): for a grammatical document (`gramOk`: what the parser guarantees — operator
tokens in partials, non-empty type names) the listener returns a model *iff* `wfB` holds, and
otherwise returns the non-empty error log of `docResultG` (`transform_doc_rejects`).  The steps
`walk_typeDef_gen` / `walk_condition_gen` characterise the walk of a type definition / condition
*with* the errors logged (`extend` outside a module, a relation declared twice, a type extended
twice, a condition name taken, a parameter repeated) and show that the walk never panics.

**What is not covered**: that the real lexer/parser produce `DocCst.tree d` (up to positions) from
the text of `d` — ANTLR is a parameter here.  That link is checked by correspondence with the real
parser on every run and by the parser model (`Model/GParse.lean`, `Props/Front.lean`); the comment
pre-pass, which is why the `multiLineComment` options of typeDef / condition / the headers are left
out of the CST, is ported in `Model/Clean.lean`.  Expression texts are compared exactly after
right-trimming (what the listener stores), not modulo inner whitespace.  Error positions: the CST
trees carry position 0:0 everywhere, so the logs computed here are the real ones up to positions
(`Proofs/ErasePos.lean`).
-/
namespace FgaVerif.Props.C03Doc
open FgaVerif.Model FgaVerif.Model.Listener FgaVerif.Model.Cst

/-- **transform_doc**: the listener returns exactly the denoted model (and extension map), without
    error, for every well-formed document in every layout. -/
theorem transform_doc (d : DocCst) (hwf : d.wfB = true) :
    transform [] (DocCst.tree d) = .ok (DocCst.den d).1 (DocCst.den d).2 :=
  Cst.transform_doc d hwf

/-- the same for a real parse tree `t` (positions and all) whose position-erased form is `DocCst.tree d` -/
theorem transform_real_doc (t : Tree) (d : DocCst) (hwf : d.wfB = true) (ht : erasePos t = DocCst.tree d) :
    transform [] t = .ok (DocCst.den d).1 (DocCst.den d).2 :=
  Cst.transform_real_doc t d hwf ht

/-- **Layout never changes the result**: two well-formed documents with the same abstract content
    (header kind and version / module name; per type its name, `extend` flag and per declaration the
    name, `Def.den` and `Def.restr`; per condition its name, parameters and trimmed expression text)
    — in particular two renderings of one model that differ in whitespace, line breaks, optional
    tokens or redundant parentheses — yield the same `transform` result. -/
theorem doc_layout_invariant (d1 d2 : DocCst) (h1 : d1.wfB = true) (h2 : d2.wfB = true)
    (hc : d1.content = d2.content) : transform [] (DocCst.tree d1) = transform [] (DocCst.tree d2) :=
  Cst.doc_layout_invariant d1 d2 h1 h2 hc

/-- the result is a function of the content alone -/
theorem transform_content (d : DocCst) (hwf : d.wfB = true) :
    transform [] (DocCst.tree d) = .ok d.content.den.1 d.content.den.2 :=
  Cst.transform_doc d hwf

/-- the steps: one type definition (error-free case) … -/
theorem walk_typeDef (pe) (t : TypeDefCst) (st : LState) (hwf : t.wf = true)
    (hext : t.extend.isSome = true → st.isModular = true ∧
      ∃ exts, st.typeDefExtensions = some exts ∧ AList.contains t.name.text exts = false) :
    walk pe t.tree st = .ok (typeDefResult t st) :=
  Cst.walk_typeDef pe t st hwf hext

/-- … one type definition with the errors it logs … -/
theorem walk_typeDef_gen (pe) (t : TypeDefCst) (st : LState) (hb : t.bodiesWf = true)
    (hname : (t.name.text == "") = false)
    (hmap : t.extend.isSome = true → st.isModular = true → st.typeDefExtensions.isSome = true) :
    walk pe t.tree st = .ok (typeDefResultG t st) :=
  Cst.walk_typeDef_gen pe t st hb hname hmap

/-- … and one condition -/
theorem walk_condition (pe) (c : CondCst) (st : LState) (hnew : AList.contains c.name st.conds = false)
    (hwf : c.content.wf = true) : walk pe c.tree st = .ok (condResult c st) :=
  Cst.walk_condition pe c st hnew hwf

/-- … one condition with the errors it logs (no hypothesis: the walk never panics) -/
theorem walk_condition_gen (pe) (c : CondCst) (st : LState) :
    walk pe c.tree st = .ok { condResult c st with errors := st.errors ++ condErrs c st } :=
  Cst.walk_condition_gen pe c st

/-- **`wfB` is exactly the acceptance condition**: a grammatical document yields a model iff it is
    well formed -/
theorem transform_doc_ok_iff (d : DocCst) (hg : d.gramOk = true) :
    (∃ m x, transform [] (DocCst.tree d) = .ok m x) ↔ d.wfB = true :=
  Cst.transform_doc_ok_iff d hg

/-- an ill-formed grammatical document is rejected, with the non-empty error log of `docResultG` -/
theorem transform_doc_rejects (d : DocCst) (hg : d.gramOk = true) (hwf : d.wfB = false) :
    transform [] (DocCst.tree d) = .errors (docResultG d).errors ∧ (docResultG d).errors ≠ [] :=
  Cst.transform_doc_rejects d hg hwf

/-! ## non-vacuity: one model file in two layouts, and a module file with an `extend` -/

def idT (s : String) : Ident := ⟨true, "IDENTIFIER", s⟩
def restrUser : Restr := ⟨none, idT "user", .plain, none, none⟩
def restrUserC : Restr := ⟨none, idT "user", .plain, some (" ", " ", "c"), none⟩
def exprToks : List (String × String) :=
  [("IDENTIFIER", "x"), ("WHITESPACE", " "), ("LESS", "<"), ("WHITESPACE", " "), ("NUM_INT", "3")]

/-- ```
    model
      schema 1.1
    type user
    type document
      relations
        define viewer: [user with c] or editor
        define editor: [user]
    condition c(x: int, ys: list<string>) {
      x < 3
    }
    ```
    The token texts are the real ones: a NEWLINE token takes the indentation that follows it, and the
    line end after the expression is the last token of the expression. -/
def doc1 : DocCst :=
  { w0 := none, nl0 := none
    header := .model "\n  " " " "1.1" none
    nl1 := none
    types := [⟨"\n", none, " ", idT "user", none⟩,
              ⟨"\n", none, " ", idT "document", some ("\n  ",
                ⟨"\n    ", " ", idT "viewer", none, some " ",
                  .mk (.direct ⟨none, restrUserC, none, []⟩) (some (.mk .or (.one " " " " (.rw ⟨idT "editor", none⟩))))⟩,
                [⟨"\n    ", " ", idT "editor", none, some " ", .mk (.direct ⟨none, restrUser, none, []⟩) none⟩])⟩]
    nl2 := none
    conds := [{ nl0 := "\n", w1 := " ", name := "c", w2 := none, w3 := none,
                first := ⟨none, "x", none, some " ", .simple "int"⟩, w4 := none,
                rest := [(some " ", ⟨none, "ys", none, some " ", .container "list" "string"⟩, none)],
                nl1 := none, w5 := some " ", nl2 := some "\n  ", w6 := none,
                expr := exprToks ++ [("NEWLINE", "\n")], nl3 := none }]
    nl3 := some "\n" }

/-- the same model as the parser reads it from
    `"  \r\n\r\nmodel\r\n\tschema   1.1 \r\n\r\ntype  user\r\ntype document\r\n relations\r\n\r\n  define  viewer :( [\nuser with c\n ]) or ((editor) )\r\n  define editor  :  [ user ]\r\n\r\ncondition  c (  x :int,  ys :  list<string> ){ x < 3  \r\n\t}"`:
    leading blank space and blank lines, CRLF line ends, a trailing space after the schema version,
    spaces around colons, line breaks inside the restriction list, redundant parentheses, no final
    line end, trailing blanks after the expression -/
def doc2 : DocCst :=
  { w0 := none, nl0 := some "  \r\n\r\n"
    header := .model "\r\n\t" "   " "1.1" none
    nl1 := none
    types := [⟨" \r\n\r\n", none, "  ", idT "user", none⟩,
              ⟨"\r\n", none, " ", idT "document", some ("\r\n ",
                ⟨"\r\n\r\n  ", "  ", idT "viewer", some " ", none,
                  .mk (.recurse (.ofDef [" "] [] (.mk (.direct ⟨none, { restrUserC with pre := some "\n", post := some "\n " }, none, []⟩) none)))
                    (some (.mk .or (.one " " " " (.paren (.ofDef [] [" "]
                      (.mk (.paren (.ofDef [] [] (.mk (.rw ⟨idT "editor", none⟩) none))) none))))))⟩,
                [⟨"\r\n  ", " ", idT "editor", some "  ", some "  ",
                  .mk (.direct ⟨some " ", restrUser, some " ", []⟩) none⟩])⟩]
    nl2 := none
    conds := [{ nl0 := "\r\n\r\n", w1 := "  ", name := "c", w2 := some " ", w3 := some "  ",
                first := ⟨none, "x", some " ", none, .simple "int"⟩, w4 := none,
                rest := [(some "  ", ⟨none, "ys", some " ", some "  ", .container "list" "string"⟩, some " ")],
                nl1 := none, w5 := none, nl2 := none, w6 := some " ",
                expr := exprToks ++ [("NEWLINE", "  \r\n\t")], nl3 := none }]
    nl3 := none }

example : doc1.wfB = true := by decide
example : doc2.wfB = true := by decide
/-- the texts the two trees spell (`GetText()` of the root, hence with the `<EOF>` of the last token) -/
example : (DocCst.tree doc1).text =
    "model\n  schema 1.1\ntype user\ntype document\n  relations\n    define viewer: [user with c] or editor\n    define editor: [user]\ncondition c(x: int, ys: list<string>) {\n  x < 3\n}\n<EOF>" := by
  decide +kernel
example : (DocCst.tree doc2).text =
    "  \r\n\r\nmodel\r\n\tschema   1.1 \r\n\r\ntype  user\r\ntype document\r\n relations\r\n\r\n  define  viewer :( [\nuser with c\n ]) or ((editor) )\r\n  define editor  :  [ user ]\r\n\r\ncondition  c (  x :int,  ys :  list<string> ){ x < 3  \r\n\t}<EOF>" := by
  decide +kernel
/-- the two parse trees differ -/
example : (DocCst.tree doc1).text ≠ (DocCst.tree doc2).text := by decide
/-- … but not the content -/
theorem doc12_content : doc1.content = doc2.content := by rfl

/-- hence the same result (by the theorem) -/
example : transform [] (DocCst.tree doc1) = transform [] (DocCst.tree doc2) :=
  doc_layout_invariant doc1 doc2 (by decide) (by decide) doc12_content

/-- the model both layouts yield -/
def model12 : Model :=
  { schema := "1.1",
    types := [{ name := "user", relations := [], md := none },
              { name := "document",
                relations := [("editor", .this), ("viewer", .union [.this, .computed "editor"])],
                md := some { relations := [("editor", { restr := [{ type := "user" }] }),
                                           ("viewer", { restr := [{ type := "user", cond := "c" }] })] } }],
    conds := [("c", { name := "c", expr := "x < 3",
                      params := [("x", { typeName := "int" }), ("ys", { typeName := "list", generics := ["string"] })] })] }

/-- `String.map` does not reduce by `rfl`; the kernel evaluates it -/
theorem ptn_int : paramTypeName "int" = "int" := by decide +kernel
theorem ptn_list : paramTypeName "list" = "list" := by decide +kernel
theorem ptn_string : paramTypeName "string" = "string" := by decide +kernel

theorem doc1_den : DocCst.den doc1 = (model12, none) := by
  have h : DocCst.den doc1 =
      ({ schema := "1.1", types := model12.types,
         conds := [("c", { name := "c", expr := "x < 3",
                           params := [("x", { typeName := paramTypeName "int" }),
                                      ("ys", { typeName := paramTypeName "list",
                                               generics := [paramTypeName "string"] })] })] }, none) := by rfl
  rw [h, ptn_int, ptn_list, ptn_string]; rfl

example : transform [] (DocCst.tree doc1) = .ok model12 none := by
  rw [transform_doc doc1 (by decide), doc1_den]
example : transform [] (DocCst.tree doc2) = .ok model12 none := by
  rw [transform_doc doc2 (by decide), DocCst.den, ← doc12_content]; exact congrArg (fun p => Outcome.ok p.1 p.2) doc1_den

/-- a module file: ```
    module wiki
    extend type document
      relations
        define editor: [user]
    type page
    ``` -/
def modDoc : DocCst :=
  { w0 := none, nl0 := none
    header := .module " " "IDENTIFIER" "wiki" none
    nl1 := none
    types := [⟨"\n", some " ", " ", idT "document", some ("\n  ",
                ⟨"\n    ", " ", idT "editor", none, some " ", .mk (.direct ⟨none, restrUser, none, []⟩) none⟩, [])⟩,
              ⟨"\n", none, " ", idT "page", none⟩]
    nl2 := some "\n", conds := [], nl3 := none }

example : modDoc.wfB = true := by decide

example : transform [] (DocCst.tree modDoc) =
    .ok { schema := "",
          types := [{ name := "document", relations := [("editor", .this)],
                      md := some { relations := [("editor", { restr := [{ type := "user" }], module := "wiki" })],
                                   module := "wiki" } },
                    { name := "page", relations := [], md := some { relations := [], module := "wiki" } }],
          conds := [] }
        (some [("document", 0)]) := by
  rw [transform_doc modDoc (by decide)]; rfl

/-- `extend` in a model file is not well formed (and the listener logs an error for it) -/
example : ({ modDoc with header := .model "\n  " " " "1.1" none } : DocCst).wfB = false := by decide


/-- a relation declared twice and a repeated parameter: rejected with exactly these two errors -/
def badDoc : DocCst :=
  { doc1 with
    types := [⟨"\n", none, " ", idT "document", some ("\n  ",
                ⟨"\n    ", " ", idT "editor", none, some " ", .mk (.direct ⟨none, restrUser, none, []⟩) none⟩,
                [⟨"\n    ", " ", idT "editor", none, some " ", .mk (.rw ⟨idT "owner", none⟩) none⟩])⟩]
    conds := doc1.conds.map (fun c => { c with rest := [(some " ", ⟨none, "x", none, some " ", .simple "bool"⟩, none)] }) }

example : badDoc.gramOk = true ∧ badDoc.wfB = false := by decide

example : transform [] (DocCst.tree badDoc) =
    .errors [⟨0, 0, "'editor' is already defined in 'document'"⟩,
             ⟨0, 0, "parameter 'x' is already defined in the condition 'c'"⟩] := by
  rw [(transform_doc_rejects badDoc (by decide) (by decide)).1]; rfl

end FgaVerif.Props.C03Doc
