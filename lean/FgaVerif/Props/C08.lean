import FgaVerif.Proofs.NoPanic
import FgaVerif.Proofs.ErrLog
/-! # C08 — the DSL listener cannot panic on a scoped parse tree; a syntax error is never lost

    C08 is mostly a runtime property (no entry point panics or hangs on any byte string), decided by
    fuzzing under `recover()` and a watchdog.  The part of it that is logic — the listener's walk over
    whatever tree ANTLR hands it, including error-recovered trees — is modelled (`Model/Listener.lean`,
    panics explicit) and tied to the code by walking every real parse tree with the port.

    Proved here, for **every** tree (any shape, any size, error nodes anywhere):
    * `walk_no_panic` — if the tree is *scoped* (`Model/Scoped.lean`: callbacks that dereference the
      current condition / relation / type definition occur only below the node whose Enter callback
      sets it, a rewrite node carries its label, state-resetting nodes are not nested) the walk ends
      without a nil dereference, nil-map write or empty-stack access, from any state that satisfies
      the invariant — in particular from the initial state (`transform_no_panic`).
    * `syntax_error_is_reported` — whatever the tree, if ANTLR reported at least one error the
      transformation returns an error list, never a model (errors are only ever appended).

    `wellScoped` is decidable; the driver evaluates it on every real parse tree of the fuzzing stream,
    and the evidence counts the trees outside it (they remain covered by the differential check, not
    by the theorem).  Every tree derived by the grammar is scoped (the containment is the grammar's
    rule structure); that ANTLR's error recovery only produces scoped trees is not proved.

    Not proved: absence of panics in the printer, merger and graph builders (oracle: degenerate
    protobuf values under `recover()`), and every bound on running time. -/
namespace FgaVerif.Props.C08
open FgaVerif.Model FgaVerif.Model.Listener

theorem initial_state_invariant (errs : List SynErr) : SInv {} { errors := errs } :=
  ⟨fun h => by simp at h, fun _ td h => by simp at h, fun h => by simp at h, fun h => by simp at h,
   fun h => by simp at h⟩

theorem walk_no_panic (t : Tree) (h : wellScoped {} t = true) (errs : List SynErr) :
    ∃ st, walk none t { errors := errs } = .ok st := by
  obtain ⟨st, e, _, _⟩ := walk_scoped none t {} { errors := errs } h (initial_state_invariant errs)
  exact ⟨st, e⟩

theorem transform_no_panic (t : Tree) (h : wellScoped {} t = true) (errs : List SynErr) :
    ∀ p, transform errs t ≠ .panic p := by
  intro p hp
  obtain ⟨st, e⟩ := walk_no_panic t h errs
  unfold transform at hp
  rw [e] at hp
  simp only at hp
  split at hp <;> cases hp

/-- the invariant is available from any reachable state, not only the initial one: the walk of a
    scoped subtree keeps it, and inside a relation declaration restores the rewrite stack -/
theorem walk_keeps_invariant (pe : Option Bool) (t : Tree) (m : Mode) (st : LState)
    (h : wellScoped m t = true) (hI : SInv m st) :
    ∃ st', walk pe t st = .ok st' ∧ SInv m st' ∧ (m.inRel = true → st'.rewriteStack = st.rewriteStack) :=
  walk_scoped pe t m st h hI

theorem syntax_error_is_reported (errs : List SynErr) (t : Tree) (h : errs ≠ []) :
    ∀ m x, transform errs t ≠ .ok m x := by
  intro m x hm
  exact h (transform_ok_no_errors errs t m x hm).1

/-! ### non-vacuity: a scoped tree, and a tree that is not (a rewrite outside any relation) -/
def relTree : Tree :=
  .rule "typeDef" 3 0 [("typeName", 2)] [
    .tok "TYPE" "type" 3 0 false, .tok "WHITESPACE" " " 3 4 false,
    .rule "identifier" 3 5 [] [.tok "IDENTIFIER" "doc" 3 5 false],
    .rule "relationDeclaration" 5 4 [] [
      .tok "DEFINE" "define" 5 4 false,
      .rule "relationName" 5 11 [] [.tok "IDENTIFIER" "a" 5 11 false],
      .rule "relationDef" 5 14 [] [
        .rule "relationDefGrouping" 5 14 [] [
          .rule "relationDefRewrite" 5 14 [("rewriteComputedusersetName", 0)] [.tok "IDENTIFIER" "b" 5 14 false]]]]]

def strayRewrite : Tree := .rule "relationDefRewrite" 1 0 [("rewriteComputedusersetName", 0)] [.tok "IDENTIFIER" "b" 1 0 false]

example : wellScoped {} relTree = true := by decide
example : wellScoped {} strayRewrite = false := by decide
example : (match walk none strayRewrite {} with | .error _ => true | .ok _ => false) = true := by decide

end FgaVerif.Props.C08
