import FgaVerif.Proofs.SortByModule
import FgaVerif.Proofs.CommentInert
/-!
# C14 — DSL output is canonical and source-info comments are inert

About the printer port (tied to the real printer by correspondence for both values of the
source-information option, on generated plain and modular models whose module, file and name orders are
drawn independently).  In the port, Go maps are key-sorted association lists, so "independent of map
iteration / JSON key order" holds by construction of the model and is what the correspondence checks of
the code (shuffled JSON keys, repeated calls).  Proved here, for **all** models:

* `sortByModule_total_preorder` — the comparator is total and transitive, and two items that are each ≤
  the other have the same name: unattributed items first, then by module, file, name — the documented order;
* `types_order_invariant` — for a modular model whose type names are distinct, the order in which the type
  definitions are printed, and hence the whole output for both option values, does not depend on the order
  of the type definitions in the input;
* `types_printed_sorted`, `relations_printed_sorted` — the printed order *is* sorted by that comparator
  (resp. by name for plain models).

* `source_comments_inert` (proof in `Proofs/CommentInert.lean`) — comment inertness: for every model
  satisfying the decidable hypothesis `cleanB`, printing with and without source information fails with the
  same error, or both succeed and `stripComments (print true m) = print false m`, where `stripComments` is
  the oracle's `strip` (split on line breaks; a line containing " #" is cut at its FIRST " #" and right-trimmed
  of blanks; other lines untouched; join).  `verdict_independent_of_option` is the hypothesis-free half (same
  error or two successes, for all models).  `cleanB` asks that no printed piece other than a module / file
  name (schema, type / relation / condition / parameter names and types, restriction fields, computed and
  tupleset names, condition expression) contains " #" or starts with `#`, and that the text in front of a
  comment that is actually written (type name; the operands of a relation definition) is not empty and does
  not end in a blank.  Blanks, `#` and even line breaks inside names are allowed; module and file names are
  arbitrary (the printer writes a blank for their line breaks, `Printer.oneLine`; they may contain " #");
  condition expressions may span lines.  The hypothesis is needed: `Proofs/CommentInert.lean` carries
  evaluated counterexamples (a condition expression containing " #"; a type name that is empty or ends in a
  blank, with source information; a name starting with `#`; a restriction `#rel` with an empty type) — for
  those inputs the oracle's clause is false of the real printer as well, so generators must avoid them.
  `cleanB` is slightly stronger than necessary in three places (noted at its definition).

The oracle still checks the clause on the real code on every run, together with "both parse to the same
model"; the correspondence check ties the port to the real printer for both option values.
-/
namespace FgaVerif.Props.C14
open FgaVerif FgaVerif.Model FgaVerif.Model.Printer

def keyOfType (t : TypeDef) : Key := ⟨t.name, typeModule t, typeFile t⟩
def typeLe (a b : TypeDef) : Bool :=
  sortByModuleLe a.name b.name (typeModule a) (typeModule b) (typeFile a) (typeFile b)

theorem typeLe_eq (a b : TypeDef) : typeLe a b = keyLe (keyOfType a) (keyOfType b) := rfl

/-- the comparator is a total preorder whose ties share the name -/
theorem sortByModule_total_preorder :
    (∀ a b : Key, keyLe a b = true ∨ keyLe b a = true) ∧
    (∀ a b c : Key, keyLe a b = true → keyLe b c = true → keyLe a c = true) ∧
    (∀ a b : Key, keyLe a b = true → keyLe b a = true → a.name = b.name) :=
  ⟨keyLe_total, keyLe_trans, keyLe_antisymm_name⟩

theorem orderedTypes_eq (m : Model) :
    orderedTypes m = if m.types.any (fun t => typeModule t != "") then insertionSort typeLe m.types else m.types := rfl

theorem typeLe_total (a b : TypeDef) : typeLe a b = true ∨ typeLe b a = true :=
  keyLe_total (keyOfType a) (keyOfType b)
theorem typeLe_trans (a b c : TypeDef) (h1 : typeLe a b = true) (h2 : typeLe b c = true) : typeLe a c = true :=
  keyLe_trans (keyOfType a) (keyOfType b) (keyOfType c) h1 h2

theorem nodup_map_inj (ts : List TypeDef) (hnd : (ts.map (·.name)).Nodup) (a b : TypeDef) (ha : a ∈ ts) (hb : b ∈ ts)
    (hn : a.name = b.name) : a = b := by
  induction ts with
  | nil => cases ha
  | cons t ts ih =>
    simp only [List.map_cons, List.nodup_cons, List.mem_map, not_exists, not_and] at hnd
    rcases List.mem_cons.1 ha with rfl | ha' <;> rcases List.mem_cons.1 hb with rfl | hb'
    · rfl
    · exact absurd hn.symm (hnd.1 b hb')
    · exact absurd hn (hnd.1 a ha')
    · exact ih hnd.2 ha' hb'

/-- distinct names make the comparator antisymmetric on the type definitions present -/
theorem typeLe_antisymm_on (ts : List TypeDef) (hnd : (ts.map (·.name)).Nodup) (a b : TypeDef) (ha : a ∈ ts) (hb : b ∈ ts)
    (h1 : typeLe a b = true) (h2 : typeLe b a = true) : a = b := by
  have hn : a.name = b.name := keyLe_antisymm_name (keyOfType a) (keyOfType b) h1 h2
  exact nodup_map_inj ts hnd a b ha hb hn

/-- **the printed order of the type definitions of a modular model does not depend on their input order** -/
theorem types_order_invariant (m m' : Model) (hp : m.types.Perm m'.types)
    (hnd : (m.types.map (·.name)).Nodup) (hmod : m.types.any (fun t => typeModule t != "") = true) :
    orderedTypes m = orderedTypes m' := by
  have hmod' : m'.types.any (fun t => typeModule t != "") = true := by
    rw [List.any_eq_true] at hmod ⊢
    obtain ⟨t, ht, h⟩ := hmod
    exact ⟨t, hp.mem_iff.1 ht, h⟩
  rw [orderedTypes_eq, orderedTypes_eq, hmod, hmod']
  simp only [if_true]
  exact insertionSort_perm_invariant typeLe typeLe_total typeLe_trans
    m.types m'.types hp (typeLe_antisymm_on m.types hnd)

/-- … hence the whole DSL text, for both values of the source-information option -/
theorem output_invariant_under_type_order (m m' : Model) (hp : m.types.Perm m'.types)
    (hnd : (m.types.map (·.name)).Nodup) (hmod : m.types.any (fun t => typeModule t != "") = true)
    (hs : m.schema = m'.schema) (hc : m.conds = m'.conds) (src : Bool) :
    transform m src = transform m' src := by
  have hmod' : m'.types.any (fun t => typeModule t != "") = true := by
    rw [List.any_eq_true] at hmod ⊢
    obtain ⟨t, ht, h⟩ := hmod
    exact ⟨t, hp.mem_iff.1 ht, h⟩
  unfold transform
  rw [types_order_invariant m m' hp hnd hmod, hmod, hmod', hs, hc]

/-- the types of a modular model are printed in the documented order -/
theorem types_printed_sorted (m : Model) (hmod : m.types.any (fun t => typeModule t != "") = true) :
    List.Pairwise (fun a b => typeLe a b = true) (orderedTypes m) := by
  rw [orderedTypes_eq, hmod]
  exact insertionSort_sorted typeLe typeLe_total typeLe_trans m.types

/-- the relations of a plain type are printed in name order -/
theorem relations_printed_sorted (names : List String) :
    List.Pairwise (fun a b => decide (a ≤ b) = true) (insertionSort (fun a b => decide (a ≤ b)) names) :=
  insertionSort_sorted _ (fun a b => by rcases String.le_total a b with h | h <;> simp [h])
    (fun a b c h1 h2 => by simp only [decide_eq_true_eq] at *; exact String.le_trans h1 h2) names

/-! ## non-vacuity: module, file and name orders disagree -/
def tA : TypeDef := { name := "z", md := some { module := "core", file := "a.fga" } }
def tB : TypeDef := { name := "a", md := some { module := "core", file := "b.fga" } }
def tC : TypeDef := { name := "m", md := none }
example : (orderedTypes { types := [tA, tB, tC] }).map (·.name) = ["m", "z", "a"] := by decide
example : (orderedTypes { types := [tB, tC, tA] }).map (·.name) = ["m", "z", "a"] := by decide

/-! ## source-information comments are inert -/
open FgaVerif.Proofs.CommentInert in
/-- **Asking for source information only appends comments**: for a model satisfying `cleanB` (no printed
    piece other than a module / file name contains " #" or starts with `#`; the text in front of a written
    comment is not empty and does not end in a blank), the two runs fail with the same error, or both
    succeed and stripping the comments from the output with source information gives the plain output. -/
theorem source_comments_inert (m : Model) (h : cleanB m = true) :
    (∃ e, transform m true = .error e ∧ transform m false = .error e) ∨
    (∃ s p, transform m true = .ok s ∧ transform m false = .ok p ∧ stripComments s = p) :=
  comments_inert m h

open FgaVerif.Proofs.CommentInert in
/-- … as a function of the successful output -/
theorem plain_is_stripped_source (m : Model) (h : cleanB m = true) (s : String) (hs : transform m true = .ok s) :
    transform m false = .ok (stripComments s) :=
  plain_eq_strip m h s hs

/-- whether printing succeeds, and with which error it fails, never depends on the option (all models) -/
theorem verdict_independent_of_option (m : Model) :
    (∃ e, transform m true = .error e ∧ transform m false = .error e) ∨
    (∃ s p, transform m true = .ok s ∧ transform m false = .ok p) :=
  FgaVerif.Proofs.CommentInert.same_verdict m

/-! ### non-vacuity: a modular model with a type, a relation and a condition; all three kinds of comment
    are written, so the two outputs differ, and the hypothesis holds -/
def mSrc : Model :=
  { schema := "1.2",
    types := [{ name := "document",
                relations := [("viewer", .union [.this, .computed "owner"])],
                md := some { module := "core", file := "core.fga",
                             relations := [("viewer", { restr := [⟨"user", "", false, ""⟩, ⟨"group", "member", false, "in_office"⟩],
                                                        module := "sharing", file := "a b.fga" })] } }],
    conds := [("in_office", { name := "in_office", expr := "ip.in_cidr(\"10.0.0.0/8\") &&\n  hour < 18",
                              params := [("ip", { typeName := "ipaddress" }), ("hour", { typeName := "int" })],
                              md := some { module := "core", file := "conds\n.fga" } })] }

example : FgaVerif.Proofs.CommentInert.cleanB mSrc = true := by decide +kernel
example : (transform mSrc true).toOption = some
    "model\n  schema 1.2\n\ntype document # module: core, file: core.fga\n  relations\n    define viewer: [user, group#member with in_office] or owner # extended by: module: sharing, file: a b.fga\n\ncondition in_office(hour: int, ip: ipaddress) {\n  ip.in_cidr(\"10.0.0.0/8\") &&\n  hour < 18\n} # module: core, file: conds .fga\n" := by
  decide +kernel
example : (transform mSrc false).toOption = some
    "model\n  schema 1.2\n\ntype document\n  relations\n    define viewer: [user, group#member with in_office] or owner\n\ncondition in_office(hour: int, ip: ipaddress) {\n  ip.in_cidr(\"10.0.0.0/8\") &&\n  hour < 18\n}\n" := by
  decide +kernel
example : (transform mSrc true).toOption ≠ (transform mSrc false).toOption := by decide +kernel
example : transform mSrc true ≠ transform mSrc false := fun h =>
  absurd (congrArg Except.toOption h) (by decide +kernel)

end FgaVerif.Props.C14
