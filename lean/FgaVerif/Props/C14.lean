import FgaVerif.Proofs.SortByModule
/-!
# C14 — DSL output is canonical and source-info comments are inert

About the printer port (tied to the real printer by correspondence for both values of the
source-information option, on generated plain and modular models whose module, file and name orders are
drawn independently).  In the port, Go maps are key-sorted association lists, so "independent of map
iteration / JSON key order" holds by construction of the model and is what the correspondence checks of
the code (shuffled JSON keys, repeated calls).  Proved here, for **all** models:

* `sortByModule_total_preorder` — the comparator is total and transitive, and two items that are each ≤
  the other have the same name: unattributed items first, then by module, file, name — the documented order;
* `types_order_invariant` — for a modular model whose type names are distinct, the order in which the type
  definitions are printed, and hence the whole output for both option values, does not depend on the order
  of the type definitions in the input;
* `types_printed_sorted`, `relations_printed_sorted` — the printed order *is* sorted by that comparator
  (resp. by name for plain models).

Not proved: `strip (print true m) = print false m` (comment inertness) — a string-level statement about the
first " #" of every line; it is checked by the oracle on the real code on every run, together with "both
parse to the same model".  Its former excluded point (a module/file name containing a line break) was
repaired in /repo (the comment writes a blank for it; `Printer.oneLine`).
-/
namespace FgaVerif.Props.C14
open FgaVerif FgaVerif.Model FgaVerif.Model.Printer

def keyOfType (t : TypeDef) : Key := ⟨t.name, typeModule t, typeFile t⟩
def typeLe (a b : TypeDef) : Bool :=
  sortByModuleLe a.name b.name (typeModule a) (typeModule b) (typeFile a) (typeFile b)

theorem typeLe_eq (a b : TypeDef) : typeLe a b = keyLe (keyOfType a) (keyOfType b) := rfl

/-- the comparator is a total preorder whose ties share the name -/
theorem sortByModule_total_preorder :
    (∀ a b : Key, keyLe a b = true ∨ keyLe b a = true) ∧
    (∀ a b c : Key, keyLe a b = true → keyLe b c = true → keyLe a c = true) ∧
    (∀ a b : Key, keyLe a b = true → keyLe b a = true → a.name = b.name) :=
  ⟨keyLe_total, keyLe_trans, keyLe_antisymm_name⟩

theorem orderedTypes_eq (m : Model) :
    orderedTypes m = if m.types.any (fun t => typeModule t != "") then insertionSort typeLe m.types else m.types := rfl

theorem typeLe_total (a b : TypeDef) : typeLe a b = true ∨ typeLe b a = true :=
  keyLe_total (keyOfType a) (keyOfType b)
theorem typeLe_trans (a b c : TypeDef) (h1 : typeLe a b = true) (h2 : typeLe b c = true) : typeLe a c = true :=
  keyLe_trans (keyOfType a) (keyOfType b) (keyOfType c) h1 h2

theorem nodup_map_inj (ts : List TypeDef) (hnd : (ts.map (·.name)).Nodup) (a b : TypeDef) (ha : a ∈ ts) (hb : b ∈ ts)
    (hn : a.name = b.name) : a = b := by
  induction ts with
  | nil => cases ha
  | cons t ts ih =>
    simp only [List.map_cons, List.nodup_cons, List.mem_map, not_exists, not_and] at hnd
    rcases List.mem_cons.1 ha with rfl | ha' <;> rcases List.mem_cons.1 hb with rfl | hb'
    · rfl
    · exact absurd hn.symm (hnd.1 b hb')
    · exact absurd hn (hnd.1 a ha')
    · exact ih hnd.2 ha' hb'

/-- distinct names make the comparator antisymmetric on the type definitions present -/
theorem typeLe_antisymm_on (ts : List TypeDef) (hnd : (ts.map (·.name)).Nodup) (a b : TypeDef) (ha : a ∈ ts) (hb : b ∈ ts)
    (h1 : typeLe a b = true) (h2 : typeLe b a = true) : a = b := by
  have hn : a.name = b.name := keyLe_antisymm_name (keyOfType a) (keyOfType b) h1 h2
  exact nodup_map_inj ts hnd a b ha hb hn

/-- **the printed order of the type definitions of a modular model does not depend on their input order** -/
theorem types_order_invariant (m m' : Model) (hp : m.types.Perm m'.types)
    (hnd : (m.types.map (·.name)).Nodup) (hmod : m.types.any (fun t => typeModule t != "") = true) :
    orderedTypes m = orderedTypes m' := by
  have hmod' : m'.types.any (fun t => typeModule t != "") = true := by
    rw [List.any_eq_true] at hmod ⊢
    obtain ⟨t, ht, h⟩ := hmod
    exact ⟨t, hp.mem_iff.1 ht, h⟩
  rw [orderedTypes_eq, orderedTypes_eq, hmod, hmod']
  simp only [if_true]
  exact insertionSort_perm_invariant typeLe typeLe_total typeLe_trans
    m.types m'.types hp (typeLe_antisymm_on m.types hnd)

/-- … hence the whole DSL text, for both values of the source-information option -/
theorem output_invariant_under_type_order (m m' : Model) (hp : m.types.Perm m'.types)
    (hnd : (m.types.map (·.name)).Nodup) (hmod : m.types.any (fun t => typeModule t != "") = true)
    (hs : m.schema = m'.schema) (hc : m.conds = m'.conds) (src : Bool) :
    transform m src = transform m' src := by
  have hmod' : m'.types.any (fun t => typeModule t != "") = true := by
    rw [List.any_eq_true] at hmod ⊢
    obtain ⟨t, ht, h⟩ := hmod
    exact ⟨t, hp.mem_iff.1 ht, h⟩
  unfold transform
  rw [types_order_invariant m m' hp hnd hmod, hmod, hmod', hs, hc]

/-- the types of a modular model are printed in the documented order -/
theorem types_printed_sorted (m : Model) (hmod : m.types.any (fun t => typeModule t != "") = true) :
    List.Pairwise (fun a b => typeLe a b = true) (orderedTypes m) := by
  rw [orderedTypes_eq, hmod]
  exact insertionSort_sorted typeLe typeLe_total typeLe_trans m.types

/-- the relations of a plain type are printed in name order -/
theorem relations_printed_sorted (names : List String) :
    List.Pairwise (fun a b => decide (a ≤ b) = true) (insertionSort (fun a b => decide (a ≤ b)) names) :=
  insertionSort_sorted _ (fun a b => by rcases String.le_total a b with h | h <;> simp [h])
    (fun a b c h1 h2 => by simp only [decide_eq_true_eq] at *; exact String.le_trans h1 h2) names

/-! ## non-vacuity: module, file and name orders disagree -/
def tA : TypeDef := { name := "z", md := some { module := "core", file := "a.fga" } }
def tB : TypeDef := { name := "a", md := some { module := "core", file := "b.fga" } }
def tC : TypeDef := { name := "m", md := none }
example : (orderedTypes { types := [tA, tB, tC] }).map (·.name) = ["m", "z", "a"] := by decide
example : (orderedTypes { types := [tB, tC, tA] }).map (·.name) = ["m", "z", "a"] := by decide

end FgaVerif.Props.C14
