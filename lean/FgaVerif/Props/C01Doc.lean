import FgaVerif.Proofs.PrintDoc
import FgaVerif.Props.C03Doc
/-!
# C01 / C02, whole models — the printed text of a model is a document that reads back as the normalised model

`Props/C02.lean` (section PrintedText) proves, for **one relation**, that the line the printer port produces is
literally the source text of a well-formed `relationDeclaration` tree denoting `norm u`.  Here this is lifted to
**whole models**: through `parseRelations`, `parseType`, `parseTypes`, `parseCondition(s)` and `transform`
(`Model/Printer.lean`) on the printer side, and to the document CST `DocCst` of `Model/CstDoc.lean` (for which
`Props/C03Doc.transform_doc` says that the listener returns exactly `DocCst.den`) on the parser side.

**Scope.** The plain option (`src = false`: no source comments) and **non-modular** models
(`nonModular m`: no type definition carries a module name, so `transform` prints the types in model order and
the relations of a type sorted by name).  Modular models / `src = true` make the printer emit `# module: …`
comments, which the comment pre-pass removes before parsing; that case is not treated.

**Statement** (`printed_model_is_document`, `print_then_walk`).  For every non-modular model `m` with
`printable m` (below), if `Printer.transform m false = .ok s` then

* `toDocCst m = some d` — the document CST in exactly the printer's layout: header `model`, NEWLINE `"\n  "`,
  `schema`, one blank, the version; every type `"\n\n"` (one NEWLINE token: the lexer's NEWLINE absorbs consecutive
  line ends and the indentation that follows) `type NAME`, then `"\n  "` `relations` and the declarations, each
  `"\n    "` `define NAME: BODY` with `BODY` the tree `toCst` of `Proofs/PrintCst.lean`; every condition `"\n\n"`
  `condition NAME(P: T, …) {` `"\n  "` EXPR `"\n"` `}` (the line end before `}` is the last token of
  `conditionExpression`, as the real parser builds it; the expression text itself is one pseudo-token — how the
  lexer cuts it is irrelevant to `Tree.text` and to the listener); the final line end is the first of `main`'s
  optional NEWLINEs that can take it;
* `(DocCst.tree d).text = s ++ "<EOF>"` — the token texts of the parse tree concatenate to *literally* the
  printed string (`GetText()` of the root includes the text of the EOF token);
* `d.wfB = true` and `DocCst.den d = (normModel m, none)`; hence
  `Listener.transform [] (DocCst.tree d) = .ok (normModel m) none`: **walking the parse tree of the printed text
  yields the normalised model.**

`normModel m` is what the informal property says the round trip gives: schema kept; types in order; every relation
bound to `norm u` (first direct assignment hoisted to the front of its union/intersection, one-operand
unions/intersections collapsed, recursively); per relation the type restrictions kept iff the rewrite contains a
direct assignment, else dropped, and module/file information dropped; type metadata absent for a type without
relations and present otherwise (absent-vs-empty metadata); conditions with parameters as a map (parameter type
names through the listener's enum lookup `paramTypeName`, the identity on the DSL type names; the first generic
type of `list`/`map`), the expression right-trimmed (`trimRightWs`), no condition metadata.  The relation /
parameter / condition maps are re-keyed with `AList.ofList`: the printer sorts by name, the listener inserts in
text order, and for pairwise distinct keys the order of insertion is irrelevant (`insertAll_perm`); on a
key-sorted list the re-keying is the identity (`ofList_sorted`).

`printable m` demands (one decidable predicate): every type has a non-empty name, pairwise distinct relation
names, and for each relation *with a direct assignment* a non-empty list of well-formed restrictions (`rsOk`,
both parts necessary already for one relation: KF-C02-empty-restrictions and `type:*#rel`); condition names
pairwise distinct; every condition has at least one parameter (the grammar has no empty parameter list) and pairwise
distinct parameter names.  That printing succeeds is a separate hypothesis (it excludes unset usersets, operators
without operands, a direct assignment that cannot be placed first, a condition stored under a different key,
a `list`/`map` parameter without generic type).

**Fixed point** (`normModel_den`, `normModel_idem_of_printed`, `norm_idem_of_printed`).  The model a well-formed
*model file* denotes — i.e. everything `Listener.transform` returns for such a document — is a fixed point of
`normModel` (given the lexical fact `docContainersOk`: a CONDITION_PARAM_CONTAINER token reads `list` or `map`);
so `normModel (normModel m) = normModel m` for every printable model, and `norm (norm u) = norm u` for every
printed rewrite.  `norm` is *not* idempotent on arbitrary rewrites (`norm_not_idempotent`).

**Not proved.**  That the real lexer and parser read the text `s` back as `DocCst.tree d` (up to positions) — in
particular that every printed name is lexically a name, and that ANTLR resolves the optional NEWLINEs of `main` and
the `conditionExpression` loop as `toDocCst` does.  That link is checked by correspondence with the real parser and
with the lexer / parser models (`Props/Front.lean`) on every run.  Modular models and the source-comment option.
-/
namespace FgaVerif.Props.C01Doc
open FgaVerif.Model FgaVerif.Model.Cst FgaVerif.Model.PrintCst FgaVerif.Model.PrintDoc

/-- what a relation must satisfy (the side condition of `C02.printed_relation_is_declaration`) -/
theorem relPrintable_iff (md : Option TypeMeta) (p : String × Userset) :
    relPrintable md p = true ↔ (countThis p.2 = 0 ∨ rsOk (Printer.relMetaOf md p.1).restr = true) := by
  simp [relPrintable]

/-- `printable` spelled out -/
theorem printable_iff (m : Model) :
    printable m = true ↔
      (∀ t ∈ m.types, t.name ≠ "" ∧ (AList.keys t.relations).Nodup ∧
        ∀ p ∈ t.relations, countThis p.2 = 0 ∨ rsOk (Printer.relMetaOf t.md p.1).restr = true) ∧
      (AList.keys m.conds).Nodup ∧
      (∀ p ∈ m.conds, p.2.params ≠ [] ∧ (AList.keys p.2.params).Nodup) := by
  simp only [printable, typePrintable, condPrintable, Bool.and_eq_true, List.all_eq_true, nodupB_iff, relPrintable_iff,
    bne_iff_ne, ne_eq, Bool.not_eq_true', List.isEmpty_eq_false_iff, and_assoc]

/-- **The printed text of a printable non-modular model is the source text of a well-formed document CST that
    denotes the normalised model.** -/
theorem printed_model_is_document (m : Model) (s : String) (hnm : nonModular m = true) (hp : printable m = true)
    (h : Printer.transform m false = .ok s) :
    ∃ d, toDocCst m = some d ∧ (DocCst.tree d).text = s ++ "<EOF>" ∧ d.wfB = true ∧ DocCst.den d = (normModel m, none) :=
  PrintDoc.printed_model_is_document m s hnm hp h

/-- **Printing a printable non-modular model and walking the parse tree of the printed text yields the
    normalised model** (`C03Doc.transform_doc` applied to the document of `printed_model_is_document`). -/
theorem print_then_walk (m : Model) (s : String) (hnm : nonModular m = true) (hp : printable m = true)
    (h : Printer.transform m false = .ok s) :
    ∃ d, toDocCst m = some d ∧ (DocCst.tree d).text = s ++ "<EOF>" ∧
      Listener.transform [] (DocCst.tree d) = .ok (normModel m) none :=
  PrintDoc.print_then_walk m s hnm hp h

/-- the same for a real parse tree `t` (with positions) whose position-erased form is the tree of `toDocCst m` -/
theorem print_then_walk_real (m : Model) (s : String) (hnm : nonModular m = true) (hp : printable m = true)
    (h : Printer.transform m false = .ok s) (t : Tree) (d : DocCst) (hd : toDocCst m = some d)
    (ht : erasePos t = DocCst.tree d) : Listener.transform [] t = .ok (normModel m) none := by
  obtain ⟨d', hd', _, hwf, hden⟩ := PrintDoc.printed_model_is_document m s hnm hp h
  rw [hd] at hd'
  cases hd'
  rw [C03Doc.transform_real_doc t d hwf ht, hden]

/-- the order in which a map with distinct keys is filled is irrelevant (the printer sorts, the listener inserts
    in text order) -/
theorem insert_order_irrelevant {α : Type} {xs ys : List (String × α)} (hp : xs.Perm ys) (hnd : (xs.map (·.1)).Nodup) :
    AList.ofList xs = AList.ofList ys := by
  rw [ofList_eq, ofList_eq, insertAll_perm hp hnd]

/-- re-keying a key-sorted association list is the identity -/
theorem ofList_sorted {α : Type} (m : List (String × α)) (h : AList.SortedKeys m) : AList.ofList m = m :=
  PrintDoc.ofList_sorted m h

/-- what a well-formed relation body denotes is a fixed point of `norm`, and it declares restrictions exactly
    when it contains a direct assignment -/
theorem def_normal (d : Def) (hd : d.wf = true) :
    norm (Def.den d) = Def.den d ∧ (countThis (Def.den d) = 0 ↔ Def.restr d = none) :=
  PrintDoc.def_normal d hd

/-- `norm` is idempotent on every printed rewrite -/
theorem norm_idem_of_printed (ty rel : String) (u : Userset) (md : RelMeta) (line : String)
    (h : Printer.parseRelation ty rel u md false = .ok line) (hrs : countThis u = 0 ∨ rsOk md.restr = true) :
    norm (norm u) = norm u :=
  PrintDoc.norm_idem_of_printed ty rel u md line h hrs

/-- … but not on arbitrary rewrites: `a or ([…])` (not printable: nesting error) normalises to `a or […]`, and
    that to `[…] or a` -/
theorem norm_not_idempotent :
    norm (.union [.computed "a", .union [.this]]) = .union [.computed "a", .this] ∧
    norm (.union [.computed "a", .this]) = .union [.this, .computed "a"] := ⟨by rfl, by rfl⟩

/-- **`normModel` is the identity on the image of the listener**: the model a well-formed model file denotes
    (what `Listener.transform` returns for it) is normal -/
theorem normModel_den (d : DocCst) (hwf : d.wfB = true) (hm : d.content.header.isModular = false)
    (hlex : docContainersOk d = true) : normModel (DocCst.den d).1 = (DocCst.den d).1 :=
  PrintDoc.normModel_den d hwf hm hlex

/-- `normModel` is idempotent on printable models -/
theorem normModel_idem_of_printed (m : Model) (s : String) (hnm : nonModular m = true) (hp : printable m = true)
    (h : Printer.transform m false = .ok s) : normModel (normModel m) = normModel m :=
  PrintDoc.normModel_idem_of_printed m s hnm hp h

/-! ## non-vacuity -/

/-- two types, one with three relations — a union whose direct assignment is not in first position and which
    nests an intersection; a one-operand union; a relation without direct assignment that carries restrictions —
    an empty (not absent) metadata on the relation-less type, and a condition with two parameters and trailing
    blanks in its expression -/
def exModel : Model :=
  { schema := "1.1",
    types := [
      { name := "user", relations := [], md := some {} },
      { name := "document",
        relations := [("editor", .union [.this]),
                      ("owner", .computed "editor"),
                      ("viewer", .union [.inter [.computed "editor", .ttu "parent" "owner"], .this])],
        md := some { relations := [("editor", { restr := [{ type := "user", cond := "c" }] }),
                                   ("owner", { restr := [{ type := "user" }] }),
                                   ("viewer", { restr := [{ type := "user" }, { type := "group", rel := "member" },
                                                          { type := "user", wildcard := true }] })] } }],
    conds := [("c", { name := "c", expr := "x < 3 && ys.size() > 0  ",
                      params := [("x", { typeName := "int" }), ("ys", { typeName := "list", generics := ["string"] })] })] }

example : nonModular exModel = true := by decide
example : printable exModel = true := by decide

/-- the printed text, literally -/
def exText : String :=
  "model\n  schema 1.1\n\ntype user\n\ntype document\n  relations\n    define editor: [user with c]\n    define owner: editor\n    define viewer: [user, group#member, user:*] or (editor and owner from parent)\n\ncondition c(x: int, ys: list<string>) {\n  x < 3 && ys.size() > 0  \n}\n"

/-- `Except` has no `DecidableEq`; compare through the success value -/
theorem ok_of_text (e : Except Printer.PrintErr String) (t : String)
    (h : (match e with | .ok s => decide (s = t) | .error _ => false) = true) : e = .ok t := by
  cases e with
  | ok s => simp only [decide_eq_true_eq] at h; rw [h]
  | error _ => cases h

theorem ex_printed : Printer.transform exModel false = .ok exText := ok_of_text _ _ (by decide +kernel)

example : (toDocCst exModel).isSome = true := by decide

/-- what the round trip yields: the direct assignment of `viewer` hoisted, the one-operand union of `editor`
    collapsed, the restrictions of `owner` dropped, no metadata on `user`, the expression trimmed -/
def exNorm : Model :=
  { schema := "1.1",
    types := [
      { name := "user", relations := [], md := none },
      { name := "document",
        relations := [("editor", .this),
                      ("owner", .computed "editor"),
                      ("viewer", .union [.this, .inter [.computed "editor", .ttu "parent" "owner"]])],
        md := some { relations := [("editor", { restr := [{ type := "user", cond := "c" }] }),
                                   ("owner", { restr := [] }),
                                   ("viewer", { restr := [{ type := "user" }, { type := "group", rel := "member" },
                                                          { type := "user", wildcard := true }] })] } }],
    conds := [("c", { name := "c", expr := "x < 3 && ys.size() > 0",
                      params := [("x", { typeName := "int" }), ("ys", { typeName := "list", generics := ["string"] })] })] }

theorem ex_normModel : normModel exModel = exNorm := by
  have h : normModel exModel =
      { schema := "1.1", types := exNorm.types,
        conds := [("c", { name := "c", expr := Listener.trimRightWs "x < 3 && ys.size() > 0  ",
                          params := [("x", { typeName := Listener.paramTypeName "int" }),
                                     ("ys", { typeName := Listener.paramTypeName "list",
                                              generics := [Listener.paramTypeName "string"] })] })] } := by rfl
  rw [h, C03Doc.ptn_int, C03Doc.ptn_list, C03Doc.ptn_string]
  have ht : Listener.trimRightWs "x < 3 && ys.size() > 0  " = "x < 3 && ys.size() > 0" := by decide +kernel
  rw [ht]; rfl

/-- walking the parse tree of the printed text gives the normalised model (by the theorem) -/
example : ∃ d, toDocCst exModel = some d ∧ (DocCst.tree d).text = exText ++ "<EOF>" ∧
    Listener.transform [] (DocCst.tree d) = .ok exNorm none := by
  have := print_then_walk exModel exText (by decide) (by decide) ex_printed
  rwa [ex_normModel] at this

/-- … which is not the model that was printed -/
example : normModel exModel ≠ exModel := by
  rw [ex_normModel]
  intro h
  have := congrArg (fun m => m.types.map (fun t => t.md.isSome)) h
  revert this
  decide

/-- `printable` is needed: a relation declared twice is printed (twice) but is no well-formed document -/
example : printable { schema := "1.1", types := [{ name := "t", relations := [("r", .computed "a"), ("r", .computed "b")] }] } = false := by
  decide

/-- … a direct assignment without restrictions is printed `[]`, the text of no tree -/
example : printable { schema := "1.1", types := [{ name := "t", relations := [("r", .this)] }] } = false ∧
    toDocCst { schema := "1.1", types := [{ name := "t", relations := [("r", .this)] }] } = none := by
  constructor
  · decide
  · rfl

/-- … and so is a condition without parameters (`condition c() {…}` is not grammatical) -/
example : printable { schema := "1.1", conds := [("c", { name := "c", expr := "true" })] } = false ∧
    Printer.transform { schema := "1.1", conds := [("c", { name := "c", expr := "true" })] } false =
      .ok "model\n  schema 1.1\n\ncondition c() {\n  true\n}\n" := by
  constructor
  · decide
  · exact ok_of_text _ _ (by decide +kernel)

end FgaVerif.Props.C01Doc
