import FgaVerif.Proofs.ParserImage
import FgaVerif.Props.C02
import FgaVerif.Props.C03
/-!
# C01 — DSL → model → DSL → model is the identity on every accepted DSL document

The round trip has three steps: *text → parse tree* (ANTLR), *parse tree → model* (the listener), *model →
text* (the printer).  Proved here, for **every** typed CST of a relation declaration (all rewrite shapes,
nesting depths, layouts, redundant parentheses, keyword tokens as names, restrictions with wildcards,
usersets and conditions):

* `parse_side` — the listener records exactly the denotation of the CST (`Proofs/Listener.lean`);
* `render_always_succeeds` — **rendering the resulting model back to DSL always succeeds**: the
  denotation of any CST is DSL-expressible (no unset userset, at most one direct assignment and on the
  first path), so by C02's `print_ok_iff_expressible` the printer returns text, never an error.  This
  is the clause that was false before the `fix:` commit "DSL printer recognises a direct assignment by
  its oneof case" (the printer tested the payload, which the parser never sets);
* `render_uses_declared_restrictions` — the counter of printed `[…]` equals the number of direct
  assignments of the denotation (0 or 1), so the restrictions the listener stored are printed iff the
  relation has a direct assignment.

`roundtrip_partial`: the remaining step — that lexing and parsing the printed text gives a tree whose CST
has the same denotation, and byte-stability of the third rendering — needs a model of ANTLR's lexer and
parser, which was not built.  It is **executed** on every run instead: the metamorphic oracle
d → m₁ → d₂ → m₂ → d₃ (m₁ = m₂, d₂ = d₃, through the JSON string API and the direct proto path) on generated
documents in random layouts, with the Lean listener port walking the real parse trees of d and d₂.
-/
namespace FgaVerif.Props.C01
open FgaVerif.Model FgaVerif.Model.Listener FgaVerif.Model.Cst FgaVerif.Model.Printer

/-- the listener denotes every relation declaration -/
theorem parse_side (pe : Option Bool) (d : Decl) (hd : d.body.wf = true) (st : LState) (td : TypeDef)
    (m : TypeMeta) (htd : st.currentTypeDef = some td) (hm : td.md = some m) :
    walk pe (Decl.tree d) st = .ok (declResult pe d st td m) :=
  walk_decl pe d hd st td m htd hm

/-- the denotation of every CST is DSL-expressible -/
theorem parser_image_expressible (d : Def) (hd : d.wf = true) : C02.Expressible (Def.den d) := by
  obtain ⟨h1, h2⟩ := def_props d hd
  refine ⟨h1, ?_⟩
  rcases h2 with h0 | ⟨hone, hfp⟩
  · exact Or.inl h0
  · exact Or.inr ⟨hone, C02.firstPath_of_isFirstPosition _ hfp⟩

/-- **rendering the parsed relation always succeeds**, whatever metadata (restrictions, module, file)
    accompanies it and for both values of the source-information option -/
theorem render_always_succeeds (d : Def) (hd : d.wf = true) (ty rel : String) (md : RelMeta) (src : Bool) :
    (parseRelation ty rel (Def.den d) md src).isOk = true :=
  (C02.print_ok_iff_expressible ty rel (Def.den d) md src).2 (parser_image_expressible d hd)

/-- the parsed relation has at most one direct assignment, and it is assignable iff the CST has a
    direct assignment (whose restrictions the listener stored) -/
theorem render_uses_declared_restrictions (d : Def) (hd : d.wf = true) :
    countThis (Def.den d) ≤ 1 ∧ (isAssignable (Def.den d) = true ↔ countThis (Def.den d) = 1) := by
  obtain ⟨_, h2⟩ := def_props d hd
  have := assignable_iff_count (Def.den d)
  rcases h2 with h0 | ⟨h1, _⟩
  · exact ⟨by omega, by rw [this]; omega⟩
  · exact ⟨by omega, by rw [this]; omega⟩

/-! ## non-vacuity: `[user] or (a and b from p)` in a layout with redundant parentheses -/
example : C03.d2.body.wf = true := by decide
example : (parseRelation "doc" "v" (Def.den C03.d2.body) { restr := [{ type := "user" }] } false).isOk = true :=
  render_always_succeeds _ (by decide) _ _ _ _

end FgaVerif.Props.C01
