import FgaVerif.Proofs.GParseSound
import FgaVerif.Proofs.GParseComplete
import FgaVerif.Gen.Grammar
/-!
# Front end — theorems about the lexer and parser models

This file collects what is proved about the models of the front end (DSL text → tokens → parse tree).

## The parser model is sound and complete with respect to the grammar, for every grammar

`Model/GParse.lean` is a parser that *interprets* the rule bodies of `Gen/Grammar.lean`, which are
translated from `OpenFGAParser.g4` on every run.  The theorems below are **generic in the grammar**
(`rules` is universally quantified, and so is the token array), so they hold for whatever
`OpenFGAParser.g4` is translated to on a given run — a grammar change cannot invalidate them.

The specification (`Proofs/GParseSound.lean`) is declarative and does not mention the parser, its fuel, its
memo table or its deduplication of results:

* `Match rules toks g p cs ls q cs' ls'` — from token position `p`, with children `cs` pushed so far
  (reversed) and label fields `ls` set so far, the rule body `g` matches up to position `q`, leaving `cs'`
  and `ls'`; one constructor per way of matching a body: a token of the right type (`tok`), any token
  outside a set and not `EOF` (`notTok`), a rule reference that pushes a context of that rule built from a
  match of the rule's body from a fresh accumulator and positioned at the first token of the span (`rule`),
  sequence (`seqNil`, `seqCons`), choice of a member (`alt`), zero or one (`optNone`, `optSome`), zero or
  more (`starNil`, `starCons`), one or more (`plus`), and a labelled element, which records the index of
  the child it starts at (`label`);
* `Derives rules toks n t p q` — `t` is a context of rule `n`, positioned at `toks[p]`, whose children and
  label fields are a `Match` of the body of `n` from `p` to `q`: a derivation tree of rule `n` for the
  tokens `p, …, q-1`;
* `leaves t` — the terminals of `t`, in order.

Proved, for **every** grammar, start rule and token array:

* `parse_sound` — a tree returned by `parse` is a derivation tree of the start rule spanning all tokens;
* `parse_isRule` — it is a context of the start rule;
* `parse_yield` — its leaves are exactly the tokens, in order (nothing dropped, invented or reordered; no
  error nodes);
* `match_yield` — the general fact behind it: whatever a match of a body pushes has exactly the tokens of
  its span as leaves.

**Completeness** (`Proofs/GParseComplete.lean`), for every grammar, start rule and token array, modulo the
explicit answer `outOfFuel` and one side condition on `x+`:

* `parse_complete` — if a derivation tree of the start rule spanning all tokens exists then `parse` does not
  answer `noParse` (it returns a tree, or says `outOfFuel`: `parse_of_derives`);
* `parse_noParse` — so the answer `noParse` proves that the token sequence is not in the language;
* `parse_cases`, `parse_accepts_iff`, `parse_noParse_iff` — with soundness: whenever the answer is not
  `outOfFuel`, `parse` returns a tree exactly for the token sequences of the language of the start rule;
* `parseRule_complete` — the statement behind them, any fuel: the results of a rule at a position have
  every end position that a derivation of the rule from that position reaches, unless the run set the
  flag `outOfFuel` (left recursion, for instance, runs out of fuel and says so).

The side condition `PlusProgress rules toks` — no rule body contains an `x+` whose body `x` can match the
empty span — is **necessary** (`plus_counterexample`: for `s : (A?)+ ;` and no tokens there is a derivation,
since `Match.plus` lets the first iteration match the empty span, and `parse` answers `noParse`, since the
interpreter keeps only iterations that make progress; for `x*` dropping them is harmless, for `x+` it loses
exactly the empty match).  It follows from the decidable syntactic check `plusGuarded rules k` (every `x+`
body consumes a token on every path, rule references followed to depth `k`: `plusGuarded_sound`), and that
check is evaluated by the kernel on the grammar of this run (`grammar_plusGuarded`), so for the translated
`OpenFGAParser.g4` completeness holds without side condition (`grammar_parse_accepts_iff`,
`grammar_parse_noParse`).  (ANTLR 4 reports a closure whose body can match the empty string as a grammar
error, `EPSILON_CLOSURE`, so a grammar it accepts is expected to pass the check.)

**Not proved**: that the *first* parse in the interpreter's order is the tree ANTLR's adaptive prediction
picks for an ambiguous input, and that the fuel `16 * toks.size + 400` always suffices for this particular
grammar (i.e. that `parse Gen.Grammar.rules` never answers `outOfFuel`).  Both are checked by running the
parser model against the real ANTLR parser, tree by tree, on every DSL text the checks generate
(`Driver.lean`, command `lexparse`): a different tree or an `outOfFuel` shows up there.  What the theorems
add is that a tree on which both agree is a derivation by the grammar of exactly the token sequence, and
that a `noParse` of the model is a proof that the grammar derives no tree for the token sequence.
-/
namespace FgaVerif.Props.Front
open FgaVerif.Model FgaVerif.Model.Conform FgaVerif.Model.GParse FgaVerif.Proofs.GParseSound
open FgaVerif.Proofs.GParseComplete (PlusProgress plusGuarded)

/-- **the parser model is sound, for every grammar**: a tree returned by `parse` is a derivation tree of
    the start rule (by `rules`) whose span is the whole token array. -/
theorem parse_sound (rules : List (String × Gram)) (start : String) (toks : Array Tok) (t : Tree)
    (h : parse rules start toks = .tree t) : Derives rules toks start t 0 toks.size :=
  FgaVerif.Proofs.GParseSound.parse_sound rules start toks t h

/-- the returned tree is a context of the start rule -/
theorem parse_isRule (rules : List (String × Gram)) (start : String) (toks : Array Tok) (t : Tree)
    (h : parse rules start toks = .tree t) : ∃ line col ls cs, t = Tree.rule start line col ls cs :=
  FgaVerif.Proofs.GParseSound.parse_isRule rules start toks t h

/-- **the leaves of the returned tree are exactly the tokens**, in order -/
theorem parse_yield (rules : List (String × Gram)) (start : String) (toks : Array Tok) (t : Tree)
    (h : parse rules start toks = .tree t) : leaves t = toks.toList.map tokTree :=
  FgaVerif.Proofs.GParseSound.parse_yield rules start toks t h

/-- a match of a rule body moves forward, only pushes children, and what it pushes has exactly the tokens
    of its span as leaves -/
theorem match_yield (rules : List (String × Gram)) (toks : Array Tok) (g : Gram) (p q : Nat)
    (cs cs' : List Tree) (ls ls' : List (String × Nat)) (h : Match rules toks g p cs ls q cs' ls') :
    p ≤ q ∧ ∃ new, cs' = new ++ cs ∧
      leavesL new.reverse = ((toks.toList.drop p).take (q - p)).map tokTree :=
  h.yield

/-- the leaves of a derivation tree for the tokens `p, …, q-1` are these tokens -/
theorem derives_yield (rules : List (String × Gram)) (toks : Array Tok) (n : String) (t : Tree) (p q : Nat)
    (h : Derives rules toks n t p q) :
    p ≤ q ∧ leaves t = ((toks.toList.drop p).take (q - p)).map tokTree :=
  h.yield

/-! ### the theorems are not vacuous

A toy grammar with two rules (`main : first=item item* EOF ; item : A | B ;`) and three tokens: the parser
model returns a tree for them (`toy_parse`, by unfolding the interpreter — the hash map of the memo table
does not reduce in the kernel, so its lookups are rewritten with `Std.HashMap.get?_insert`), hence that tree
is a derivation and its leaves are the tokens; the derivation is also exhibited by hand, independently of
the parser. -/

def toyRules : List (String × Gram) :=
  [("main", .seq [.label "first" (.rule "item"), .star (.rule "item"), .tok "EOF"]),
   ("item", .alt [.tok "A", .tok "B"])]

def toyToks : Array Tok := #[⟨"A", "a", 1, 0⟩, ⟨"B", "b", 1, 1⟩, ⟨"EOF", "<EOF>", 1, 2⟩]

def toyTree : Tree :=
  .rule "main" 1 0 [("first", 0)]
    [.rule "item" 1 0 [] [.tok "A" "a" 1 0 false],
     .rule "item" 1 1 [] [.tok "B" "b" 1 1 false],
     .tok "EOF" "<EOF>" 1 2 false]

private theorem memo_get_empty (k : String × Nat) : (∅ : Memo).get? k = none :=
  Std.HashMap.get?_emptyWithCapacity

set_option linter.unusedSimpArgs false in
set_option maxRecDepth 10000 in
set_option maxHeartbeats 1000000 in
/-- the hypothesis of `parse_sound` is satisfiable: the parser model returns this tree -/
theorem toy_parse : parse toyRules "main" toyToks = .tree toyTree := by
  have hsz : 16 * toyToks.size + 400 = 447 + 1 := rfl
  have hitem : lookup toyRules "item" = some (.alt [.tok "A", .tok "B"]) := by simp [lookup, toyRules]
  have hmain : lookup toyRules "main" =
      some (.seq [.label "first" (.rule "item"), .star (.rule "item"), .tok "EOF"]) := by
    simp [lookup, toyRules]
  have h0 : toyToks[0]? = some ⟨"A", "a", 1, 0⟩ := rfl
  have h1 : toyToks[1]? = some ⟨"B", "b", 1, 1⟩ := rfl
  have h2 : toyToks[2]? = some ⟨"EOF", "<EOF>", 1, 2⟩ := rfl
  have h3 : toyToks[3]? = none := rfl
  unfold parse
  rw [hsz]
  simp only [StateT.run, parseRule.eq_2, parseG.eq_2, parseG.eq_3, parseG.eq_4, parseG.eq_5, parseG.eq_6,
    parseG.eq_7, parseG.eq_8, parseG.eq_9, parseG.eq_10, parseSeq.eq_2, parseSeq.eq_3, parseStar.eq_2,
    bind, StateT.bind, get, getThe, MonadStateOf.get, StateT.get, pure, StateT.pure,
    modify, modifyGet, MonadStateOf.modifyGet, StateT.modifyGet,
    memo_get_empty, hitem, hmain, h0, h1, h2, h3, List.mapM_cons, List.mapM_nil, Std.HashMap.get?_insert,
    List.flatten, List.map, List.append, List.filter, dedupPos, dedupPos.go, List.contains, List.elem,
    List.foldr, List.reverse, List.reverseAux, List.length, tokTree, List.nil_append, List.cons_append,
    List.append_nil, List.append_eq, beq_self_eq_true, ↓reduceIte, Nat.reduceAdd, Nat.reduceBEq,
    Nat.reduceBNe, Nat.reduceGT, Nat.reduceEqDiff, String.reduceBEq, String.reduceEq, reduceCtorEq,
    Bool.false_eq_true, Bool.or_false, Bool.or_true, Bool.true_or, Bool.false_or, decide_true, decide_false,
    Prod.mk.injEq, and_true, and_false, true_and, false_and, beq_iff_eq, gt_iff_lt, Nat.lt_irrefl,
    Nat.reduceLT, decide_eq_true_eq, List.find?, List.flatten_cons, List.flatten_nil]
  rfl

/-- so the toy tree is a derivation of `main` over the three tokens … -/
example : Derives toyRules toyToks "main" toyTree 0 toyToks.size :=
  parse_sound _ _ _ _ toy_parse

/-- … whose leaves are the three tokens -/
example : leaves toyTree = toyToks.toList.map tokTree :=
  parse_yield _ _ _ _ toy_parse

/-- the same derivation, by hand (the relation is inhabited independently of the parser) -/
example : Derives toyRules toyToks "main" toyTree 0 toyToks.size := by
  have hitem : lookup toyRules "item" = some (.alt [.tok "A", .tok "B"]) := by simp [lookup, toyRules]
  have hmain : lookup toyRules "main" =
      some (.seq [.label "first" (.rule "item"), .star (.rule "item"), .tok "EOF"]) := by simp [lookup, toyRules]
  have h0 : toyToks[0]? = some ⟨"A", "a", 1, 0⟩ := rfl
  have h1 : toyToks[1]? = some ⟨"B", "b", 1, 1⟩ := rfl
  have h2 : toyToks[2]? = some ⟨"EOF", "<EOF>", 1, 2⟩ := rfl
  have itemA : Match toyRules toyToks (.rule "item") 0 [] [] 1
      [.rule "item" 1 0 [] [.tok "A" "a" 1 0 false]] [] :=
    Match.rule hitem (Match.alt (by simp) (Match.tok h0 rfl))
  have itemB : Match toyRules toyToks (.rule "item") 1 [.rule "item" 1 0 [] [.tok "A" "a" 1 0 false]]
      [("first", 0)] 2
      [.rule "item" 1 1 [] [.tok "B" "b" 1 1 false], .rule "item" 1 0 [] [.tok "A" "a" 1 0 false]]
      [("first", 0)] :=
    Match.rule hitem (Match.alt (by simp) (Match.tok h1 rfl))
  exact Derives.mk hmain
    (Match.seqCons (Match.label itemA)
      (Match.seqCons (Match.starCons itemB Match.starNil)
        (Match.seqCons (Match.tok h2 rfl) Match.seqNil)))

example : leaves toyTree = toyToks.toList.map tokTree := rfl

/-! ### completeness

`PlusProgress rules toks`: no rule body of `rules` contains an `x+` whose body `x` can match the empty span
(over `toks`); `plusGuarded rules k`: the decidable syntactic check that implies it for every token array. -/

/-- **the parser model is complete, for every grammar** (whose `x+` bodies cannot match the empty span): if
    a derivation tree of the start rule spanning the whole token array exists, `parse` does not answer
    `noParse`. -/
theorem parse_complete (rules : List (String × Gram)) (start : String) (toks : Array Tok) (t : Tree)
    (hG : PlusProgress rules toks) (h : Derives rules toks start t 0 toks.size) :
    parse rules start toks ≠ .noParse :=
  FgaVerif.Proofs.GParseComplete.parse_complete rules start toks t hG h

/-- a derivable token sequence gets a tree, or the explicit answer `outOfFuel` -/
theorem parse_of_derives (rules : List (String × Gram)) (start : String) (toks : Array Tok) (t : Tree)
    (hG : PlusProgress rules toks) (h : Derives rules toks start t 0 toks.size) :
    (∃ t', parse rules start toks = .tree t') ∨ parse rules start toks = .outOfFuel :=
  FgaVerif.Proofs.GParseComplete.parse_of_derives rules start toks t hG h

/-- **`noParse` proves that the token sequence is not in the language** of the start rule -/
theorem parse_noParse (rules : List (String × Gram)) (start : String) (toks : Array Tok)
    (hG : PlusProgress rules toks) (h : parse rules start toks = .noParse) :
    ¬ ∃ t, Derives rules toks start t 0 toks.size :=
  FgaVerif.Proofs.GParseComplete.parse_noParse rules start toks hG h

/-- the three answers: a tree, which is a derivation; out of fuel; or `noParse`, and then there is no
    derivation -/
theorem parse_cases (rules : List (String × Gram)) (start : String) (toks : Array Tok)
    (hG : PlusProgress rules toks) :
    (∃ t, parse rules start toks = .tree t ∧ Derives rules toks start t 0 toks.size) ∨
    parse rules start toks = .outOfFuel ∨
    (parse rules start toks = .noParse ∧ ¬ ∃ t, Derives rules toks start t 0 toks.size) :=
  FgaVerif.Proofs.GParseComplete.parse_cases rules start toks hG

/-- **soundness and completeness together**: when the answer is not `outOfFuel`, `parse` returns a tree
    exactly for the token sequences that the grammar derives from the start rule -/
theorem parse_accepts_iff (rules : List (String × Gram)) (start : String) (toks : Array Tok)
    (hG : PlusProgress rules toks) (hf : parse rules start toks ≠ .outOfFuel) :
    (∃ t, parse rules start toks = .tree t) ↔ ∃ t, Derives rules toks start t 0 toks.size :=
  FgaVerif.Proofs.GParseComplete.parse_accepts_iff rules start toks hG hf

/-- … and answers `noParse` exactly for the others -/
theorem parse_noParse_iff (rules : List (String × Gram)) (start : String) (toks : Array Tok)
    (hG : PlusProgress rules toks) (hf : parse rules start toks ≠ .outOfFuel) :
    parse rules start toks = .noParse ↔ ¬ ∃ t, Derives rules toks start t 0 toks.size :=
  FgaVerif.Proofs.GParseComplete.parse_noParse_iff rules start toks hG hf

/-- the results of a rule at a position, any fuel, from the empty memo table: unless the run ran out of
    fuel, they have every end position that a derivation of the rule from that position reaches -/
theorem parseRule_complete (rules : List (String × Gram)) (toks : Array Tok) (hG : PlusProgress rules toks)
    (f : Nat) (n : String) (p : Nat)
    (hfl : (runM (parseRule rules toks f n p) {}).2.outOfFuel = false) (t : Tree) (q : Nat)
    (h : Derives rules toks n t p q) : ∃ r ∈ (runM (parseRule rules toks f n p) {}).1, r.1 = q :=
  FgaVerif.Proofs.GParseComplete.parseRule_complete hG f n p hfl h

/-- the decidable check implies the side condition, for every token array -/
theorem plusGuarded_sound (rules : List (String × Gram)) (k : Nat) (h : plusGuarded rules k = true)
    (toks : Array Tok) : PlusProgress rules toks :=
  FgaVerif.Proofs.GParseComplete.plusGuarded_sound h toks

/-- **the side condition is necessary**: a grammar (`s : (A?)+ ;`), a token array (empty) and a derivation
    for which `parse` answers `noParse` -/
theorem plus_counterexample :
    ∃ (rules : List (String × Gram)) (start : String) (toks : Array Tok),
      (∃ t, Derives rules toks start t 0 toks.size) ∧ parse rules start toks = .noParse :=
  FgaVerif.Proofs.GParseComplete.plus_counterexample

/-! ### the grammar of this run

`Gen/Grammar.lean` (the translation of `OpenFGAParser.g4` made on this run) passes the check, evaluated by
the kernel, so for it completeness holds without side condition. -/

/-- in the translated `OpenFGAParser.g4`, every `x+` body consumes a token -/
theorem grammar_plusGuarded : plusGuarded FgaVerif.Gen.Grammar.rules 16 = true := by decide +kernel

theorem grammar_plusProgress (toks : Array Tok) : PlusProgress FgaVerif.Gen.Grammar.rules toks :=
  plusGuarded_sound _ 16 grammar_plusGuarded toks

/-- **for the OpenFGA grammar, `noParse` proves that the token sequence is not in the language** -/
theorem grammar_parse_noParse (start : String) (toks : Array Tok)
    (h : parse FgaVerif.Gen.Grammar.rules start toks = .noParse) :
    ¬ ∃ t, Derives FgaVerif.Gen.Grammar.rules toks start t 0 toks.size :=
  parse_noParse _ start toks (grammar_plusProgress toks) h

/-- **for the OpenFGA grammar, when the answer is not `outOfFuel`, the parser model returns a tree exactly
    for the token sequences of the language** -/
theorem grammar_parse_accepts_iff (start : String) (toks : Array Tok)
    (hf : parse FgaVerif.Gen.Grammar.rules start toks ≠ .outOfFuel) :
    (∃ t, parse FgaVerif.Gen.Grammar.rules start toks = .tree t) ↔
      ∃ t, Derives FgaVerif.Gen.Grammar.rules toks start t 0 toks.size :=
  parse_accepts_iff _ start toks (grammar_plusProgress toks) hf

/-- the toy grammar passes the check too, and its three tokens are accepted: consistent with `toy_parse` -/
example : (∃ t, parse toyRules "main" toyToks = .tree t) ↔
    ∃ t, Derives toyRules toyToks "main" t 0 toyToks.size :=
  parse_accepts_iff _ _ _ (plusGuarded_sound toyRules 8 (by decide +kernel) _) (by rw [toy_parse]; simp)

end FgaVerif.Props.Front
