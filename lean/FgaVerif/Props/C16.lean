import FgaVerif.Proofs.Clean
import FgaVerif.Proofs.Listener
import FgaVerif.Proofs.LineNumbers
import FgaVerif.Proofs.LexDriver
/-!
# C16 — reported error positions lie inside the input and on the offending text

ANTLR reports positions in the text it was given, which is the output of the comment pre-pass, not the
input.  Proved here, for **every** input (list of characters):

* `clean_prefix` — the pre-pass never adds lines, and line *i* of the cleaned text is a prefix of line *i*
  of the input (comments and trailing blanks are cut at the end of a line, comment and blank lines become
  empty lines, trailing empty lines are dropped).  Hence a (line, column) that lies inside the cleaned text
  — zero-based line smaller than the number of cleaned lines, column not beyond the end of that cleaned
  line — lies inside the input with the same coordinates (`position_inside_input`), also when comments and
  blank lines precede it;
* `listener_error_at_name` — the error the listener raises for a duplicate relation is logged at the start
  position of the `relationName` context (the offending name), not at the declaration or the type.

* `merge_position_inside_file`, `merge_position_origin_when_not_found` — the text search the module
  merger uses to locate a conflicting declaration (port of `utils/line-numbers.go`) never reports a
  position outside the file: a found line index is below the number of lines, that line (trimmed) starts
  with the searched text, start and end line coincide, and if the symbol occurs in the line the reported
  columns lie inside the line and span exactly the symbol; when nothing is found the position is the
  origin (0, 0).  This holds *also* in the three classes of the open findings — there the position is
  inside the file but on the wrong declaration (`example`s below are the findings' witnesses).

* `lexer_positions_inside_input`, `lexer_items_partition_input`, `lexer_position_is_offset` — about the
  **lexer model** (`Model/LexSim.lean`: a port of ANTLR's `LexerATNSimulator` and `Lexer.NextToken` that
  interprets the automaton embedded in the generated Go lexer, re-extracted from /repo on every run, and is
  compared with the real lexer token by token — type, text, line, column, channel, and every token
  recognition error — on every DSL text the checks generate, error-ridden fuzz inputs included): the
  tokens of all channels, the skipped tokens and the spans dropped after a token recognition error are
  consecutive pieces of the text, the (line, column) of each is that of the offset where it starts, so the
  line exists in the text and the column is not beyond its end.  These hold for **any** matcher, hence
  for whatever automaton a grammar change puts into the lexer.  Together with `clean_prefix` this gives
  "inside the input" for every position the lexer reports (token recognition errors) or attaches to a
  token (which is where the parser's and the listener's errors are reported).

Not proved: that ANTLR's *parser* reports its errors at the position of a token of the stream (its error
strategy is not modelled; bounds-checked by the oracle on every rejected input, exact positions checked
against the renderer's marks).  The module-merge half is **false of the
code** in three narrow classes (open findings KF-C16-prefix-line, -substring-column, -spacing-not-found:
the line is looked up by text search); outside them the oracle compares file, line and column with the
positions the independent renderer recorded, and the Lean port of `line-numbers.go` reproduces the code's
answers on every input (correspondence), including inside those classes.
-/
namespace FgaVerif.Props.C16
open FgaVerif.Model FgaVerif.Model.Clean

/-- **the pre-pass keeps lines and columns** -/
theorem clean_prefix (s : List Char) :
    (splitLines (clean s)).length ≤ (splitLines s).length ∧
    ∀ (i : Nat) (l : List Char), (splitLines (clean s))[i]? = some l →
      ∃ l', (splitLines s)[i]? = some l' ∧ l <+: l' := by
  have hne : (splitLines s).map cleanLine ≠ [] := by
    simpa using splitLines_ne_nil s
  have hnl : ∀ l ∈ (splitLines s).map cleanLine, '\n' ∉ l := by
    intro l hl
    rw [List.mem_map] at hl
    obtain ⟨l0, hl0, rfl⟩ := hl
    intro hm
    exact splitLines_no_newline s l0 hl0 ((cleanLine_prefix l0).subset hm)
  have hsj := splitLines_joinLines _ hne hnl
  have hpre := splitLines_prefix (clean s) (joinLines ((splitLines s).map cleanLine)) (trimRight_prefix '\n' _)
  rw [hsj] at hpre
  refine ⟨by simpa using hpre.1, ?_⟩
  intro i l hl
  obtain ⟨l1, hl1, hp1⟩ := hpre.2 i l hl
  rw [List.getElem?_map] at hl1
  cases hsi : (splitLines s)[i]? with
  | none => simp [hsi] at hl1
  | some l0 =>
    simp only [hsi, Option.map_some, Option.some.injEq] at hl1
    subst hl1
    exact ⟨l0, rfl, hp1.trans (cleanLine_prefix l0)⟩

/-- a position inside the cleaned text is a position inside the input -/
theorem position_inside_input (s : List Char) (line col : Nat) (l : List Char)
    (hl : (splitLines (clean s))[line]? = some l) (hc : col ≤ l.length) :
    line < (splitLines s).length ∧ ∃ l', (splitLines s)[line]? = some l' ∧ col ≤ l'.length ∧ l.take col = l'.take col := by
  obtain ⟨_, hpt⟩ := clean_prefix s
  obtain ⟨l', hl', hpre⟩ := hpt line l hl
  refine ⟨?_, l', hl', ?_, ?_⟩
  · cases Nat.lt_or_ge line (splitLines s).length with
    | inl h => exact h
    | inr hge => simp [List.getElem?_eq_none hge] at hl'
  · exact Nat.le_trans hc hpre.length_le
  · obtain ⟨r, rfl⟩ := hpre
    rw [List.take_append_of_le_length hc]

/-- the duplicate-relation error is logged at the start of the name -/
theorem listener_error_at_name (pe : Option Bool) (d : Cst.Decl) (hd : d.body.wf = true) (st : Listener.LState)
    (td : TypeDef) (m : TypeMeta) (htd : st.currentTypeDef = some td) (hm : td.md = some m)
    (hdup : AList.contains d.name.text td.relations = true) :
    ∃ s, Listener.walk pe (Cst.Decl.tree d) st = .ok s ∧
      s.errors = st.errors ++ [⟨(Tree.rule "relationName" 0 0 [] [d.name.tree]).startPos.1,
                                (Tree.rule "relationName" 0 0 [] [d.name.tree]).startPos.2,
                                s!"'{d.name.text}' is already defined in '{td.name}'"⟩] := by
  refine ⟨_, Cst.walk_decl pe d hd st td m htd hm, ?_⟩
  rw [Cst.declResult_errors, hdup]
  rfl

/-! ## non-vacuity: a comment line, a trailing comment and trailing blanks -/
example : clean "# c\n  define a: b  # x\n\n".toList = "\n  define a: b".toList := by decide
example : (splitLines (clean "# c\n  define a: b  # x\n\n".toList)).length = 2 := by decide

/-- **merge conflicts are reported inside the file** -/
theorem merge_position_inside_file (lines : List (List Char)) (pre sym : String) (i : Nat)
    (h : Merge.lineWithPrefix pre lines = some i) :
    ∃ raw, lines[i]? = some raw ∧ i < lines.length ∧
      Merge.isPrefix pre.toList (Merge.trimSpace raw) = true ∧
      (Merge.constructLineAndColumnData lines (some i) sym).lineStart = i ∧
      (Merge.constructLineAndColumnData lines (some i) sym).lineEnd = i ∧
      ∀ w, Merge.indexOf sym.toList raw = some w →
        (Merge.constructLineAndColumnData lines (some i) sym).colStart = w ∧
        (Merge.constructLineAndColumnData lines (some i) sym).colEnd = w + sym.length ∧
        w + sym.toList.length ≤ raw.length ∧ (raw.drop w).take sym.toList.length = sym.toList :=
  Merge.position_found lines pre sym i h

theorem merge_position_origin_when_not_found (lines : List (List Char)) (sym : String) :
    Merge.constructLineAndColumnData lines none sym = {} := rfl

/-! ### positions of the lexer model -/
open FgaVerif.Model.LexSim in
/-- the items of the token loop are consecutive pieces of the text: concatenated they are a prefix of it,
    and all of it unless the loop aborted (`popMode` on an empty stack, where the runtime panics) -/
theorem lexer_items_partition_input (matcher : Nat → List Char → MatchRes) (rtt : Array Nat)
    (acts : Array (Nat × Nat × Nat)) (fuel : Nat) (input : List Char) :
    ((lexLoop matcher rtt acts fuel {} (1, 0) input).flatMap Item.chars <+: input) ∧
    ((lexLoop matcher rtt acts fuel {} (1, 0) input).all (fun i => !i.isAbort) = true →
      (lexLoop matcher rtt acts fuel {} (1, 0) input).flatMap Item.chars = input) :=
  lexLoop_partition matcher rtt acts fuel {} (1, 0) input

open FgaVerif.Model.LexSim in
/-- the line and column recorded for a token or a token recognition error are those of the offset at
    which it starts (line = 1 + line breaks before it, column = characters since the last one) -/
theorem lexer_position_is_offset (matcher : Nat → List Char → MatchRes) (rtt : Array Nat)
    (acts : Array (Nat × Nat × Nat)) (fuel : Nat) (input : List Char) (pre : List Item) (it : Item) (post : List Item)
    (h : lexLoop matcher rtt acts fuel {} (1, 0) input = pre ++ it :: post) (hna : it.isAbort = false) :
    it.pos = advanceL (1, 0) (pre.flatMap Item.chars) ∧
    advanceL (1, 0) (pre.flatMap Item.chars) =
      ((splitLines (pre.flatMap Item.chars)).length, ((splitLines (pre.flatMap Item.chars)).getLastD []).length) :=
  ⟨lexLoop_positions matcher rtt acts fuel {} (1, 0) input pre it post h hna, advanceL_start _⟩

open FgaVerif.Model.LexSim in
/-- **every position the lexer reports lies inside the text**: the (1-based) line exists and the column
    is not beyond the end of that line — for every token of every channel and every token recognition
    error, whatever the automaton -/
theorem lexer_positions_inside_input (matcher : Nat → List Char → MatchRes) (rtt : Array Nat)
    (acts : Array (Nat × Nat × Nat)) (fuel : Nat) (input : List Char) (it : Item)
    (hmem : it ∈ lexLoop matcher rtt acts fuel {} (1, 0) input) (hna : it.isAbort = false) :
    ∃ ln, (splitLines input)[it.pos.1 - 1]? = some ln ∧ it.pos.2 ≤ ln.length :=
  lexLoop_position_inside matcher rtt acts fuel input it hmem hna

/-! non-vacuity: a toy matcher (letters form words, a blank is a one-character token, anything else is
    an error) on a two-line text; the error on line 2 is reported at column 1 -/
open FgaVerif.Model.LexSim in
def toyMatcher (_ : Nat) (cs : List Char) : MatchRes :=
  match cs with
  | [] => .eof
  | c :: rest => if c.isAlpha then .accept (1 + (rest.takeWhile Char.isAlpha).length) 0 []
                 else if c == ' ' || c == '\n' then .accept 1 1 [] else .fail 0
open FgaVerif.Model.LexSim in
example : (lexLoop toyMatcher #[5, 6] #[] 20 {} (1, 0) "ab c\nd@e".toList).map Item.pos =
    [(1, 0), (1, 2), (1, 3), (1, 4), (2, 0), (2, 1), (2, 2), (2, 3)] := by decide

/-! ### the open findings, as facts about the port (and, by correspondence, the code) -/
def kfFile : List (List Char) :=
  ["module m".toList, "type doc".toList, "  relations".toList, "    define viewer_all: [doc]".toList,
   "extend type folder".toList, "  relations".toList, "    define viewer: [doc]".toList]

/-- KF-C16-prefix-line: searching `define viewer` finds line 3 (`define viewer_all`), the clash is on line 6 -/
example : Merge.lineWithPrefix "define viewer" kfFile = some 3 := by decide
/-- KF-C16-substring-column: the column of `e` in `    define e: [doc]` is that of the `e` in `define` -/
example : (Merge.constructLineAndColumnData ["    define e: [doc]".toList] (some 0) "e").colStart = 5 := by decide
/-- KF-C16-spacing-not-found: two blanks after the keyword and the declaration is not found -/
example : Merge.lineWithPrefix "type doc" ["type  doc".toList] = none := by decide

end FgaVerif.Props.C16
