import FgaVerif.Proofs.Clean
import FgaVerif.Proofs.Listener
import FgaVerif.Proofs.LineNumbers
import FgaVerif.Proofs.LexDriver
import FgaVerif.Proofs.LexMunch
/-!
# C16 — reported error positions lie inside the input and on the offending text

ANTLR reports positions in the text it was given, which is the output of the comment pre-pass, not the
input.  Proved here, for **every** input (list of characters):

* `clean_prefix` — the pre-pass never adds lines, and line *i* of the cleaned text is a prefix of line *i*
  of the input (comments and trailing blanks are cut at the end of a line, comment and blank lines become
  empty lines, trailing empty lines are dropped).  Hence a (line, column) that lies inside the cleaned text
  — zero-based line smaller than the number of cleaned lines, column not beyond the end of that cleaned
  line — lies inside the input with the same coordinates (`position_inside_input`), also when comments and
  blank lines precede it;
* `listener_error_at_name` — the error the listener raises for a duplicate relation is logged at the start
  position of the `relationName` context (the offending name), not at the declaration or the type.

* `merge_position_inside_file`, `merge_position_origin_when_not_found` — the text search the module
  merger uses to locate a conflicting declaration (port of `utils/line-numbers.go`) never reports a
  position outside the file: a found line index is below the number of lines, that line (trimmed) starts
  with the searched text, start and end line coincide, and if the symbol occurs in the line the reported
  columns lie inside the line and span exactly the symbol; when nothing is found the position is the
  origin (0, 0).  This holds *also* in the three classes of the open findings — there the position is
  inside the file but on the wrong declaration (`example`s below are the findings' witnesses).

* `lexer_positions_inside_input`, `lexer_items_partition_input`, `lexer_position_is_offset` — about the
  **lexer model** (`Model/LexSim.lean`: a port of ANTLR's `LexerATNSimulator` and `Lexer.NextToken` that
  interprets the automaton embedded in the generated Go lexer, re-extracted from /repo on every run, and is
  compared with the real lexer token by token — type, text, line, column, channel, and every token
  recognition error — on every DSL text the checks generate, error-ridden fuzz inputs included): the
  tokens of all channels, the skipped tokens and the spans dropped after a token recognition error are
  consecutive pieces of the text, the (line, column) of each is that of the offset where it starts, so the
  line exists in the text and the column is not beyond its end.  These hold for **any** matcher, hence
  for whatever automaton a grammar change puts into the lexer.  Together with `clean_prefix` this gives
  "inside the input" for every position the lexer reports (token recognition errors) or attaches to a
  token (which is where the parser's and the listener's errors are reported).

* `munch_*` — what the **matcher** of the lexer model computes (`LexSim.matchOne`, the port of
  `LexerATNSimulator.execATN` + `failOrAccept`), for an **arbitrary** automaton, in terms of the sequence of
  configuration sets `setAt` (`startSet`, then one `reachSet` per character — `munch_setAt_succ`; the run
  ends at the first empty reach set or at the end of the input) and of `acceptAt k`, the rule and actions
  of the *first* stop configuration of the set after `k` characters (what the runtime records as
  `prevAccept`):
  - `munch_accept_is_longest` (+ `munch_accept_iff`) — **maximal munch**: `.accept len rule acts` exactly
    when the fuel never runs out, `acceptAt len = some (rule, acts)` and `acceptAt k = none` for every
    `k > len`; `len ≤` the number of characters the run consumes `≤` the length of the input;
  - `munch_accept_is_first_rule`, `munch_accept_min_alt` — **rule priority**: the reported rule is that of
    the first configuration, in the order of the set, that is in a rule stop state; the sets are ordered
    by alternative (alternative `i+1` = the `i`-th transition of the mode's start state, i.e. the `i`-th
    rule of the mode in grammar order; no other number occurs — `munch_alt_range`), so no stop
    configuration of the set has a smaller alternative;
  - `munch_fail_means_no_accept` (+ `munch_fail_iff`), `munch_error_item` — `.fail n`: no rule accepts at
    any position, `n` is exactly the number of characters the run consumed, the input is not empty; the
    token loop turns it into one error item of `min (n+1) (length)` ≥ 1 characters (and an accept of
    `len > 0` into a token of exactly the first `len` characters — `munch_token_item`);
  - `munch_eof_iff`, `munch_empty_input` — `.eof` exactly on the empty input when the start set has no stop
    configuration (**not** "iff the input is empty": with a rule that matches the empty string the answer
    on the empty input is a zero-length accept — `example` with `emptySim`);
  - `munch_stuck_iff_fuel`, `munch_closure_fuel_mono`, `munch_stuck_possible` — `.stuck` exactly when a
    `startSet`/`reachSet` of the run ran out of closure fuel; more fuel never changes an answer of
    `closure`; but `.stuck` can **not** be excluded for an arbitrary automaton whatever the fuel: an
    epsilon cycle (`loopSim`) makes `closure` fail for every fuel (the runtime's `closure` recurses without end);
  - `munch_accept_len_positive_or_empty_rule` — a zero-length accept happens only when the start set of
    the mode contains a stop configuration (a rule matching the empty string) and nothing accepts later;
    the token loop then stops with `abort "empty match"` (the runtime emits an empty token without consuming anything).
  "Longest" is relative to the sets the port computes: `reachSet` drops, as the runtime does, the
  configurations that passed through a non-greedy decision once their alternative has reached a rule stop
  state (`reachSet_skips_nongreedy`), so with `'"' .*? '"'` the run itself ends at the first closing quote
  (`example`s with `quoteSim`).
  Non-vacuity: `toySim` (`IF : 'if'; ID : [a-z]+; WS : ' ' -> skip; ARROW : '->'`) — `ifx` is one
  identifier (longest match), `if` the keyword (both rules accept at 2; the first wins), `-x` an error of
  two characters.

Not proved: that ANTLR's *parser* reports its errors at the position of a token of the stream (its error
strategy is not modelled; bounds-checked by the oracle on every rejected input, exact positions checked
against the renderer's marks).  The module-merge half is **false of the
code** in three narrow classes (open findings KF-C16-prefix-line, -substring-column, -spacing-not-found:
the line is looked up by text search); outside them the oracle compares file, line and column with the
positions the independent renderer recorded, and the Lean port of `line-numbers.go` reproduces the code's
answers on every input (correspondence), including inside those classes.
-/
namespace FgaVerif.Props.C16
open FgaVerif.Model FgaVerif.Model.Clean

/-- **the pre-pass keeps lines and columns** -/
theorem clean_prefix (s : List Char) :
    (splitLines (clean s)).length ≤ (splitLines s).length ∧
    ∀ (i : Nat) (l : List Char), (splitLines (clean s))[i]? = some l →
      ∃ l', (splitLines s)[i]? = some l' ∧ l <+: l' := by
  have hne : (splitLines s).map cleanLine ≠ [] := by
    simpa using splitLines_ne_nil s
  have hnl : ∀ l ∈ (splitLines s).map cleanLine, '\n' ∉ l := by
    intro l hl
    rw [List.mem_map] at hl
    obtain ⟨l0, hl0, rfl⟩ := hl
    intro hm
    exact splitLines_no_newline s l0 hl0 ((cleanLine_prefix l0).subset hm)
  have hsj := splitLines_joinLines _ hne hnl
  have hpre := splitLines_prefix (clean s) (joinLines ((splitLines s).map cleanLine)) (trimRight_prefix '\n' _)
  rw [hsj] at hpre
  refine ⟨by simpa using hpre.1, ?_⟩
  intro i l hl
  obtain ⟨l1, hl1, hp1⟩ := hpre.2 i l hl
  rw [List.getElem?_map] at hl1
  cases hsi : (splitLines s)[i]? with
  | none => simp [hsi] at hl1
  | some l0 =>
    simp only [hsi, Option.map_some, Option.some.injEq] at hl1
    subst hl1
    exact ⟨l0, rfl, hp1.trans (cleanLine_prefix l0)⟩

/-- a position inside the cleaned text is a position inside the input -/
theorem position_inside_input (s : List Char) (line col : Nat) (l : List Char)
    (hl : (splitLines (clean s))[line]? = some l) (hc : col ≤ l.length) :
    line < (splitLines s).length ∧ ∃ l', (splitLines s)[line]? = some l' ∧ col ≤ l'.length ∧ l.take col = l'.take col := by
  obtain ⟨_, hpt⟩ := clean_prefix s
  obtain ⟨l', hl', hpre⟩ := hpt line l hl
  refine ⟨?_, l', hl', ?_, ?_⟩
  · cases Nat.lt_or_ge line (splitLines s).length with
    | inl h => exact h
    | inr hge => simp [List.getElem?_eq_none hge] at hl'
  · exact Nat.le_trans hc hpre.length_le
  · obtain ⟨r, rfl⟩ := hpre
    rw [List.take_append_of_le_length hc]

/-- the duplicate-relation error is logged at the start of the name -/
theorem listener_error_at_name (pe : Option Bool) (d : Cst.Decl) (hd : d.body.wf = true) (st : Listener.LState)
    (td : TypeDef) (m : TypeMeta) (htd : st.currentTypeDef = some td) (hm : td.md = some m)
    (hdup : AList.contains d.name.text td.relations = true) :
    ∃ s, Listener.walk pe (Cst.Decl.tree d) st = .ok s ∧
      s.errors = st.errors ++ [⟨(Tree.rule "relationName" 0 0 [] [d.name.tree]).startPos.1,
                                (Tree.rule "relationName" 0 0 [] [d.name.tree]).startPos.2,
                                s!"'{d.name.text}' is already defined in '{td.name}'"⟩] := by
  refine ⟨_, Cst.walk_decl pe d hd st td m htd hm, ?_⟩
  rw [Cst.declResult_errors, hdup]
  rfl

/-! ## non-vacuity: a comment line, a trailing comment and trailing blanks -/
example : clean "# c\n  define a: b  # x\n\n".toList = "\n  define a: b".toList := by decide
example : (splitLines (clean "# c\n  define a: b  # x\n\n".toList)).length = 2 := by decide

/-- **merge conflicts are reported inside the file** -/
theorem merge_position_inside_file (lines : List (List Char)) (pre sym : String) (i : Nat)
    (h : Merge.lineWithPrefix pre lines = some i) :
    ∃ raw, lines[i]? = some raw ∧ i < lines.length ∧
      Merge.isPrefix pre.toList (Merge.trimSpace raw) = true ∧
      (Merge.constructLineAndColumnData lines (some i) sym).lineStart = i ∧
      (Merge.constructLineAndColumnData lines (some i) sym).lineEnd = i ∧
      ∀ w, Merge.indexOf sym.toList raw = some w →
        (Merge.constructLineAndColumnData lines (some i) sym).colStart = w ∧
        (Merge.constructLineAndColumnData lines (some i) sym).colEnd = w + sym.length ∧
        w + sym.toList.length ≤ raw.length ∧ (raw.drop w).take sym.toList.length = sym.toList :=
  Merge.position_found lines pre sym i h

theorem merge_position_origin_when_not_found (lines : List (List Char)) (sym : String) :
    Merge.constructLineAndColumnData lines none sym = {} := rfl

/-! ### positions of the lexer model -/
open FgaVerif.Model.LexSim in
/-- the items of the token loop are consecutive pieces of the text: concatenated they are a prefix of it,
    and all of it unless the loop aborted (`popMode` on an empty stack, where the runtime panics) -/
theorem lexer_items_partition_input (matcher : Nat → List Char → MatchRes) (rtt : Array Nat)
    (acts : Array (Nat × Nat × Nat)) (fuel : Nat) (input : List Char) :
    ((lexLoop matcher rtt acts fuel {} (1, 0) input).flatMap Item.chars <+: input) ∧
    ((lexLoop matcher rtt acts fuel {} (1, 0) input).all (fun i => !i.isAbort) = true →
      (lexLoop matcher rtt acts fuel {} (1, 0) input).flatMap Item.chars = input) :=
  lexLoop_partition matcher rtt acts fuel {} (1, 0) input

open FgaVerif.Model.LexSim in
/-- the line and column recorded for a token or a token recognition error are those of the offset at
    which it starts (line = 1 + line breaks before it, column = characters since the last one) -/
theorem lexer_position_is_offset (matcher : Nat → List Char → MatchRes) (rtt : Array Nat)
    (acts : Array (Nat × Nat × Nat)) (fuel : Nat) (input : List Char) (pre : List Item) (it : Item) (post : List Item)
    (h : lexLoop matcher rtt acts fuel {} (1, 0) input = pre ++ it :: post) (hna : it.isAbort = false) :
    it.pos = advanceL (1, 0) (pre.flatMap Item.chars) ∧
    advanceL (1, 0) (pre.flatMap Item.chars) =
      ((splitLines (pre.flatMap Item.chars)).length, ((splitLines (pre.flatMap Item.chars)).getLastD []).length) :=
  ⟨lexLoop_positions matcher rtt acts fuel {} (1, 0) input pre it post h hna, advanceL_start _⟩

open FgaVerif.Model.LexSim in
/-- **every position the lexer reports lies inside the text**: the (1-based) line exists and the column
    is not beyond the end of that line — for every token of every channel and every token recognition
    error, whatever the automaton -/
theorem lexer_positions_inside_input (matcher : Nat → List Char → MatchRes) (rtt : Array Nat)
    (acts : Array (Nat × Nat × Nat)) (fuel : Nat) (input : List Char) (it : Item)
    (hmem : it ∈ lexLoop matcher rtt acts fuel {} (1, 0) input) (hna : it.isAbort = false) :
    ∃ ln, (splitLines input)[it.pos.1 - 1]? = some ln ∧ it.pos.2 ≤ ln.length :=
  lexLoop_position_inside matcher rtt acts fuel input it hmem hna

/-! non-vacuity: a toy matcher (letters form words, a blank is a one-character token, anything else is
    an error) on a two-line text; the error on line 2 is reported at column 1 -/
open FgaVerif.Model.LexSim in
def toyMatcher (_ : Nat) (cs : List Char) : MatchRes :=
  match cs with
  | [] => .eof
  | c :: rest => if c.isAlpha then .accept (1 + (rest.takeWhile Char.isAlpha).length) 0 []
                 else if c == ' ' || c == '\n' then .accept 1 1 [] else .fail 0
open FgaVerif.Model.LexSim in
example : (lexLoop toyMatcher #[5, 6] #[] 20 {} (1, 0) "ab c\nd@e".toList).map Item.pos =
    [(1, 0), (1, 2), (1, 3), (1, 4), (2, 0), (2, 1), (2, 2), (2, 3)] := by decide

/-! ### the open findings, as facts about the port (and, by correspondence, the code) -/
def kfFile : List (List Char) :=
  ["module m".toList, "type doc".toList, "  relations".toList, "    define viewer_all: [doc]".toList,
   "extend type folder".toList, "  relations".toList, "    define viewer: [doc]".toList]

/-- KF-C16-prefix-line: searching `define viewer` finds line 3 (`define viewer_all`), the clash is on line 6 -/
example : Merge.lineWithPrefix "define viewer" kfFile = some 3 := by decide
/-- KF-C16-substring-column: the column of `e` in `    define e: [doc]` is that of the `e` in `define` -/
example : (Merge.constructLineAndColumnData ["    define e: [doc]".toList] (some 0) "e").colStart = 5 := by decide
/-- KF-C16-spacing-not-found: two blanks after the keyword and the declaration is not found -/
example : Merge.lineWithPrefix "type doc" ["type  doc".toList] = none := by decide


/-! ### what the matcher of the lexer model computes: maximal munch with rule priority -/
section Munch
open FgaVerif.Model.LexSim FgaVerif.Model.LexSim.LexMunch

/-- the sequence of sets: the start set, then `reachSet` of the previous set on the next character; the
    run ends (`stopped`) at the end of the input or at the first empty reach set, and is out of fuel
    (`nofuel`) from the first `startSet`/`reachSet` that is -/
theorem munch_setAt_succ (sim : Sim) (s0 : Option (Array Config)) (input : List Char) (k : Nat) :
    setAt sim s0 input 0 = (match s0 with | none => .nofuel | some s => .set s) ∧
    setAt sim s0 input (k+1) =
      match setAt sim s0 input k with
      | .set cs =>
        match input[k]? with
        | none => .stopped
        | some ch =>
          match reachSet sim ch.toNat cs.toList #[] none with
          | none => .nofuel
          | some r => if r.isEmpty then .stopped else .set r
      | .stopped => .stopped
      | .nofuel => .nofuel := by
  cases s0 with
  | none => exact ⟨rfl, rfl⟩
  | some s => exact ⟨setFrom_zero sim s input, setFrom_succ sim input s k⟩

/-- a position is reached by the run exactly when it is at most `runLen`, which is at most the length -/
theorem munch_runLen (sim : Sim) (s : Array Config) (input : List Char) (k : Nat) :
    ((∃ cs, setAt sim (some s) input k = .set cs) ↔ k ≤ runLen sim (some s) input) ∧
    runLen sim (some s) input ≤ input.length :=
  ⟨setAt_set_iff sim s input k, runLen_le_length sim _ input⟩

/-- **maximal munch**: an accepted length is the last position at which a rule accepts — the rule and
    actions are those recorded there, nothing is recorded at any later position, and the length is among
    the positions the run reaches -/
theorem munch_accept_is_longest (sim : Sim) (starts : Array (Option (Array Config))) (mode : Nat) (input : List Char)
    (len rule : Nat) (acts : List Nat) (h : matchOne sim starts mode input = .accept len rule acts) :
    acceptAt sim (starts.getD mode none) input len = some (rule, acts) ∧
    (∀ k, len < k → acceptAt sim (starts.getD mode none) input k = none) ∧
    len ≤ runLen sim (starts.getD mode none) input ∧
    runLen sim (starts.getD mode none) input ≤ input.length ∧ len ≤ input.length := by
  obtain ⟨_, h2, h3, h4, h5⟩ := matchOne_accept sim starts mode input len rule acts h
  exact ⟨h2, h3, h4, runLen_le_length sim _ input, h5⟩

/-- … and conversely: this characterises the accept -/
theorem munch_accept_iff (sim : Sim) (starts : Array (Option (Array Config))) (mode : Nat) (input : List Char)
    (len rule : Nat) (acts : List Nat) :
    matchOne sim starts mode input = .accept len rule acts ↔
      (∀ k, setAt sim (starts.getD mode none) input k ≠ .nofuel) ∧
      acceptAt sim (starts.getD mode none) input len = some (rule, acts) ∧
      (∀ k, len < k → acceptAt sim (starts.getD mode none) input k = none) :=
  matchOne_accept_iff sim starts mode input len rule acts

/-- **rule priority**: the set after `len` characters is an ordered list `pre ++ cfg :: post` in which
    `cfg` is in a rule stop state and no configuration of `pre` is; the rule and the actions reported are
    those of `cfg` -/
theorem munch_accept_is_first_rule (sim : Sim) (starts : Array (Option (Array Config))) (mode : Nat) (input : List Char)
    (len rule : Nat) (acts : List Nat) (h : matchOne sim starts mode input = .accept len rule acts) :
    ∃ cs pre cfg post, setAt sim (starts.getD mode none) input len = .set cs ∧ cs.toList = pre ++ cfg :: post ∧
      isStop sim cfg = true ∧ (∀ c ∈ pre, isStop sim c = false) ∧
      rule = (stateOf sim cfg.state).rule ∧ acts = cfg.acts :=
  (acceptAt_eq_some_iff sim _ input len rule acts).1 (matchOne_accept sim starts mode input len rule acts h).2.1

/-- **rule priority, by alternative**: from the start set of a mode (`computeStartState` numbers the
    transitions of the mode's start state 1, 2, … in order, one per rule of the mode in grammar order)
    every set of the run is ordered by alternative, so the accepting configuration has the smallest
    alternative among the stop configurations of its set -/
theorem munch_accept_min_alt (sim : Sim) (starts : Array (Option (Array Config))) (mode : Nat) (input : List Char)
    (hst : starts.getD mode none = startSet sim mode)
    (len rule : Nat) (acts : List Nat) (h : matchOne sim starts mode input = .accept len rule acts) :
    ∃ cs cfg, setAtMode sim mode input len = .set cs ∧ firstStop sim cs = some cfg ∧
      rule = (stateOf sim cfg.state).rule ∧ acts = cfg.acts ∧ AltSorted cs.toList ∧
      ∀ c ∈ cs.toList, isStop sim c = true → cfg.alt ≤ c.alt := by
  obtain ⟨cs, pre, cfg, post, hset, hsplit, hstop, hpre, hr, ha⟩ :=
    munch_accept_is_first_rule sim starts mode input len rule acts h
  rw [hst] at hset
  have hsorted := setAtMode_sorted sim mode input len cs hset
  have hfs := (firstStop_eq_some_iff sim cs cfg).2 ⟨hstop, pre, post, hsplit, hpre⟩
  exact ⟨cs, cfg, hset, hfs, hr, ha, hsorted, firstStop_min_alt sim cs cfg hsorted hfs⟩

/-- the alternatives are the numbers (from 1) of the transitions of the mode's start state, i.e. of the
    rules of the mode in grammar order: no other number occurs in any set of the run -/
theorem munch_alt_range (sim : Sim) (mode : Nat) (input : List Char) (k : Nat) (cs : Array Config)
    (h : setAtMode sim mode input k = .set cs) :
    AltSorted cs.toList ∧
    ∀ x ∈ cs.toList, 1 ≤ x.alt ∧ x.alt ≤ (stateOf sim (sim.modeStart.getD mode 0)).trans.size :=
  ⟨setAtMode_sorted sim mode input k cs h, setAtMode_alts sim mode input k cs h⟩

/-- the token the loop emits for an accept of at least one character (when no lexer action aborts): its
    text is exactly the first `len` characters — the maximal munch of `munch_accept_is_longest` -/
theorem munch_token_item (sim : Sim) (starts : Array (Option (Array Config))) (rtt : Array Nat)
    (actions : Array (Nat × Nat × Nat)) (f : Nat) (st : LexState) (pos : Nat × Nat) (c : Char) (cs : List Char)
    (len rule : Nat) (as : List Nat) (h : matchOne sim starts st.mode (c :: cs) = .accept len rule as) (hl : 0 < len)
    (hab : (runActions actions as { ty := -100, channel := 0, st := st, abort := none }).abort = none) :
    ∃ ty ch, (lexLoop (matchOne sim starts) rtt actions (f+1) st pos (c :: cs)).head? =
        some (.tok { ty := ty, text := (c :: cs).take len, line := pos.1, col := pos.2, channel := ch }) ∧
      ((c :: cs).take len).length = len := by
  obtain ⟨ty, ch, heq⟩ := lexLoop_accept_step (matchOne sim starts) rtt actions f st pos c cs len rule as h hl hab
  refine ⟨ty, ch, by rw [heq]; rfl, ?_⟩
  have := (matchOne_accept sim starts st.mode (c :: cs) len rule as h).2.2.2.2
  simp only [List.length_take]
  omega

/-- the matcher `lexAll` uses takes its start sets from `startSet`, for the modes the automaton has -/
theorem munch_lexAll_starts (sim : Sim) (text : List Char) (mode : Nat) (hm : mode < sim.modeStart.size) :
    lexAll sim text = lexLoop (matchOne sim (startsOf sim)) sim.ruleTokenType sim.actions (text.length + 2) {} (1, 0) text ∧
    (startsOf sim).getD mode none = startSet sim mode := by
  refine ⟨rfl, ?_⟩
  rw [startsOf_getD, if_pos hm]

/-- **a failure means that no rule accepts anywhere**, and the count is exactly the number of characters
    the run consumed (at most the length of the input, which is not empty) -/
theorem munch_fail_means_no_accept (sim : Sim) (starts : Array (Option (Array Config))) (mode : Nat) (input : List Char)
    (n : Nat) (h : matchOne sim starts mode input = .fail n) :
    (∀ k, acceptAt sim (starts.getD mode none) input k = none) ∧
    n = runLen sim (starts.getD mode none) input ∧ n ≤ input.length ∧ input ≠ [] := by
  obtain ⟨_, h2, h3, h4, h5⟩ := matchOne_fail sim starts mode input n h
  exact ⟨h2, h3, h4, h5⟩

theorem munch_fail_iff (sim : Sim) (starts : Array (Option (Array Config))) (mode : Nat) (input : List Char) (n : Nat) :
    matchOne sim starts mode input = .fail n ↔
      (∀ k, setAt sim (starts.getD mode none) input k ≠ .nofuel) ∧
      (∀ k, acceptAt sim (starts.getD mode none) input k = none) ∧
      n = runLen sim (starts.getD mode none) input ∧ input ≠ [] :=
  matchOne_fail_iff sim starts mode input n

/-- the error item of the token loop for a failure: the `n` characters the run consumed and the one it
    could not consume, if there is one (`min (n+1) length`, at least 1, characters) — the span that
    `lexer_items_partition_input` accounts for -/
theorem munch_error_item (sim : Sim) (starts : Array (Option (Array Config))) (rtt : Array Nat)
    (actions : Array (Nat × Nat × Nat)) (f : Nat) (st : LexState) (pos : Nat × Nat) (c : Char) (cs : List Char) (n : Nat)
    (h : matchOne sim starts st.mode (c :: cs) = .fail n) :
    n = runLen sim (starts.getD st.mode none) (c :: cs) ∧
    (∀ k, acceptAt sim (starts.getD st.mode none) (c :: cs) k = none) ∧
    (lexLoop (matchOne sim starts) rtt actions (f+1) st pos (c :: cs)).head? =
      some (.err ((c :: cs).take (n+1)) pos.1 pos.2) ∧
    ((c :: cs).take (n+1)).length = min (n+1) (cs.length + 1) ∧ 1 ≤ ((c :: cs).take (n+1)).length :=
  lexLoop_error_text rtt actions sim starts f st pos c cs n h

/-- `.eof` exactly on the empty input, provided the start set has no stop configuration -/
theorem munch_eof_iff (sim : Sim) (starts : Array (Option (Array Config))) (mode : Nat) (input : List Char) :
    matchOne sim starts mode input = .eof ↔
      input = [] ∧ ∃ s, starts.getD mode none = some s ∧ firstStop sim s = none :=
  matchOne_eof_iff sim starts mode input

/-- all the answers on the empty input -/
theorem munch_empty_input (sim : Sim) (starts : Array (Option (Array Config))) (mode : Nat) :
    matchOne sim starts mode [] =
      match starts.getD mode none with
      | none => .stuck
      | some s =>
        match firstStop sim s with
        | some cfg => .accept 0 (stateOf sim cfg.state).rule cfg.acts
        | none => .eof :=
  matchOne_nil sim starts mode

/-- `.stuck` exactly when the closure fuel ran out: in the start set (position 0) or in the `reachSet`
    that leads to a position of the input -/
theorem munch_stuck_iff_fuel (sim : Sim) (starts : Array (Option (Array Config))) (mode : Nat) (input : List Char) :
    matchOne sim starts mode input = .stuck ↔
      ∃ k, k ≤ input.length ∧ setAt sim (starts.getD mode none) input k = .nofuel :=
  matchOne_stuck_iff sim starts mode input

/-- fuel is only fuel: an answer of `closure` is the answer with any larger fuel -/
theorem munch_closure_fuel_mono (sim : Sim) (f g : Nat) (hfg : f ≤ g) (cfg : Config) (cs : Array Config) (reached : Bool)
    (res : Array Config × Bool) (h : closure sim f cfg cs reached = some res) :
    closure sim g cfg cs reached = some res :=
  closure_fuel_mono sim f g hfg cfg cs reached res h

/-- … but no amount of fuel excludes `.stuck` for an arbitrary automaton: with an epsilon cycle `closure`
    fails for **every** fuel, and the matcher is stuck on every input -/
theorem munch_stuck_possible :
    (∀ (f : Nat) (cs : Array Config) (r : Bool),
      closure loopSim f { state := 1, alt := 1, ctx := [], ng := false, acts := [] } cs r = none) ∧
    ∀ input, matchOne loopSim (startsOf loopSim) 0 input = .stuck :=
  ⟨fun f cs r => (loopSim_closure_none f).1 _ cs r rfl, loopSim_stuck⟩

/-- **zero-length accepts**: `len = 0` only when the start set of the mode contains a stop configuration
    (some rule matches the empty string), whose rule and actions are reported; the token loop then stops
    with `abort "empty match"`.  Without such a configuration every accept has at least one character. -/
theorem munch_accept_len_positive_or_empty_rule (sim : Sim) (starts : Array (Option (Array Config))) (mode : Nat)
    (input : List Char) (len rule : Nat) (acts : List Nat) (h : matchOne sim starts mode input = .accept len rule acts) :
    0 < len ∨
    (len = 0 ∧ ∃ s cfg, starts.getD mode none = some s ∧ firstStop sim s = some cfg ∧
      rule = (stateOf sim cfg.state).rule ∧ acts = cfg.acts) := by
  cases len with
  | succ n => exact Or.inl (Nat.succ_pos n)
  | zero => exact Or.inr ⟨rfl, matchOne_accept_zero sim starts mode input rule acts h⟩

theorem munch_empty_match_aborts (matcher : Nat → List Char → MatchRes) (rtt : Array Nat)
    (actions : Array (Nat × Nat × Nat)) (f : Nat) (st : LexState) (pos : Nat × Nat) (c : Char) (cs : List Char)
    (rule : Nat) (as : List Nat) (h : matcher st.mode (c :: cs) = .accept 0 rule as) :
    lexLoop matcher rtt actions (f+1) st pos (c :: cs) = [.abort "empty match"] :=
  lexLoop_accept_zero_step matcher rtt actions f st pos c cs rule as h

/-! non-vacuity, on hand-built automata (`Proofs/LexMunch.lean`): `toySim` is
    `IF : 'if' ;  ID : [a-z]+ ;  WS : ' ' -> skip ;  ARROW : '->' ;` (rules 0–3) -/
deriving instance DecidableEq for Config
deriving instance DecidableEq for MatchRes
deriving instance DecidableEq for Token
deriving instance DecidableEq for Item

/-- the start set: one configuration per rule, in grammar order (alternatives 1 to 4) -/
example : startSet toySim 0 = some #[
    { state := 2, alt := 1, ctx := [], ng := false, acts := [] }, { state := 6, alt := 2, ctx := [], ng := false, acts := [] },
    { state := 10, alt := 3, ctx := [], ng := false, acts := [] }, { state := 14, alt := 4, ctx := [], ng := false, acts := [] }] := by
  with_unfolding_all decide
/-- longest match: `ifx` is one identifier (rule 1), although the keyword accepts at 2 -/
example : matchOne toySim (startsOf toySim) 0 "ifx y".toList = .accept 3 1 [] := by with_unfolding_all decide
example : (List.range 6).map (acceptAtMode toySim 0 "ifx y".toList) =
    [none, some (1, []), some (0, []), some (1, []), none, none] := by with_unfolding_all decide
example : runLen toySim (startSet toySim 0) "ifx y".toList = 3 := by with_unfolding_all decide
/-- priority: after `if` both the keyword (alternative 1) and the identifier (alternative 2) are in a stop
    state; the keyword (rule 0) is reported -/
example : matchOne toySim (startsOf toySim) 0 "if y".toList = .accept 2 0 [] := by with_unfolding_all decide
example : stopAlts toySim (setAtMode toySim 0 "if y".toList 2) = [1, 2] := by with_unfolding_all decide
/-- the actions of the accepting configuration: `-> skip` is action 0 -/
example : matchOne toySim (startsOf toySim) 0 " y".toList = .accept 1 2 [0] := by with_unfolding_all decide
/-- failures: nothing consumed; one character consumed and the next refused; one consumed and the input ends -/
example : matchOne toySim (startsOf toySim) 0 "1".toList = .fail 0 := by with_unfolding_all decide
example : matchOne toySim (startsOf toySim) 0 "-x".toList = .fail 1 := by with_unfolding_all decide
example : matchOne toySim (startsOf toySim) 0 "-".toList = .fail 1 := by with_unfolding_all decide
example : matchOne toySim (startsOf toySim) 0 [] = .eof := by with_unfolding_all decide
/-- a mode the automaton does not have -/
example : matchOne toySim (startsOf toySim) 1 "if".toList = .stuck := by with_unfolding_all decide
/-- the whole loop: keyword, identifier, a two-character error (`-x`: one consumed + 1), arrow, EOF -/
example : lexAll toySim "if ifx -x->".toList =
    [.tok { ty := 1, text := "if".toList, line := 1, col := 0, channel := 0 },
     .tok { ty := -3, text := " ".toList, line := 1, col := 2, channel := 0 },
     .tok { ty := 2, text := "ifx".toList, line := 1, col := 3, channel := 0 },
     .tok { ty := -3, text := " ".toList, line := 1, col := 6, channel := 0 },
     .err "-x".toList 1 7,
     .tok { ty := 4, text := "->".toList, line := 1, col := 9, channel := 0 },
     .tok { ty := -1, text := [], line := 1, col := 11, channel := 0 }] := by with_unfolding_all decide
/-- `emptySim` is `AS : 'a'* ;`: the start set contains a stop configuration, so the answer on the empty
    input is a zero-length accept and **not** `.eof`; before a `b` the token loop stops -/
example : matchOne emptySim (startsOf emptySim) 0 [] = .accept 0 0 [] := by with_unfolding_all decide
example : matchOne emptySim (startsOf emptySim) 0 "b".toList = .accept 0 0 [] := by with_unfolding_all decide
example : matchOne emptySim (startsOf emptySim) 0 "aab".toList = .accept 2 0 [] := by with_unfolding_all decide
example : lexAll emptySim "ab".toList =
    [.tok { ty := 1, text := "a".toList, line := 1, col := 0, channel := 0 }, .abort "empty match"] := by
  with_unfolding_all decide

/-- "longest" is among the positions the *pruned* simulation reaches, not among the prefixes in the
    language of a rule: with the non-greedy `Q : '"' .*? '"'` the run on `"a"b"` ends after the first
    closing quote (the configurations that passed through the non-greedy decision are dropped once the
    alternative has reached its stop state), with the greedy `'"' .* '"'` it goes on to the last one -/
example : matchOne (quoteSim true) (startsOf (quoteSim true)) 0 "\"a\"b\"".toList = .accept 3 0 [] := by
  with_unfolding_all decide
example : runLen (quoteSim true) (startSet (quoteSim true) 0) "\"a\"b\"".toList = 3 := by with_unfolding_all decide
example : matchOne (quoteSim false) (startsOf (quoteSim false)) 0 "\"a\"b\"".toList = .accept 5 0 [] := by
  with_unfolding_all decide
example : (List.range 7).map (acceptAtMode (quoteSim false) 0 "\"a\"b\"".toList) =
    [none, none, none, some (0, []), none, some (0, []), none] := by with_unfolding_all decide

end Munch

end FgaVerif.Props.C16
