/-! S-expressions: the line protocol between the Go harness and the Lean driver.
    atom: bare token; string: "…" with escapes \\ \" \n \r \t \u{hex}; list: ( … ) -/
namespace FgaVerif

inductive Sexp where
  | atom (s : String)
  | str (s : String)
  | list (xs : List Sexp)
  deriving Repr, Inhabited, BEq

namespace Sexp

def hexVal (c : Char) : Option Nat :=
  if '0' ≤ c ∧ c ≤ '9' then some (c.toNat - '0'.toNat)
  else if 'a' ≤ c ∧ c ≤ 'f' then some (c.toNat - 'a'.toNat + 10)
  else if 'A' ≤ c ∧ c ≤ 'F' then some (c.toNat - 'A'.toNat + 10)
  else none

structure P where
  s : Array Char
  i : Nat

def isDelim (c : Char) : Bool := c == ' ' || c == '(' || c == ')' || c == '"' || c == '\n' || c == '\t' || c == '\r'

partial def skipWs (p : P) : P :=
  if h : p.i < p.s.size then
    let c := p.s[p.i]
    if c == ' ' || c == '\n' || c == '\t' || c == '\r' then skipWs { p with i := p.i + 1 } else p
  else p

partial def readStr (p : P) (acc : String) : Option (String × P) :=
  if h : p.i < p.s.size then
    let c := p.s[p.i]
    if c == '"' then some (acc, { p with i := p.i + 1 })
    else if c == '\\' then
      if h2 : p.i + 1 < p.s.size then
        let d := p.s[p.i + 1]
        if d == 'n' then readStr { p with i := p.i + 2 } (acc.push '\n')
        else if d == 'r' then readStr { p with i := p.i + 2 } (acc.push '\r')
        else if d == 't' then readStr { p with i := p.i + 2 } (acc.push '\t')
        else if d == 'u' then
          -- \u{hex}
          let rec hex (j : Nat) (v : Nat) (fuel : Nat) : Option (Nat × Nat) :=
            match fuel with
            | 0 => none
            | fuel+1 =>
              if h3 : j < p.s.size then
                let e := p.s[j]
                if e == '}' then some (v, j + 1)
                else match hexVal e with
                  | some x => hex (j + 1) (v * 16 + x) fuel
                  | none => none
              else none
          match hex (p.i + 3) 0 10 with
          | some (v, j) => readStr { p with i := j } (acc.push (Char.ofNat v))
          | none => none
        else readStr { p with i := p.i + 2 } (acc.push d)
      else none
    else readStr { p with i := p.i + 1 } (acc.push c)
  else none

partial def readAtom (p : P) (acc : String) : String × P :=
  if h : p.i < p.s.size then
    let c := p.s[p.i]
    if isDelim c then (acc, p) else readAtom { p with i := p.i + 1 } (acc.push c)
  else (acc, p)

mutual
  partial def read (p : P) : Option (Sexp × P) :=
    let p := skipWs p
    if h : p.i < p.s.size then
      let c := p.s[p.i]
      if c == '(' then readList { p with i := p.i + 1 } []
      else if c == ')' then none
      else if c == '"' then
        match readStr { p with i := p.i + 1 } "" with
        | some (s, p') => some (.str s, p')
        | none => none
      else
        let (a, p') := readAtom p ""
        some (.atom a, p')
    else none
  partial def readList (p : P) (acc : List Sexp) : Option (Sexp × P) :=
    let p := skipWs p
    if h : p.i < p.s.size then
      if p.s[p.i] == ')' then some (.list acc.reverse, { p with i := p.i + 1 })
      else match read p with
        | some (x, p') => readList p' (x :: acc)
        | none => none
    else none
end

def parse (line : String) : Option Sexp :=
  match read { s := line.toList.toArray, i := 0 } with
  | some (x, _) => some x
  | none => none

def quote (s : String) : String := Id.run do
  let mut out := "\""
  for c in s.toList do
    if c == '"' then out := out ++ "\\\""
    else if c == '\\' then out := out ++ "\\\\"
    else if c == '\n' then out := out ++ "\\n"
    else if c == '\r' then out := out ++ "\\r"
    else if c == '\t' then out := out ++ "\\t"
    else if c.toNat < 32 || c.toNat == 127 then
      out := out ++ "\\u{" ++ String.ofList (Nat.toDigits 16 c.toNat) ++ "}"
    else out := out.push c
  return out.push '"'

partial def toString : Sexp → String
  | .atom a => a
  | .str s => quote s
  | .list xs => "(" ++ " ".intercalate (xs.map toString) ++ ")"

instance : ToString Sexp := ⟨Sexp.toString⟩

end Sexp
end FgaVerif
