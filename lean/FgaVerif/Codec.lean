import FgaVerif.Sexp
import FgaVerif.Model.Ast
import FgaVerif.Model.Tree
import FgaVerif.Model.Listener
import FgaVerif.Model.Merge
/-! Canonical S-expression encoding of models (shared with the Go harness' `canonModel`). -/
namespace FgaVerif.Codec
open FgaVerif FgaVerif.Model

def str? : Sexp → Option String
  | .str s => some s
  | _ => none

def bool? : Sexp → Option Bool
  | .atom "true" => some true
  | .atom "false" => some false
  | _ => none

def nat? : Sexp → Option Nat
  | .atom a => a.toNat?
  | _ => none

mutual
  partial def decUserset : Sexp → Option Userset
    | .atom "this" => some .this
    | .atom "nil" => some .nil
    | .list [.atom "cu", .str r] => some (.computed r)
    | .list [.atom "ttu", .str ts, .str cu] => some (.ttu ts cu)
    | .list (.atom "union" :: cs) => (cs.mapM decUserset).map .union
    | .list (.atom "inter" :: cs) => (cs.mapM decUserset).map .inter
    | .list [.atom "diff", b, s] => do
        let b' ← decUserset b
        let s' ← decUserset s
        pure (.diff b' s')
    | _ => none
end

def decRef : Sexp → Option RelRef
  | .list [.str t, .str r, w, .str c] => do
      let w' ← bool? w
      pure { type := t, rel := r, wildcard := w', cond := c }
  | _ => none

def decRelMeta : Sexp → Option (String × RelMeta)
  | .list [.str n, .str m, .str f, .list refs] => do
      let rs ← refs.mapM decRef
      pure (n, { restr := rs, module := m, file := f })
  | _ => none

def decTypeMeta : Sexp → Option (Option TypeMeta)
  | .atom "nometa" => some none
  | .list [.atom "meta", .str m, .str f, .list rms] => do
      let rs ← rms.mapM decRelMeta
      pure (some { relations := AList.ofList rs, module := m, file := f })
  | _ => none

def decRel : Sexp → Option (String × Userset)
  | .list [.str n, u] => (decUserset u).map (fun u' => (n, u'))
  | _ => none

def decType : Sexp → Option TypeDef
  | .list [.atom "type", .str n, .list rels, md] => do
      let rs ← rels.mapM decRel
      let md' ← decTypeMeta md
      pure { name := n, relations := AList.ofList rs, md := md' }
  | _ => none

def decParam : Sexp → Option (String × CondParam)
  | .list [.str n, .str t, .list gs] => do
      let gs' ← gs.mapM str?
      pure (n, { typeName := t, generics := gs' })
  | _ => none

def decCondMeta : Sexp → Option (Option CondMeta)
  | .atom "nometa" => some none
  | .list [.atom "meta", .str m, .str f] => some (some { module := m, file := f })
  | _ => none

def decCond : Sexp → Option (String × Condition)
  | .list [.str k, .str n, .str e, .list ps, md] => do
      let ps' ← ps.mapM decParam
      let md' ← decCondMeta md
      pure (k, { name := n, expr := e, params := AList.ofList ps', md := md' })
  | _ => none

def decModel : Sexp → Option Model
  | .list [.atom "model", .str v, .list ts, .list cs] => do
      let ts' ← ts.mapM decType
      let cs' ← cs.mapM decCond
      pure { schema := v, types := ts', conds := AList.ofList cs' }
  | _ => none

/-! encoding -/
mutual
  partial def encUserset : Userset → Sexp
    | .this => .atom "this"
    | .nil => .atom "nil"
    | .computed r => .list [.atom "cu", .str r]
    | .ttu ts cu => .list [.atom "ttu", .str ts, .str cu]
    | .union cs => .list (.atom "union" :: cs.map encUserset)
    | .inter cs => .list (.atom "inter" :: cs.map encUserset)
    | .diff b s => .list [.atom "diff", encUserset b, encUserset s]
end

def encBool (b : Bool) : Sexp := .atom (if b then "true" else "false")

def encRef (r : RelRef) : Sexp := .list [.str r.type, .str r.rel, encBool r.wildcard, .str r.cond]

def encTypeMeta : Option TypeMeta → Sexp
  | none => .atom "nometa"
  | some m => .list [.atom "meta", .str m.module, .str m.file,
      .list (m.relations.map fun (n, rm) => .list [.str n, .str rm.module, .str rm.file, .list (rm.restr.map encRef)])]

def encType (t : TypeDef) : Sexp :=
  .list [.atom "type", .str t.name, .list (t.relations.map fun (n, u) => .list [.str n, encUserset u]), encTypeMeta t.md]

def encCondMeta : Option CondMeta → Sexp
  | none => .atom "nometa"
  | some m => .list [.atom "meta", .str m.module, .str m.file]

def encCond (k : String) (c : Condition) : Sexp :=
  .list [.str k, .str c.name, .str c.expr,
    .list (c.params.map fun (n, p) => .list [.str n, .str p.typeName, .list (p.generics.map .str)]),
    encCondMeta c.md]

def encModel (m : Model) : Sexp :=
  .list [.atom "model", .str m.schema, .list (m.types.map encType), .list (m.conds.map fun (k, c) => encCond k c)]

/-! parse trees and listener outcomes -/
def decLabel : Sexp → Option (String × Nat)
  | .list [.atom l, i] => (nat? i).map (fun n => (l, n))
  | _ => none

mutual
  partial def decTree : Sexp → Option Tree
    | .list [.atom "t", .atom ty, .str tx, l, c] => do
        pure (.tok ty tx (← nat? l) (← nat? c) false)
    | .list [.atom "e", .atom ty, .str tx, l, c] => do
        pure (.tok ty tx (← nat? l) (← nat? c) true)
    | .list [.atom "r", .str name, sl, sc, .list ls, .list cs] => do
        let ls' ← ls.mapM decLabel
        let cs' ← cs.mapM decTree
        pure (.rule name (← nat? sl) (← nat? sc) ls' cs')
    | _ => none
end

def decErr : Sexp → Option Listener.SynErr
  | .list [l, c, .str m] => do pure ⟨← nat? l, ← nat? c, m⟩
  | _ => none

def decErrs : Sexp → Option (List Listener.SynErr)
  | .list (.atom "errors" :: es) => es.mapM decErr
  | _ => none

def encErrs (es : List Listener.SynErr) : Sexp :=
  .list (.atom "errors" :: es.map fun e => .list [.atom (toString e.line), .atom (toString e.col), .str e.msg])

def encExts : Option (List (String × Nat)) → Sexp
  | none => .atom "noexts"
  | some xs => .list (.atom "exts" :: xs.map fun (k, i) => .list [.str k, .atom (toString i)])

def encPanic : Listener.Panic → Sexp
  | .nilDeref w => .list [.atom "panic", .atom "nil-deref", .str w]
  | .index w => .list [.atom "panic", .atom "index", .str w]
  | .nilMap w => .list [.atom "panic", .atom "nil-map", .str w]

def encOutcome : Listener.Outcome → Sexp
  | .panic p => encPanic p
  | .errors es => encErrs es
  | .ok m exts => .list [.atom "ok", encModel m, encExts exts]

def encMergeErr : Merge.MergeErr → Sexp
  | .syn e => .list [.atom "syn", .atom (toString e.line), .atom (toString e.col), .str e.msg]
  | .mod msg file p => .list [.atom "mod", .str msg, .str file, .atom (toString p.lineStart), .atom (toString p.lineEnd),
      .atom (toString p.colStart), .atom (toString p.colEnd)]

def encMergeOutcome : Merge.MergeOutcome → Sexp
  | .panic p => encPanic p
  | .errors es => .list (.atom "errors" :: es.map encMergeErr)
  | .ok m => .list [.atom "ok", encModel m]

end FgaVerif.Codec
