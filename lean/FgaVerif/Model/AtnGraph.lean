import FgaVerif.Model.Conform
import FgaVerif.Engine.Sort
/-! The serialized parser ATN (ANTLR 4 format, version 4) read back into states and edges, and a
    comparison with the grammar rules at the precision of Glushkov's local sets: per rule, whether it
    is nullable, which symbols can come first, which can come last, and which symbol can follow which.
    Symbols are token names and rule names; token sets and complements are expanded against the
    vocabulary.  Both sides are computed from regenerated data (`Gen/Atn.lean`, `Gen/Grammar.lean`). -/
namespace FgaVerif.Model.AtnGraph
open FgaVerif.Model.Conform

structure Edge where
  src : Nat
  trg : Nat
  ty : Nat
  a1 : Nat
  a2 : Nat
  a3 : Nat
  deriving Repr, Inhabited

structure Atn where
  maxTok : Nat
  stateRule : List (Option Nat)       -- state ↦ rule index (none: invalid state)
  stateType : List Nat
  ruleStart : List Nat
  sets : List (List (Nat × Nat))      -- intervals
  edges : List Edge
  decisions : List Nat := []          -- decision number ↦ decision state
  deriving Repr, Inhabited

def nat (i : Int) : Nat := i.toNat

/-- read `n` states -/
def readStates : Nat → List Int → List (Option Nat) → List Nat → Option (List (Option Nat) × List Nat × List Int)
  | 0, rest, rs, ts => some (rs.reverse, ts.reverse, rest)
  | n+1, ty :: rest, rs, ts =>
    if ty == 0 then readStates n rest (none :: rs) (0 :: ts)
    else match rest with
      | ri :: rest =>
        let r : Option Nat := if ri < 0 || ri == 65535 then none else some (nat ri)
        if ty == 12 || ty == 3 || ty == 4 || ty == 5 then
          match rest with
          | _ :: rest => readStates n rest (r :: rs) (nat ty :: ts)
          | [] => none
        else readStates n rest (r :: rs) (nat ty :: ts)
      | [] => none
  | _+1, [], _, _ => none

def readList : Nat → List Int → List Nat → Option (List Nat × List Int)
  | 0, rest, acc => some (acc.reverse, rest)
  | n+1, x :: rest, acc => readList n rest (nat x :: acc)
  | _+1, [], _ => none

def readIntervals : Nat → List Int → List (Nat × Nat) → Option (List (Nat × Nat) × List Int)
  | 0, rest, acc => some (acc.reverse, rest)
  | n+1, a :: b :: rest, acc => readIntervals n rest ((nat a, nat b) :: acc)
  | _+1, _, _ => none

def readSets : Nat → List Int → List (List (Nat × Nat)) → Option (List (List (Nat × Nat)) × List Int)
  | 0, rest, acc => some (acc.reverse, rest)
  | n+1, k :: _eof :: rest, acc =>
    match readIntervals (nat k) rest [] with
    | some (iv, rest) => readSets n rest (iv :: acc)
    | none => none
  | _+1, _, _ => none

def readEdges : Nat → List Int → List Edge → Option (List Edge × List Int)
  | 0, rest, acc => some (acc.reverse, rest)
  | n+1, a :: b :: c :: d :: e :: f :: rest, acc => readEdges n rest (⟨nat a, nat b, nat c, nat d, nat e, nat f⟩ :: acc)
  | _+1, _, _ => none

/-- parser ATN only (grammar type 1) -/
def deserialize (xs : List Int) : Option Atn :=
  match xs with
  | 4 :: 1 :: maxTok :: nstates :: rest =>
    match readStates (nat nstates) rest [] [] with
    | none => none
    | some (srule, stype, rest) =>
      match rest with
      | nng :: rest =>
        match readList (nat nng) rest [] with
        | none => none
        | some (_, rest) =>
          match rest with
          | np :: rest =>
            match readList (nat np) rest [] with
            | none => none
            | some (_, rest) =>
              match rest with
              | nr :: rest =>
                match readList (nat nr) rest [] with
                | none => none
                | some (starts, rest) =>
                  match rest with
                  | nm :: rest =>
                    match readList (nat nm) rest [] with
                    | none => none
                    | some (_, rest) =>
                      match rest with
                      | ns :: rest =>
                        match readSets (nat ns) rest [] with
                        | none => none
                        | some (sets, rest) =>
                          match rest with
                          | ne :: rest =>
                            match readEdges (nat ne) rest [] with
                            | none => none
                            | some (edges, rest) =>
                              let decisions : List Nat :=
                                match rest with
                                | nd :: rest => ((readList (nat nd) rest []).map (·.1)).getD []
                                | [] => []
                              some { maxTok := nat maxTok, stateRule := srule, stateType := stype, ruleStart := starts,
                                     sets := sets, edges := edges, decisions := decisions }
                          | [] => none
                      | [] => none
                  | [] => none
              | [] => none
          | [] => none
      | [] => none
  | _ => none

/-! ### local sets of the ATN

    Sets of symbols are bit sets in one natural number (kernel evaluation is fast on `Nat` and slow on
    lists of strings): token type `t` is bit `t` (EOF is bit 0), rule `r` is bit `64 + r`; the follow
    relation is one number with bit `x * 128 + y` set when `y` can follow `x`. -/

def bit (c : Nat) : Nat := 1 <<< c
def ruleBit (r : Nat) : Nat := bit (64 + r)
def bitsOf (s : Nat) : List Nat := (List.range 128).filter (fun i => s.testBit i)

/-- all pairs (x, y) with x in `xs`, y in `ys` -/
def cross (xs ys : Nat) : Nat := (bitsOf xs).foldl (fun acc x => acc ||| (ys <<< (x * 128))) 0

def intervalMask (a b : Nat) : Nat := ((1 <<< (b + 1 - a)) - 1) <<< a
def setMask (iv : List (Nat × Nat)) : Nat := iv.foldl (fun acc (a, b) => acc ||| intervalMask a b) 0
def allToksMask (maxTok : Nat) : Nat := intervalMask 1 maxTok

/-- the symbols an edge consumes (0 for an epsilon-like edge) -/
def edgeSyms (a : Atn) (e : Edge) : Nat :=
  match e.ty with
  | 5 => if e.a3 != 0 then bit 0 else bit e.a1                             -- ATOM
  | 2 => intervalMask e.a1 e.a2                                            -- RANGE
  | 7 => setMask ((a.sets[e.a1]?).getD [])                                 -- SET
  | 8 => allToksMask a.maxTok ^^^ (setMask ((a.sets[e.a1]?).getD []) &&& allToksMask a.maxTok)  -- NOT_SET
  | 9 => allToksMask a.maxTok                                              -- WILDCARD
  | 3 => ruleBit e.a2                                                      -- RULE
  | _ => 0

def isEps (e : Edge) : Bool := e.ty == 1 || e.ty == 4 || e.ty == 6 || e.ty == 10

/-- states reachable through epsilon edges of `es` (fuelled breadth-first search) -/
def epsClosure (es : List Edge) : Nat → List Nat → List Nat → List Nat
  | 0, seen, _ => seen
  | _, seen, [] => seen
  | f+1, seen, s :: work =>
    let next := ((es.filter (fun e => e.src == s && isEps e)).map (·.trg)).filter (fun t => !seen.contains t)
    let next := next.eraseDups
    epsClosure es f (seen ++ next) (work ++ next)

def closureOf (es : List Edge) (s : Nat) : List Nat := epsClosure es (es.length + 2) [s] [s]

/-- symbols that can be consumed next from state `s` -/
def nextSyms (a : Atn) (es : List Edge) (s : Nat) : Nat :=
  let cl := closureOf es s
  es.foldl (fun acc e => if cl.contains e.src then acc ||| edgeSyms a e else acc) 0

def ruleStop (a : Atn) (r : Nat) : Option Nat :=
  (List.range a.stateRule.length).find? (fun s => a.stateRule[s]? == some (some r) && a.stateType[s]? == some 7)

structure Local where
  nullable : Bool
  first : Nat
  last : Nat
  follow : Nat
  deriving Repr, DecidableEq, Inhabited, BEq

/-- the edges that leave a state of rule `r` (epsilon edges never leave the rule; a rule reference is
    a symbol edge whose target is the follow state inside the rule) -/
def ruleEdges (a : Atn) (r : Nat) : List Edge := a.edges.filter (fun e => a.stateRule[e.src]? == some (some r))

def atnLocal (a : Atn) (r : Nat) : Local :=
  match a.ruleStart[r]?, ruleStop a r with
  | some start, some stop =>
    let es := ruleEdges a r
    let symEdges := es.filter (fun e => edgeSyms a e != 0)
    { nullable := (closureOf es start).contains stop,
      first := nextSyms a es start,
      last := symEdges.foldl (fun acc e => if (closureOf es e.trg).contains stop then acc ||| edgeSyms a e else acc) 0,
      follow := symEdges.foldl (fun acc e => acc ||| cross (edgeSyms a e) (nextSyms a es e.trg)) 0 }
  | _, _ => { nullable := false, first := 0, last := 0, follow := 1 }

/-! ### local sets of a grammar rule body -/

/-- a grammar body with names resolved to bit sets -/
inductive NGram where
  | sym (s : Nat)                 -- the bit set of symbols this leaf matches
  | seq (xs : List NGram)
  | alt (xs : List NGram)
  | opt (g : NGram)
  | star (g : NGram)
  | plus (g : NGram)
  deriving Repr, Inhabited

def idxOf (xs : List String) (x : String) : Nat := (xs.findIdx? (· == x)).getD 127

mutual
  /-- resolve token names through the symbolic-name table and rule names through the rule table -/
  def resolve (maxTok : Nat) (symbolic rules : List String) : Gram → NGram
    | .tok ty => .sym (if ty == "EOF" then bit 0 else bit (idxOf symbolic ty))
    | .notTok tys => .sym (allToksMask maxTok ^^^ ((tys.foldl (fun acc t => acc ||| bit (idxOf symbolic t)) 0) &&& allToksMask maxTok))
    | .rule n => .sym (ruleBit (idxOf rules n))
    | .label _ g => resolve maxTok symbolic rules g
    | .opt g => .opt (resolve maxTok symbolic rules g)
    | .star g => .star (resolve maxTok symbolic rules g)
    | .plus g => .plus (resolve maxTok symbolic rules g)
    | .seq xs => .seq (resolveL maxTok symbolic rules xs)
    | .alt xs => .alt (resolveL maxTok symbolic rules xs)
  def resolveL (maxTok : Nat) (symbolic rules : List String) : List Gram → List NGram
    | [] => []
    | g :: gs => resolve maxTok symbolic rules g :: resolveL maxTok symbolic rules gs
end

mutual
  def gramLocal : NGram → Local
    | .sym s => ⟨false, s, s, 0⟩
    | .opt g => let l := gramLocal g; ⟨true, l.first, l.last, l.follow⟩
    | .star g => let l := gramLocal g; ⟨true, l.first, l.last, l.follow ||| cross l.last l.first⟩
    | .plus g => let l := gramLocal g; ⟨l.nullable, l.first, l.last, l.follow ||| cross l.last l.first⟩
    | .seq xs => seqLocal xs
    | .alt xs => altLocal xs
  def seqLocal : List NGram → Local
    | [] => ⟨true, 0, 0, 0⟩
    | g :: gs =>
      let a := gramLocal g
      let b := seqLocal gs
      ⟨a.nullable && b.nullable,
       a.first ||| (if a.nullable then b.first else 0),
       b.last ||| (if b.nullable then a.last else 0),
       a.follow ||| b.follow ||| cross a.last b.first⟩
  def altLocal : List NGram → Local
    | [] => ⟨false, 0, 0, 0⟩
    | g :: gs =>
      let a := gramLocal g
      let b := altLocal gs
      ⟨a.nullable || b.nullable, a.first ||| b.first, a.last ||| b.last, a.follow ||| b.follow⟩
end


/-! ## The lexer

    The same comparison for `OpenFGALexer.g4` and the lexer ATN.  Symbols are characters and references
    to other lexer rules (fragments and token rules).  Character sets are evaluated on a sample
    alphabet: every ASCII code point and nine code points beyond (128, 255, 256, 0x2028, 0xD7FF,
    0xE000, 0xFFFF, 0x10000, 0x10FFFF); `sets_are_ascii_or_cofinite` (Props/C19) shows that every set of
    the automaton has all its interval bounds below 128 or at 0x10FFFF, so the samples beyond ASCII stand
    for all of their kind. -/

inductive LGram where
  | set (iv : List (Nat × Nat)) (neg : Bool)
  | any
  | ref (name : String)
  | seq (xs : List LGram)
  | alt (xs : List LGram)
  | opt (g : LGram)
  | star (g : LGram)
  | plus (g : LGram)
  deriving Repr, Inhabited

structure LexRule where
  name : String
  fragment : Bool
  mode : String
  body : LGram
  commands : List (String × String)
  deriving Repr, Inhabited

structure LexAtn where
  base : Atn
  ruleTokenType : List Nat
  modeStart : List Nat
  actions : List (Nat × Nat × Nat)
  nonGreedy : List Nat := []          -- decision states marked non-greedy
  deriving Repr, Inhabited

def readPairs : Nat → List Int → List (Nat × Nat) → Option (List (Nat × Nat) × List Int)
  | 0, rest, acc => some (acc.reverse, rest)
  | n+1, a :: b :: rest, acc => readPairs n rest ((nat a, if b == 65535 then 0 else nat b) :: acc)
  | _+1, _, _ => none

def readTriples : Nat → List Int → List (Nat × Nat × Nat) → Option (List (Nat × Nat × Nat) × List Int)
  | 0, rest, acc => some (acc.reverse, rest)
  | n+1, a :: b :: c :: rest, acc => readTriples n rest ((nat a, nat b, nat c) :: acc)
  | _+1, _, _ => none

/-- lexer ATN (grammar type 0) -/
def deserializeLexer (xs : List Int) : Option LexAtn :=
  match xs with
  | 4 :: 0 :: maxTok :: nstates :: rest =>
    match readStates (nat nstates) rest [] [] with
    | none => none
    | some (srule, stype, rest) =>
      match rest with
      | nng :: rest =>
        match readList (nat nng) rest [] with
        | none => none
        | some (nonGreedy, rest) =>
          match rest with
          | np :: rest =>
            match readList (nat np) rest [] with
            | none => none
            | some (_, rest) =>
              match rest with
              | nr :: rest =>
                match readPairs (nat nr) rest [] with
                | none => none
                | some (rulePairs, rest) =>
                  match rest with
                  | nm :: rest =>
                    match readList (nat nm) rest [] with
                    | none => none
                    | some (modes, rest) =>
                      match rest with
                      | ns :: rest =>
                        match readSets (nat ns) rest [] with
                        | none => none
                        | some (sets, rest) =>
                          match rest with
                          | ne :: rest =>
                            match readEdges (nat ne) rest [] with
                            | none => none
                            | some (edges, rest) =>
                              match rest with
                              | nd :: rest =>
                                match readList (nat nd) rest [] with
                                | none => none
                                | some (_, rest) =>
                                  match rest with
                                  | na :: rest =>
                                    match readTriples (nat na) rest [] with
                                    | none => none
                                    | some (actions, _) =>
                                      some { base := { maxTok := nat maxTok, stateRule := srule, stateType := stype,
                                                       ruleStart := rulePairs.map (·.1), sets := sets, edges := edges },
                                             ruleTokenType := rulePairs.map (·.2), modeStart := modes, actions := actions,
                                             nonGreedy := nonGreedy }
                                  | [] => none
                              | [] => none
                          | [] => none
                      | [] => none
                  | [] => none
              | [] => none
          | [] => none
      | [] => none
  | _ => none

def extraSamples : List Nat := [128, 255, 256, 0x2028, 0xD7FF, 0xE000, 0xFFFF, 0x10000, 0x10FFFF]

/-- the sample characters inside the intervals, as a bit set (ASCII code point `c` is bit `c`; the
    j-th extra sample is bit `128 + j`) -/
def sampleMask (iv : List (Nat × Nat)) : Nat :=
  iv.foldl (fun acc (a, b) =>
    let ascii := if a ≤ 127 then intervalMask a (min b 127) else 0
    let extra := (List.range extraSamples.length).foldl (fun m j =>
      let c := (extraSamples[j]?).getD 0
      if a ≤ c && c ≤ b then m ||| bit (128 + j) else m) 0
    acc ||| ascii ||| extra) 0

def allSamples : Nat := sampleMask [(0, 0x10FFFF)]
def lexRuleBit (r : Nat) : Nat := bit (160 + r)
def bitsOf256 (s : Nat) : List Nat := (List.range 256).filter (fun i => s.testBit i)
def cross256 (xs ys : Nat) : Nat := (bitsOf256 xs).foldl (fun acc x => acc ||| (ys <<< (x * 256))) 0

def lexEdgeSyms (a : Atn) (e : Edge) : Nat :=
  match e.ty with
  | 5 => sampleMask [(e.a1, e.a1)]
  | 2 => sampleMask [(e.a1, e.a2)]
  | 7 => sampleMask ((a.sets[e.a1]?).getD [])
  | 8 => allSamples ^^^ sampleMask ((a.sets[e.a1]?).getD [])
  | 9 => allSamples
  | 3 => lexRuleBit e.a2
  | _ => 0

def lexNextSyms (a : Atn) (es : List Edge) (s : Nat) : Nat :=
  let cl := closureOf es s
  es.foldl (fun acc e => if cl.contains e.src then acc ||| lexEdgeSyms a e else acc) 0

def lexAtnLocal (a : Atn) (r : Nat) : Local :=
  match a.ruleStart[r]?, ruleStop a r with
  | some start, some stop =>
    let es := ruleEdges a r
    let symEdges := es.filter (fun e => lexEdgeSyms a e != 0)
    { nullable := (closureOf es start).contains stop,
      first := lexNextSyms a es start,
      last := symEdges.foldl (fun acc e => if (closureOf es e.trg).contains stop then acc ||| lexEdgeSyms a e else acc) 0,
      follow := symEdges.foldl (fun acc e => acc ||| cross256 (lexEdgeSyms a e) (lexNextSyms a es e.trg)) 0 }
  | _, _ => { nullable := false, first := 0, last := 0, follow := 1 }

mutual
  def lexResolve (rules : List String) : LGram → NGram
    | .set iv neg => .sym (if neg then allSamples ^^^ sampleMask iv else sampleMask iv)
    | .any => .sym allSamples
    | .ref n => .sym (lexRuleBit (idxOf rules n))
    | .opt g => .opt (lexResolve rules g)
    | .star g => .star (lexResolve rules g)
    | .plus g => .plus (lexResolve rules g)
    | .seq xs => .seq (lexResolveL rules xs)
    | .alt xs => .alt (lexResolveL rules xs)
  def lexResolveL (rules : List String) : List LGram → List NGram
    | [] => []
    | g :: gs => lexResolve rules g :: lexResolveL rules gs
end

mutual
  def gramLocal256 : NGram → Local
    | .sym s => ⟨false, s, s, 0⟩
    | .opt g => let l := gramLocal256 g; ⟨true, l.first, l.last, l.follow⟩
    | .star g => let l := gramLocal256 g; ⟨true, l.first, l.last, l.follow ||| cross256 l.last l.first⟩
    | .plus g => let l := gramLocal256 g; ⟨l.nullable, l.first, l.last, l.follow ||| cross256 l.last l.first⟩
    | .seq xs => seqLocal256 xs
    | .alt xs => altLocal256 xs
  def seqLocal256 : List NGram → Local
    | [] => ⟨true, 0, 0, 0⟩
    | g :: gs =>
      let a := gramLocal256 g
      let b := seqLocal256 gs
      ⟨a.nullable && b.nullable,
       a.first ||| (if a.nullable then b.first else 0),
       b.last ||| (if b.nullable then a.last else 0),
       a.follow ||| b.follow ||| cross256 a.last b.first⟩
  def altLocal256 : List NGram → Local
    | [] => ⟨false, 0, 0, 0⟩
    | g :: gs =>
      let a := gramLocal256 g
      let b := altLocal256 gs
      ⟨a.nullable || b.nullable, a.first ||| b.first, a.last ||| b.last, a.follow ||| b.follow⟩
end

/-- the lexer commands of rule `r` in the automaton: (action type, argument), sorted -/
def atnCommands (l : LexAtn) (r : Nat) : List Nat :=
  insertionSort (fun a b => a ≤ b) (((ruleEdges l.base r).filter (fun e => e.ty == 6)).map (fun e =>
    match l.actions[e.a2]? with
    | some (t, d1, _) => t * 1000 + (if d1 == 65535 then 0 else d1)
    | none => 999999))

/-- the commands a grammar rule declares, encoded the same way -/
def gramCommands (symbolic modes : List String) (cmds : List (String × String)) : List Nat :=
  insertionSort (fun a b => a ≤ b) (cmds.map (fun (c, arg) =>
    if c == "channel" then 0 * 1000 + (if arg == "HIDDEN" then 1 else 0)
    else if c == "mode" then 2 * 1000 + idxOf modes arg
    else if c == "more" then 3 * 1000
    else if c == "popMode" then 4 * 1000
    else if c == "pushMode" then 5 * 1000 + idxOf modes arg
    else if c == "skip" then 6 * 1000
    else if c == "type" then 7 * 1000 + idxOf symbolic arg
    else 999998))

/-- the token rules of a mode in the automaton, in priority order: the targets of the epsilon edges
    that leave the mode's start state, as rule indices -/
def atnModeRules (l : LexAtn) (m : Nat) : List Nat :=
  match l.modeStart[m]? with
  | none => []
  | some s => ((l.base.edges.filter (fun e => e.src == s && e.ty == 1)).map (fun e =>
      (l.base.ruleStart.findIdx? (· == e.trg)).getD 9999))

/-! ### the code of a generated parser against the automaton

    A generated rule function states facts about the ATN: which state it is in (`SetState`), which
    decision it asks the interpreter to predict there, which token it matches, which rule it calls,
    where the rule starts.  These tests say whether such a statement is a fact of the automaton. -/

/-- decision `d` is predicted at state `s`: `s` is the decision state, or (loop-back of a `*`/`+`
    loop) has an epsilon edge into it -/
def decisionAt (a : Atn) (s d : Nat) : Bool :=
  match a.decisions[d]? with
  | none => false
  | some ds => ds == s || a.edges.any (fun e => e.src == s && e.ty == 1 && e.trg == ds)

/-- state `s` has an atom edge on token type `t` (`t = 0`: EOF) -/
def matchAt (a : Atn) (s t : Nat) : Bool :=
  a.edges.any (fun e => e.src == s && e.ty == 5 && (if t == 0 then e.a3 != 0 else e.a3 == 0 && e.a1 == t))

/-- state `s` has a rule edge into rule `r` -/
def callAt (a : Atn) (s r : Nat) : Bool :=
  a.edges.any (fun e => e.src == s && e.ty == 3 && e.a2 == r && some e.a1 == a.ruleStart[r]?)

def indexOfStr (x : String) (xs : List String) : Option Nat :=
  let i := xs.findIdx (· == x)
  if i < xs.length then some i else none

/-- all code facts of one generated parser hold of the automaton -/
def codeAgrees (a : Atn) (rules symbolic : List String)
    (enter : List (String × Nat)) (decisions : List (Nat × Nat)) (mtchs calls : List (Nat × String)) : Bool :=
  enter.all (fun (r, s) => match indexOfStr r rules with | some i => a.ruleStart[i]? == some s | none => false) &&
  decisions.all (fun (s, d) => decisionAt a s d) &&
  mtchs.all (fun (s, t) =>
    if t == "EOF" then matchAt a s 0
    else match indexOfStr t symbolic with | some i => i != 0 && matchAt a s i | none => false) &&
  calls.all (fun (s, r) => match indexOfStr r rules with | some i => callAt a s i | none => false)

end FgaVerif.Model.AtnGraph
