import FgaVerif.Model.Listener
/-! A decidable containment discipline on parse trees ("scoped"): callbacks that dereference the
    listener's current condition / relation / type definition occur only below the node whose Enter
    callback sets it, rewrites carry their label, and the nodes that reset that state are not nested.
    Every tree the grammar derives is wellScoped; the driver evaluates `wellScoped` on every real
    (also error-recovered) parse tree, and `Proofs/NoPanic.lean` shows that the walk of a wellScoped tree
    cannot panic. -/
namespace FgaVerif.Model.Listener
open FgaVerif.Model

structure Mode where
  inType : Bool := false
  inRel : Bool := false
  inCond : Bool := false
  deriving Repr, DecidableEq, Inhabited

def hasLabel (t : Tree) (l : String) : Bool := (t.label? l).isSome
def hasRule (t : Tree) (n : String) : Bool := (t.childRule? n).isSome
def hasOp (t : Tree) : Bool :=
  !(t.childToks "OR").isEmpty || !(t.childToks "AND").isEmpty || (t.childTok? "BUT_NOT").isSome

/-- what a node must satisfy in mode `m` -/
def nodeOk (name : String) (t : Tree) (m : Mode) : Bool :=
  match name with
  | "typeDef" => !m.inType && !m.inRel
  | "relationDeclaration" => !m.inRel && (!(hasRule t "relationName") || m.inType)
  | "condition" => !m.inCond
  | "conditionParameter" => !(hasRule t "parameterName" && hasRule t "parameterType") || m.inCond
  | "conditionExpression" => m.inCond
  | "relationDefDirectAssignment" => m.inRel
  | "relationDefTypeRestriction" => !(hasRule t "relationDefTypeRestrictionBase") || m.inRel
  | "relationDefRewrite" => hasLabel t "rewriteComputedusersetName" && m.inRel
  | "relationRecurseNoDirect" => m.inRel
  | "relationDefPartials" => !(hasOp t) || m.inRel
  | _ => true

/-- the mode in which the children of a node are walked -/
def childMode (name : String) (t : Tree) (m : Mode) : Mode :=
  match name with
  | "typeDef" => if hasLabel t "typeName" then { m with inType := true } else m
  | "relationDeclaration" => { m with inRel := true }
  | "condition" => if hasRule t "conditionName" then { m with inCond := true } else m
  | _ => m

mutual
  def wellScoped (m : Mode) : Tree → Bool
    | .tok _ _ _ _ _ => true
    | .rule name sl sc ls cs =>
      nodeOk name (.rule name sl sc ls cs) m && wellScopedL (childMode name (.rule name sl sc ls cs) m) cs
  def wellScopedL (m : Mode) : List Tree → Bool
    | [] => true
    | c :: cs => wellScoped m c && wellScopedL m cs
end

end FgaVerif.Model.Listener
