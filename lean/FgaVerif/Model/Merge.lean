import FgaVerif.Model.Listener
import FgaVerif.Model.Clean
import FgaVerif.Engine.Sort
/-! Port of `pkg/go/transformer/module-to-model.go` (after the `fix:` commits: identity-based
    extension test, module-based "is a module" test, name-ordered iteration) and of
    `pkg/go/utils/line-numbers.go`. -/
namespace FgaVerif.Model.Merge
open FgaVerif.Model FgaVerif.Model.Listener

/-- unicode.IsSpace on the Latin-1 range (what `strings.TrimSpace` trims) -/
def isSpace (c : Char) : Bool :=
  c == ' ' || c == '\t' || c == '\n' || c == '\x0b' || c == '\x0c' || c == '\r' || c == '\u0085' || c == ' '

def trimSpace (s : List Char) : List Char :=
  ((s.dropWhile isSpace).reverse.dropWhile isSpace).reverse

def isPrefix : List Char → List Char → Bool
  | [], _ => true
  | _ :: _, [] => false
  | p :: ps, c :: cs => p == c && isPrefix ps cs

/-- `strings.Index` (in characters) -/
def indexOf (pat : List Char) : List Char → Option Nat
  | [] => if pat.isEmpty then some 0 else none
  | c :: cs =>
    if isPrefix pat (c :: cs) then some 0
    else (indexOf pat cs).map (· + 1)

/-- `slices.IndexFunc(lines, HasPrefix(TrimSpace(line), prefix))` -/
def lineWithPrefix (pre : String) (lines : List (List Char)) : Option Nat :=
  lines.findIdx? (fun l => isPrefix pre.toList (trimSpace l))

structure Pos where
  lineStart : Nat := 0
  lineEnd : Nat := 0
  colStart : Nat := 0
  colEnd : Nat := 0
  deriving Repr, DecidableEq, Inhabited, BEq

/-- `ConstructLineAndColumnData` -/
def constructLineAndColumnData (lines : List (List Char)) (lineIndex : Option Nat) (symbol : String) : Pos :=
  match lineIndex with
  | none => {}
  | some i =>
    match lines[i]? with
    | none => {}
    | some raw =>
      let w := (indexOf symbol.toList raw).getD 0
      { lineStart := i, lineEnd := i, colStart := w, colEnd := w + symbol.length }

inductive MergeErr where
  | syn (e : SynErr)                                   -- passed through from the file's parse
  | mod (msg file : String) (pos : Pos)                -- ModuleTransformationSingleError
  deriving Repr, DecidableEq, Inhabited, BEq

structure FileIn where
  name : String
  contents : String
  outcome : Outcome            -- result of TransformModularDSLToProto(contents)
  deriving Repr, Inhabited

structure MState where
  rawTypeDefs : List TypeDef := []
  types : List String := []
  extended : List (String × List TypeDef) := []     -- file ↦ extension definitions, in order
  conditions : List (String × Condition) := []
  moduleFiles : List (String × List (List Char)) := []
  errors : List MergeErr := []
  deriving Repr, Inhabited

def setTypeFile (t : TypeDef) (file : String) : TypeDef :=
  match t.md with
  | some m => { t with md := some { m with file := file } }
  | none => t

def isExtensionAt (exts : Option (List (String × Nat))) (name : String) (i : Nat) : Bool :=
  match exts with
  | none => false
  | some xs => AList.find? name xs == some i

/-- `typeDef.GetMetadata().GetModule()` -/
def modName (td : TypeDef) : String := match td.md with | some m => m.module | none => ""

/-- first loop body: the type definitions of one parsed file -/
def collectTypes (file : String) (lines : List (List Char)) (exts : Option (List (String × Nat))) :
    List TypeDef → Nat → MState → MState
  | [], _, st => st
  | td :: rest, i, st =>
    let ext := isExtensionAt exts td.name i
    let st :=
      if st.types.contains td.name && !ext then
        let pos := constructLineAndColumnData lines (lineWithPrefix ("type " ++ td.name) lines) td.name
        { st with errors := st.errors ++ [.mod ("duplicate type definition " ++ td.name) file pos] }
      else if ext then
        { st with extended := AList.insert file ((AList.find? file st.extended).getD [] ++ [td]) st.extended }
      else
        let st := { st with types := st.types ++ [td.name] }
        if modName td != "" then
          { st with rawTypeDefs := st.rawTypeDefs ++ [setTypeFile td file] }
        else
          { st with errors := st.errors ++ [.mod "file is not a module" file {}] }
    collectTypes file lines exts rest (i + 1) st

def collectConds (file : String) (lines : List (List Char)) : List (String × Condition) → MState → MState
  | [], st => st
  | (name, c) :: rest, st =>
    let st :=
      if AList.contains name st.conditions then
        let pos := constructLineAndColumnData lines (lineWithPrefix ("condition " ++ name) lines) name
        { st with errors := st.errors ++ [.mod ("duplicate condition " ++ name) file pos] }
      else
        match c.md with
        | none => { st with errors := st.errors ++ [.mod "file is not a module" file {}] }
        | some m =>
          { st with conditions := AList.insert name { c with md := some { m with file := file } } st.conditions }
    collectConds file lines rest st

def splitLines (s : String) : List (List Char) := Clean.splitLines s.toList

/-- first loop: all files in slice order -/
def collect : List FileIn → MState → Except Panic MState
  | [], st => .ok st
  | f :: rest, st =>
    let lines := splitLines f.contents
    let st := { st with moduleFiles := AList.insert f.name lines st.moduleFiles }
    match f.outcome with
    | .panic p => .error p
    | .errors es => collect rest { st with errors := st.errors ++ es.map .syn }
    | .ok mdl exts =>
      let st := collectTypes f.name lines exts mdl.types 0 st
      let st := collectConds f.name lines mdl.conds st       -- `conds` is key-sorted = name order
      collect rest st

def setRelFiles (file : String) (rs : List (String × RelMeta)) : List (String × RelMeta) :=
  rs.map (fun (n, rm) => (n, { rm with file := file }))

def replaceAt (xs : List α) (i : Nat) (x : α) : List α := xs.set i x

/-- `extendedTypeDef.GetMetadata().GetRelations()` -/
def relMetaOf (ext : TypeDef) : List (String × RelMeta) := match ext.md with | some m => m.relations | none => []

/-- add the relations of one extension definition to `original`, in name order -/
def addRelations (file : String) (lines : List (List Char)) (existing : List String) (ext : TypeDef) :
    List (String × Userset) → TypeDef → List MergeErr → Except Panic (TypeDef × List MergeErr)
  | [], orig, errs => .ok (orig, errs)
  | (name, rel) :: rest, orig, errs =>
    if existing.contains name then
      let pos := constructLineAndColumnData lines (lineWithPrefix ("define " ++ name) lines) name
      addRelations file lines existing ext rest orig
        (errs ++ [.mod ("relation " ++ name ++ " already exists on type " ++ ext.name) file pos])
    else
      let extRels := relMetaOf ext
      match AList.find? name extRels with
      | none => .error (.nilDeref "relationsMeta.SourceInfo")
      | some rm =>
        match orig.md with
        | none => .error (.nilDeref "original.Metadata.Relations")
        | some om =>
          let orig := { orig with relations := AList.insert name rel orig.relations,
                                  md := some { om with relations := AList.insert name { rm with file := file } om.relations } }
          addRelations file lines existing ext rest orig errs

def applyExtension (file : String) (lines : List (List Char)) (ext : TypeDef) (st : MState) : Except Panic MState :=
  match st.rawTypeDefs.findIdx? (fun t => t.name == ext.name) with
  | none =>
    let pos := constructLineAndColumnData lines (lineWithPrefix ("extend type " ++ ext.name) lines) ext.name
    .ok { st with errors := st.errors ++ [.mod ("extended type " ++ ext.name ++ " does not exist") file pos] }
  | some i =>
    match st.rawTypeDefs[i]? with
    | none => .ok st
    | some orig =>
      if orig.relations.isEmpty then
        let extRels := relMetaOf ext
        let om : TypeMeta := orig.md.getD {}
        let orig := { orig with relations := ext.relations,
                                md := some { om with relations := setRelFiles file extRels } }
        .ok { st with rawTypeDefs := replaceAt st.rawTypeDefs i orig }
      else
        match addRelations file lines (AList.keys orig.relations) ext ext.relations orig [] with
        | .error p => .error p
        | .ok (orig', errs) =>
          .ok { st with rawTypeDefs := replaceAt st.rawTypeDefs i orig', errors := st.errors ++ errs }

def applyExtensions (file : String) (lines : List (List Char)) : List TypeDef → MState → Except Panic MState
  | [], st => .ok st
  | e :: rest, st =>
    match applyExtension file lines e st with
    | .error p => .error p
    | .ok st' => applyExtensions file lines rest st'

/-- second loop: extending files in name order (`extended` is key-sorted) -/
def applyAll : List (String × List TypeDef) → MState → Except Panic MState
  | [], st => .ok st
  | (file, exts) :: rest, st =>
    let lines := (AList.find? file st.moduleFiles).getD []
    match applyExtensions file lines exts st with
    | .error p => .error p
    | .ok st' => applyAll rest st'

inductive MergeOutcome where
  | panic (p : Panic)
  | errors (es : List MergeErr)
  | ok (m : Model)
  deriving Repr, Inhabited

/-- `TransformModuleFilesToModel` -/
def merge (files : List FileIn) (schemaVersion : String) : MergeOutcome :=
  match collect files {} with
  | .error p => .panic p
  | .ok st =>
    match applyAll st.extended st with
    | .error p => .panic p
    | .ok st =>
      if st.errors.isEmpty then .ok { schema := schemaVersion, types := st.rawTypeDefs, conds := st.conditions }
      else .errors st.errors

/-- what the merger relies on in a parsed type definition (the listener always provides it): every
    relation has relation metadata, relation names are distinct -/
def typeDefWF (td : TypeDef) : Bool :=
  td.relations.all (fun kv => (AList.find? kv.1 (relMetaOf td)).isSome) &&
    decide (AList.keys td.relations).Nodup

def filesWFb (fs : List FileIn) : Bool :=
  fs.all fun f => match f.outcome with
    | .ok m _ => m.types.all typeDefWF
    | _ => true

end FgaVerif.Model.Merge
