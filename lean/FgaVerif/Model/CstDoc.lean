import FgaVerif.Model.Cst
import FgaVerif.Proofs.Listener
/-! The typed concrete syntax tree of **whole documents**: the grammar rules of `OpenFGAParser.g4`
    above `relationDeclaration` (main, modelHeader, moduleHeader, typeDefs, typeDef, conditions,
    condition, conditionName, conditionParameter, parameterName, parameterType,
    conditionExpression) *with their layout choices* — the text of every WHITESPACE / NEWLINE token,
    the optional ones present or absent.  `….tree` is the generic parse tree the ANTLR parser builds
    (children in grammar order, label fields `schemaVersion`, `moduleName`, `typeName` as child
    indices); `….content` forgets the layout; `DocContent.den` is the model the content *means*.

    The `(NEWLINE multiLineComment)?` / `(multiLineComment NEWLINE)?` options of typeDef, condition,
    modelHeader and moduleHeader are omitted: comments are removed by a pre-pass (`Model/Clean.lean`)
    before the text reaches the parser, so these alternatives never occur in a parse tree. -/
namespace FgaVerif.Model.Cst
open FgaVerif.Model FgaVerif.Model.Listener

/-! ## the CST -/

/-- typeDef: NEWLINE (EXTEND WHITESPACE)? TYPE WHITESPACE typeName=extended_identifier
    (NEWLINE RELATIONS relationDeclaration+)? -/
structure TypeDefCst where
  nl0 : String
  /-- `some w`: the type is an extension, `w` the whitespace after EXTEND -/
  extend : Option String
  w1 : String
  name : Ident
  /-- newline before RELATIONS, then one or more declarations -/
  rels : Option (String × Decl × List Decl)

/-- parameterType: CONDITION_PARAM_TYPE | CONDITION_PARAM_CONTAINER LESS CONDITION_PARAM_TYPE GREATER -/
inductive ParamTypeCst where
  | simple (text : String)
  | container (ctext gtext : String)
  deriving Repr, Inhabited

/-- conditionParameter: NEWLINE? parameterName WHITESPACE? COLON WHITESPACE? parameterType -/
structure ParamCst where
  nl0 : Option String
  name : String            -- parameterName: IDENTIFIER
  w1 : Option String
  w2 : Option String
  ty : ParamTypeCst
  deriving Repr, Inhabited

/-- condition: NEWLINE CONDITION WS conditionName WS? LPAREN WS? conditionParameter WS?
    (COMMA WS? conditionParameter WS?)* NEWLINE? RPAREN WS? LBRACE NEWLINE? WS? conditionExpression
    NEWLINE? RBRACE.  The expression is any list of tokens `(type, text)`. -/
structure CondCst where
  nl0 : String
  w1 : String
  name : String            -- conditionName: IDENTIFIER
  w2 : Option String
  w3 : Option String
  first : ParamCst
  w4 : Option String
  rest : List (Option String × ParamCst × Option String)
  nl1 : Option String
  w5 : Option String
  nl2 : Option String
  w6 : Option String
  expr : List (String × String)
  nl3 : Option String
  deriving Repr, Inhabited

/-- modelHeader: MODEL NEWLINE SCHEMA WHITESPACE schemaVersion=SCHEMA_VERSION WHITESPACE?
    moduleHeader: MODULE WHITESPACE moduleName=identifier WHITESPACE? -/
inductive HeaderCst where
  | model (nl1 w1 version : String) (w2 : Option String)
  /-- `nameTy`: the token type of the identifier (IDENTIFIER or one of the keywords the `identifier` rule allows) -/
  | module (w1 nameTy name : String) (w2 : Option String)
  deriving Repr, Inhabited

/-- main: WHITESPACE? NEWLINE? (modelHeader | moduleHeader) NEWLINE? typeDefs NEWLINE? conditions NEWLINE? EOF -/
structure DocCst where
  w0 : Option String
  nl0 : Option String
  header : HeaderCst
  nl1 : Option String
  types : List TypeDefCst
  nl2 : Option String
  conds : List CondCst
  nl3 : Option String

/-! ## the parse trees -/

def TypeDefCst.decls (t : TypeDefCst) : List Decl :=
  match t.rels with
  | none => []
  | some (_, d, ds) => d :: ds

def TypeDefCst.extendTrees (t : TypeDefCst) : List Tree :=
  match t.extend with
  | none => []
  | some w => [tokT "EXTEND" "extend", ws w]

def TypeDefCst.relTrees (t : TypeDefCst) : List Tree :=
  match t.rels with
  | none => []
  | some (n, d, ds) => nl n :: tokT "RELATIONS" "relations" :: (d :: ds).map Decl.tree

def TypeDefCst.children (t : TypeDefCst) : List Tree :=
  nl t.nl0 :: (t.extendTrees ++ (tokT "TYPE" "type" :: ws t.w1 :: t.name.tree :: t.relTrees))

/-- the child index the `typeName` field points to -/
def TypeDefCst.nameIdx (t : TypeDefCst) : Nat := if t.extend.isSome then 5 else 3

def TypeDefCst.tree (t : TypeDefCst) : Tree :=
  .rule "typeDef" 0 0 [("typeName", t.nameIdx)] t.children

def ParamTypeCst.tree : ParamTypeCst → Tree
  | .simple s => .rule "parameterType" 0 0 [] [tokT "CONDITION_PARAM_TYPE" s]
  | .container c g => .rule "parameterType" 0 0 []
      [tokT "CONDITION_PARAM_CONTAINER" c, tokT "LESS" "<", tokT "CONDITION_PARAM_TYPE" g, tokT "GREATER" ">"]

def ParamCst.tree (p : ParamCst) : Tree :=
  .rule "conditionParameter" 0 0 []
    (optNl p.nl0 ++ [.rule "parameterName" 0 0 [] [tokT "IDENTIFIER" p.name]] ++ optWs p.w1 ++ [tokT "COLON" ":"] ++
      optWs p.w2 ++ [p.ty.tree])

def CondCst.restTrees : List (Option String × ParamCst × Option String) → List Tree
  | [] => []
  | (a, p, b) :: more => [tokT "COMMA" ","] ++ optWs a ++ [p.tree] ++ optWs b ++ CondCst.restTrees more

def exprTok (x : String × String) : Tree := tokT x.1 x.2

def CondCst.exprTree (c : CondCst) : Tree := .rule "conditionExpression" 0 0 [] (c.expr.map exprTok)

def CondCst.tree (c : CondCst) : Tree :=
  .rule "condition" 0 0 []
    ([nl c.nl0, tokT "CONDITION" "condition", ws c.w1, .rule "conditionName" 0 0 [] [tokT "IDENTIFIER" c.name]] ++
      optWs c.w2 ++ [tokT "LPAREN" "("] ++ optWs c.w3 ++ [c.first.tree] ++ optWs c.w4 ++ CondCst.restTrees c.rest ++
      optNl c.nl1 ++ [tokT "RPAREN" ")"] ++ optWs c.w5 ++ [tokT "LBRACE" "{"] ++ optNl c.nl2 ++ optWs c.w6 ++
      [c.exprTree] ++ optNl c.nl3 ++ [tokT "RBRACE" "}"])

def HeaderCst.tree : HeaderCst → Tree
  | .model nl1 w1 v w2 => .rule "modelHeader" 0 0 [("schemaVersion", 4)]
      ([tokT "MODEL" "model", nl nl1, tokT "SCHEMA" "schema", ws w1, tokT "SCHEMA_VERSION" v] ++ optWs w2)
  | .module w1 ty n w2 => .rule "moduleHeader" 0 0 [("moduleName", 2)]
      ([tokT "MODULE" "module", ws w1, .rule "identifier" 0 0 [] [tokT ty n]] ++ optWs w2)

def DocCst.tree (d : DocCst) : Tree :=
  .rule "main" 0 0 []
    (optWs d.w0 ++ optNl d.nl0 ++ [d.header.tree] ++ optNl d.nl1 ++
      [.rule "typeDefs" 0 0 [] (d.types.map TypeDefCst.tree)] ++ optNl d.nl2 ++
      [.rule "conditions" 0 0 [] (d.conds.map CondCst.tree)] ++ optNl d.nl3 ++ [tokT "EOF" "<EOF>"])

/-! ## the abstract content (layout forgotten) -/

structure DeclContent where
  name : String
  den : Userset
  restr : Option (List RelRef)
  deriving Repr, Inhabited

structure TypeContent where
  name : String
  extend : Bool
  decls : List DeclContent
  deriving Repr, Inhabited

structure CondContent where
  name : String
  /-- the parameters in source order with their types -/
  params : List (String × CondParam)
  /-- the expression text, right-trimmed -/
  expr : String
  deriving Repr, Inhabited

inductive HeaderContent where
  | model (version : String)
  | module (name : String)
  deriving Repr, Inhabited

structure DocContent where
  header : HeaderContent
  types : List TypeContent
  conds : List CondContent
  deriving Repr, Inhabited

def Decl.content (d : Decl) : DeclContent := ⟨d.name.text, Def.den d.body, Def.restr d.body⟩

def TypeDefCst.content (t : TypeDefCst) : TypeContent := ⟨t.name.text, t.extend.isSome, t.decls.map Decl.content⟩

def ParamTypeCst.den : ParamTypeCst → CondParam
  | .simple s => { typeName := paramTypeName s, generics := [] }
  | .container c g => { typeName := paramTypeName c, generics := [paramTypeName g] }

def ParamCst.content (p : ParamCst) : String × CondParam := (p.name, p.ty.den)

def CondCst.paramList (c : CondCst) : List ParamCst := c.first :: c.rest.map (fun x => x.2.1)

/-- the concatenated token texts of the expression (what `GetText()` returns) -/
def exprText : List (String × String) → String
  | [] => ""
  | x :: rest => x.2 ++ exprText rest

def CondCst.content (c : CondCst) : CondContent :=
  ⟨c.name, c.paramList.map ParamCst.content, trimRightWs (exprText c.expr)⟩

def HeaderCst.content : HeaderCst → HeaderContent
  | .model _ _ v _ => .model v
  | .module _ _ n _ => .module n

def DocCst.content (d : DocCst) : DocContent :=
  ⟨d.header.content, d.types.map TypeDefCst.content, d.conds.map CondCst.content⟩

/-! ## the denotation of a content -/

def HeaderContent.isModular : HeaderContent → Bool
  | .model _ => false
  | .module _ => true
def HeaderContent.moduleName : HeaderContent → String
  | .model _ => ""
  | .module n => n
def HeaderContent.schema : HeaderContent → String
  | .model v => v
  | .module _ => ""

def DeclContent.relMeta (relModule : String) (d : DeclContent) : RelMeta :=
  { restr := d.restr.getD [], module := relModule }

/-- the relations map after the declarations (Go map writes in source order) -/
def relsFrom (ds : List DeclContent) (acc : List (String × Userset)) : List (String × Userset) :=
  ds.foldl (fun m d => AList.insert d.name d.den m) acc

/-- the relation-metadata map after the declarations -/
def metasFrom (relModule : String) (ds : List DeclContent) (acc : List (String × RelMeta)) : List (String × RelMeta) :=
  ds.foldl (fun m d => AList.insert d.name (d.relMeta relModule) m) acc

/-- the type definition a `typeDef` denotes in a file that is (`modular`) or is not a module file:
    * relations and their metadata (declared restrictions in order; the module name on the relations
      of an `extend`ed type in a module file);
    * type metadata: absent for a type without relations in a non-modular file, else present and
      carrying the module name in a module file. -/
def TypeContent.den (modular : Bool) (modName : String) (t : TypeContent) : TypeDef :=
  { name := t.name,
    relations := relsFrom t.decls [],
    md := if !modular && t.decls.isEmpty then none
          else some { relations := metasFrom (if modular && t.extend then modName else "") t.decls [],
                      module := if modular then modName else "" } }

def paramsFrom (ps : List (String × CondParam)) (acc : List (String × CondParam)) : List (String × CondParam) :=
  ps.foldl (fun m p => AList.insert p.1 p.2 m) acc

def CondContent.den (modular : Bool) (modName : String) (c : CondContent) : Condition :=
  { name := c.name, expr := c.expr, params := paramsFrom c.params [],
    md := if modular then some { module := modName } else none }

def condsFrom (modular : Bool) (modName : String) (cs : List CondContent) (acc : List (String × Condition)) :
    List (String × Condition) :=
  cs.foldl (fun m c => AList.insert c.name (c.den modular modName) m) acc

/-- the extension map of a module file: name of each `extend`ed type ↦ its index in the type list -/
def extsFrom : List TypeContent → Nat → List (String × Nat) → List (String × Nat)
  | [], _, acc => acc
  | t :: ts, idx, acc => extsFrom ts (idx + 1) (if t.extend then AList.insert t.name idx acc else acc)

/-- **the model a document denotes**, and the extension map (`none` for a model file) -/
def DocContent.den (c : DocContent) : Model × Option (List (String × Nat)) :=
  let modular := c.header.isModular
  let modName := c.header.moduleName
  ({ schema := c.header.schema,
     types := c.types.map (TypeContent.den modular modName),
     conds := condsFrom modular modName c.conds [] },
   if modular then some (extsFrom c.types 0 []) else none)

def DocCst.den (d : DocCst) : Model × Option (List (String × Nat)) := d.content.den

/-! ## well-formedness (decidable; `Def.wf` lives in `Proofs/Listener.lean`) -/

def nodupB : List String → Bool
  | [] => true
  | x :: xs => !xs.contains x && nodupB xs

/-- every declaration body is well formed (`Def.wf`: partials carry a real operator) -/
def TypeDefCst.bodiesWf (t : TypeDefCst) : Bool := t.decls.all (fun d => d.body.wf)

/-- a type: non-empty name, pairwise distinct relation names -/
def TypeContent.wf (t : TypeContent) : Bool := t.name != "" && nodupB (t.decls.map (·.name))

/-- a condition: pairwise distinct parameter names -/
def CondContent.wf (c : CondContent) : Bool := nodupB (c.params.map (·.1))

def DocContent.extendedNames (c : DocContent) : List String := (c.types.filter (·.extend)).map (·.name)

/-- a document content: every type and condition well formed, distinct condition names; in a model
    file no `extend`, in a module file each type extended at most once -/
def DocContent.wf (c : DocContent) : Bool :=
  c.types.all TypeContent.wf && c.conds.all CondContent.wf && nodupB (c.conds.map (·.name)) &&
  (if c.header.isModular then nodupB c.extendedNames else c.types.all (fun t => !t.extend))

/-- **well-formed documents** -/
def DocCst.wfB (d : DocCst) : Bool := d.types.all TypeDefCst.bodiesWf && d.content.wf

end FgaVerif.Model.Cst
