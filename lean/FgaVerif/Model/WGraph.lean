import FgaVerif.Model.Ast
import FgaVerif.Engine.Sort
/-! Port of the *construction* half of the weighted graph builder
    (`pkg/go/graph/weighted_graph_builder.go`, `GetOrAddNode`/`AddEdge`/`UpsertEdge`/`HasEdge` of
    `weighted_graph.go`).  Weight assignment is ported in `Model/WAssign.lean` and specified in `Spec/Weights.lean`.
    Operator nodes get the unique label `<operator>:<n>` (creation ordinal) instead of a ULID. -/
namespace FgaVerif.Model.WGraph
open FgaVerif.Model

inductive NodeType where | specificType | typeAndRelation | operator | wildcard
  deriving Repr, DecidableEq, Inhabited, BEq
inductive EdgeType where | direct | rewrite | ttu | computed
  deriving Repr, DecidableEq, Inhabited, BEq

structure WNode where
  uniqueLabel : String
  label : String
  ntype : NodeType
  deriving Repr, DecidableEq, Inhabited, BEq

structure WEdge where
  src : String
  dst : String
  etype : EdgeType
  tupleset : String
  conditions : List String
  deriving Repr, DecidableEq, Inhabited, BEq

structure G where
  nodes : List WNode := []                 -- creation order
  edges : List (String × List WEdge) := [] -- from ↦ edges in insertion order (association list)
  opCount : Nat := 0
  deriving Repr, Inhabited, BEq

inductive BuildErr where
  | invalidTupleset (ts : String)          -- "%s invalid tupleset relation"
  | noTypeLink (ts cu : String)            -- "No type and relation link exists …"
  | missingRelation (ty cu : String)       -- "%s type does not have defined %s relation"
  deriving Repr, DecidableEq, Inhabited, BEq

def G.node? (g : G) (ul : String) : Option WNode := g.nodes.find? (·.uniqueLabel == ul)

def edgesOf (g : G) (src : String) : List WEdge :=
  match g.edges.find? (·.1 == src) with
  | some (_, es) => es
  | none => []

def setEdges (g : G) (src : String) (es : List WEdge) : G :=
  if g.edges.any (·.1 == src) then
    { g with edges := g.edges.map (fun (k, v) => if k == src then (k, es) else (k, v)) }
  else { g with edges := g.edges ++ [(src, es)] }

def getOrAddNode (g : G) (ul label : String) (t : NodeType) : G × WNode :=
  match g.node? ul with
  | some n => (g, n)
  | none =>
    let n : WNode := ⟨ul, label, t⟩
    ({ g with nodes := g.nodes ++ [n] }, n)

/-- `AddEdge` (conditions nil ⇒ ["none"]) -/
def addEdge (g : G) (src dst : String) (t : EdgeType) (ts : String) : G :=
  setEdges g src (edgesOf g src ++ [⟨src, dst, t, ts, ["none"]⟩])

def sameEdge (e : WEdge) (dst : String) (t : EdgeType) (ts : String) : Bool :=
  e.dst == dst && e.etype == t && e.tupleset == ts

/-- `UpsertEdge` -/
def upsertEdge (g : G) (src dst : String) (t : EdgeType) (ts cond : String) : G :=
  let cond := if cond == "" then "none" else cond
  let es := edgesOf g src
  if es.any (fun e => sameEdge e dst t ts) then
    -- only the first matching edge is updated
    let rec upd : List WEdge → List WEdge
      | [] => []
      | e :: rest =>
        if sameEdge e dst t ts then
          (if e.conditions.contains cond then e else { e with conditions := e.conditions ++ [cond] }) :: rest
        else e :: upd rest
    setEdges g src (upd es)
  else setEdges g src (es ++ [⟨src, dst, t, ts, [cond]⟩])

def hasEdge (g : G) (src dst : String) (t : EdgeType) (ts : String) : Bool :=
  (edgesOf g src).any (fun e => sameEdge e dst t ts)

def relMeta (td : TypeDef) (rel : String) : Option RelMeta :=
  match td.md with
  | none => none
  | some m => AList.find? rel m.relations

def typeAndRelationExists (m : Model) (typeName rel : String) : Bool :=
  m.types.any (fun t => t.name == typeName && AList.contains rel t.relations)

/-- `parseThis` -/
def parseThisRefs (parent : String) : List RelRef → G → G
  | [], g => g
  | r :: rest, g =>
    let (g, cur) :=
      if !r.wildcard && r.rel == "" then getOrAddNode g r.type r.type .specificType
      else if r.wildcard then getOrAddNode g (r.type ++ ":*") (r.type ++ ":*") .wildcard
      else getOrAddNode g (r.type ++ "#" ++ r.rel) (r.type ++ "#" ++ r.rel) .typeAndRelation
    parseThisRefs parent rest (upsertEdge g parent cur.uniqueLabel .direct "" r.cond)

/-- `parseTupleToUserset` loop -/
def parseTTURefs (m : Model) (td : TypeDef) (parent : String) (ts cu : String) : List RelRef → G → Except BuildErr G
  | [], g => .ok g
  | r :: rest, g =>
    if !typeAndRelationExists m r.type cu then .error (.missingRelation r.type cu)
    else
      let name := r.type ++ "#" ++ cu
      let (g, src) := getOrAddNode g name name .typeAndRelation
      let ttr := td.name ++ "#" ++ ts
      let g := if hasEdge g parent src.uniqueLabel .ttu ttr then g else upsertEdge g parent src.uniqueLabel .ttu ttr r.cond
      parseTTURefs m td parent ts cu rest g

def mkOp (g : G) (parent : String) (op : String) : G × String :=
  let ul := op ++ ":" ++ toString g.opCount
  let g := { g with opCount := g.opCount + 1 }
  let (g, n) := getOrAddNode g ul op .operator
  (addEdge g parent n.uniqueLabel .rewrite "", n.uniqueLabel)

mutual
  /-- `parseRewrite`; `parentType` is the node type of the parent (relation or operator) -/
  def parseRewrite (m : Model) (td : TypeDef) (rel : String) (parent : String) (parentIsRel : Bool) :
      Userset → G → Except BuildErr G
    | .this, g =>
        match relMeta td rel with
        | some rm => .ok (parseThisRefs parent rm.restr g)
        | none => .ok g
    | .computed r, g =>
        let name := td.name ++ "#" ++ r
        let (g, n) := getOrAddNode g name name .typeAndRelation
        let et := if parentIsRel && n.ntype == .typeAndRelation then EdgeType.computed else .rewrite
        .ok (addEdge g parent n.uniqueLabel et "")
    | .ttu ts cu, g =>
        match relMeta td ts with
        | none => .error (.invalidTupleset ts)
        | some rm =>
          if rm.restr.isEmpty then .error (.noTypeLink ts cu)
          else parseTTURefs m td parent ts cu rm.restr g
    | .union cs, g =>
        let (g, n) := mkOp g parent "union"
        parseChildren m td rel n cs g
    | .inter cs, g =>
        let (g, n) := mkOp g parent "intersection"
        parseChildren m td rel n cs g
    | .diff b s, g =>
        let (g, n) := mkOp g parent "exclusion"
        match parseRewrite m td rel n false b g with
        | .error e => .error e
        | .ok g => parseRewrite m td rel n false s g
    | .nil, g => .ok (mkOp g parent "").1
  def parseChildren (m : Model) (td : TypeDef) (rel : String) (parent : String) : List Userset → G → Except BuildErr G
    | [], g => .ok g
    | c :: cs, g =>
      match parseRewrite m td rel parent false c g with
      | .error e => .error e
      | .ok g => parseChildren m td rel parent cs g
end

def buildRelations (m : Model) (td : TypeDef) : List (String × Userset) → G → Except BuildErr G
  | [], g => .ok g
  | (rel, u) :: rest, g =>
    let ul := td.name ++ "#" ++ rel
    let (g, parent) := getOrAddNode g ul ul .typeAndRelation
    match parseRewrite m td rel parent.uniqueLabel true u g with
    | .error e => .error e
    | .ok g => buildRelations m td rest g

def buildTypes (m : Model) : List TypeDef → G → Except BuildErr G
  | [], g => .ok g
  | td :: rest, g =>
    let (g, _) := getOrAddNode g td.name td.name .specificType
    match buildRelations m td td.relations g with
    | .error e => .error e
    | .ok g => buildTypes m rest g

/-- the construction loop of `Build` (before `AssignWeights`) -/
def build (m : Model) : Except BuildErr G :=
  buildTypes m (insertionSort (fun a b => a.name ≤ b.name) m.types) {}

end FgaVerif.Model.WGraph
