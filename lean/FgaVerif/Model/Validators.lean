import FgaVerif.Engine.FlatRe
import FgaVerif.Model.VExpr
/-! Model of `pkg/go/validation/validation-rules.go`: `fmt.Sprintf` substitution of the rule
    strings, compilation of the resulting anchored patterns to flat regular expressions and
    the boolean compositions of the nine validators. -/
namespace FgaVerif.Model
open FgaVerif.FlatRe

def lookup (k : String) : List (String × α) → Option α
  | [] => none
  | (k', v) :: rest => if k == k' then some v else lookup k rest

/-- `fmt.Sprintf` restricted to `%s` verbs with string arguments -/
def sprintf : List Char → List (List Char) → Option (List Char)
  | [], [] => some []
  | [], _ :: _ => none                       -- Go would append %!(EXTRA …)
  | '%' :: 's' :: rest, a :: args => (sprintf rest args).map (a ++ ·)
  | '%' :: _, _ => none                      -- other verbs / missing argument: not modelled
  | c :: rest, args => (sprintf rest args).map (c :: ·)

/-- a compiled validator: flat regexes at the leaves -/
inductive CExpr where
  | re (atoms : List Atom)
  | and (a b : CExpr)
  | or (a b : CExpr)
  deriving Repr, DecidableEq, Inhabited

def CExpr.eval : CExpr → List Char → Bool
  | .re as, s => matchB as s
  | .and a b, s => a.eval s && b.eval s
  | .or a b, s => a.eval s || b.eval s

def compileRe (rules : List (String × String)) (fmt : String) (args : List String) : Option (List Atom) := do
  let argTexts ← args.mapM (fun a => (lookup a rules).map String.toList)
  let pat ← sprintf fmt.toList argTexts
  parse pat

/-- compile with calls inlined (structural on the fuel, which bounds nesting + call depth) -/
def compile (rules : List (String × String)) (defs : List (String × VExpr)) : Nat → VExpr → Option CExpr
  | 0, _ => none
  | _+1, .re fmt args => (compileRe rules fmt args).map .re
  | n+1, .and a b => do
      let a' ← compile rules defs n a
      let b' ← compile rules defs n b
      pure (.and a' b')
  | n+1, .or a b => do
      let a' ← compile rules defs n a
      let b' ← compile rules defs n b
      pure (.or a' b')
  | n+1, .call name => do
      let e ← lookup name defs
      compile rules defs n e
  | _+1, .bad _ => none

def compileAll (rules : List (String × String)) (defs : List (String × VExpr)) : Option (List (String × CExpr)) :=
  defs.mapM (fun (n, e) => (compile rules defs 8 e).map (fun c => (n, c)))

end FgaVerif.Model
