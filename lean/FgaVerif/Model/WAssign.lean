import FgaVerif.Model.WGraph
/-! Port of the *weight assignment* half of the weighted graph (`pkg/go/graph/weighted_graph.go`:
    `AssignWeights`, `hasRewriteOnlyCycle`, `calculateNodeWeight`, `calculateEdgeWeight`,
    `isTupleCycle`, `calculateNodeWeightFromTheEdges`, the three strategies,
    `calculateNodeWeightAndFixDependencies`, `fixDependantEdgesWeight`, `fixDependantNodesWeight` and
    the wildcard propagation), over the graph built by `Model/WGraph.lean`.

    Go's mutable graph becomes a state record: weights and wildcard lists of nodes are keyed by the
    node's unique label, those of edges by `(from, index in the from-node's edge list)` — which is what
    an edge pointer identifies.  Go maps become key-sorted association lists, so "range over a map" is
    "in key order"; the depth-first start order (Go: map order of `wg.nodes`; the verif hook: a given
    order) is a parameter.  The mutual recursion of `calculateNodeWeight`/`calculateEdgeWeight`
    terminates because every node is entered once (`visited`); here it takes a fuel argument, and
    running out of fuel is a distinct result that the correspondence would report. -/
namespace FgaVerif.Model.WAssign
open FgaVerif.Model FgaVerif.Model.WGraph

def infinite : Nat := 2147483647   -- math.MaxInt32

abbrev WMap := List (String × Nat)
abbrev ERef := String × Nat          -- (from label, index)

inductive AErr where
  | modelCycle
  | tupleCycle
  | invalidModel
  | fuel
  deriving Repr, DecidableEq, Inhabited, BEq

/-! ### key-sorted maps -/
def wget (k : String) : WMap → Option Nat
  | [] => none
  | (k', v) :: rest => if k == k' then some v else wget k rest

def wset (k : String) (v : Nat) : WMap → WMap
  | [] => [(k, v)]
  | (k', v') :: rest =>
    if k == k' then (k, v) :: rest
    else if k < k' then (k, v) :: (k', v') :: rest
    else (k', v') :: wset k v rest

def wdel (k : String) (w : WMap) : WMap := w.filter (fun p => p.1 != k)

/-- `if _, ok := w[k]; !ok { w[k] = v } else { w[k] = max(w[k], v) }` -/
def wsetMax (k : String) (v : Nat) (w : WMap) : WMap :=
  match wget k w with
  | none => wset k v w
  | some v0 => wset k (Nat.max v0 v) w

/-! ### association lists for the state -/
def aget [BEq κ] [Inhabited α] (k : κ) (m : List (κ × α)) : α :=
  match m.find? (·.1 == k) with
  | some (_, v) => v
  | none => default

def aset [BEq κ] (k : κ) (v : α) : List (κ × α) → List (κ × α)
  | [] => [(k, v)]
  | (k', v') :: rest => if k' == k then (k, v) :: rest else (k', v') :: aset k v rest

def adel [BEq κ] (k : κ) (m : List (κ × α)) : List (κ × α) := m.filter (fun p => !(p.1 == k))

structure AState where
  nodeW : List (String × WMap) := []
  nodeWild : List (String × List String) := []
  edgeW : List (ERef × WMap) := []
  edgeWild : List (ERef × List String) := []
  visited : List String := []
  deps : List (String × List ERef) := []        -- tupleCycleDependencies
  deriving Repr, Inhabited

def nodeType (g : G) (ul : String) : NodeType :=
  match g.node? ul with
  | some n => n.ntype
  | none => .specificType

def nodeLabel (g : G) (ul : String) : String :=
  match g.node? ul with
  | some n => n.label
  | none => ""

def edgeAt (g : G) (r : ERef) : Option WEdge := (edgesOf g r.1)[r.2]?

def isTerminal (t : NodeType) : Bool := t == .specificType || t == .wildcard

/-! ### wildcards -/
def addUnique (xs : List String) (ys : List String) : List String :=
  ys.foldl (fun acc y => if acc.contains y then acc else acc ++ [y]) xs

/-- `addWildcardToEdge` -/
def addWildcardToEdge (t : String) (r : ERef) (st : AState) : AState :=
  let cur := aget r st.edgeWild
  if cur.isEmpty then { st with edgeWild := aset r [t] st.edgeWild }
  else if cur.contains t then st else { st with edgeWild := aset r (cur ++ [t]) st.edgeWild }

/-- `addEdgeWildcardsToNode` -/
def addEdgeWildcardsToNode (nodeID : String) (r : ERef) (st : AState) : AState :=
  let ew := aget r st.edgeWild
  if ew.isEmpty then st
  else
    let nw := aget nodeID st.nodeWild
    if nw.isEmpty then { st with nodeWild := aset nodeID ew st.nodeWild }
    else { st with nodeWild := aset nodeID (addUnique nw ew) st.nodeWild }

/-- `calculateEdgeWildcards` -/
def calculateEdgeWildcards (to : String) (r : ERef) (st : AState) : AState :=
  if !(aget r st.edgeWild).isEmpty then st
  else
    let nw := aget to st.nodeWild
    if nw.isEmpty then st else { st with edgeWild := aset r nw st.edgeWild }

/-- `addReferentialWildcardsToEdge` -/
def addReferentialWildcardsToEdge (r : ERef) (refNode : String) (st : AState) : AState :=
  let rw := aget refNode st.nodeWild
  if rw.isEmpty then st
  else
    let ew := aget r st.edgeWild
    if ew.isEmpty then { st with edgeWild := aset r rw st.edgeWild }
    else { st with edgeWild := aset r (addUnique ew rw) st.edgeWild }

/-- `addReferentialWildcardsToNode` -/
def addReferentialWildcardsToNode (nodeID refNode : String) (st : AState) : AState :=
  let rw := aget refNode st.nodeWild
  let nw := aget nodeID st.nodeWild
  if nw.isEmpty then { st with nodeWild := aset nodeID rw st.nodeWild }
  else { st with nodeWild := aset nodeID (addUnique nw rw) st.nodeWild }

/-! ### the strategies -/
def edgeRefs (g : G) (nodeID : String) : List ERef :=
  (List.range (edgesOf g nodeID).length).map (fun i => (nodeID, i))

def noEdgesErr (g : G) (nodeID : String) : Bool :=
  (edgesOf g nodeID).isEmpty && !isTerminal (nodeType g nodeID)

/-- `calculateNodeWeightWithMaxStrategy` -/
def maxStrategy (g : G) (nodeID : String) (st : AState) : Option AErr × AState :=
  if noEdgesErr g nodeID then (some .invalidModel, st)
  else
    let w := (edgeRefs g nodeID).foldl (fun acc r => (aget r st.edgeW).foldl (fun a (k, v) => wsetMax k v a) acc) []
    (none, { st with nodeW := aset nodeID w st.nodeW })

/-- `calculateNodeWeightWithMixedStrategy` -/
def mixedStrategy (g : G) (nodeID : String) (st : AState) : Option AErr × AState :=
  if noEdgesErr g nodeID then (some .invalidModel, st)
  else
    let refs := edgeRefs g nodeID
    let w := refs.foldl (fun acc r =>
      (aget r st.edgeW).foldl (fun a (k, v) =>
        match wget k a with
        | none => if r.2 != refs.length - 1 then wset k v a else a
        | some v0 => wset k (Nat.max v0 v) a) acc) []
    (none, { st with nodeW := aset nodeID w st.nodeW })

/-- `calculateNodeWeightWithEnforceTypeStrategy` -/
def enforceTypeStrategy (g : G) (nodeID : String) (st : AState) : Option AErr × AState :=
  if noEdgesErr g nodeID then (some .invalidModel, st)
  else
    let w := (edgeRefs g nodeID).foldl (fun acc r =>
      let ew := aget r st.edgeW
      if r.2 == 0 then ew.foldl (fun a (k, v) => wset k v a) acc
      else acc.foldl (fun a (k, v0) =>
        match wget k ew with
        | none => wdel k a
        | some v => wset k (Nat.max v0 v) a) acc) []
    if w.isEmpty then (some .invalidModel, st)
    else (none, { st with nodeW := aset nodeID w st.nodeW })

def addDep (n : String) (r : ERef) (st : AState) : AState :=
  { st with deps := aset n (aget n st.deps ++ [r]) st.deps }

/-- `fixDependantEdgesWeight` -/
def fixDependantEdgesWeight (nodeCycle refID : String) (hasRefs : Bool) (st : AState) : AState :=
  (aget nodeCycle st.deps).foldl (fun st r =>
    let nodeWeights := aget nodeCycle st.nodeW
    let (ew, st) := (aget r st.edgeW).foldl (fun (acc : WMap × AState) (kv : String × Nat) =>
      let (ew, st) := acc
      if kv.1 == refID then
        nodeWeights.foldl (fun (acc : WMap × AState) (kv2 : String × Nat) =>
          let (ew, st) := acc
          match wget kv2.1 ew with
          | none =>
            let st := if hasRefs && kv2.1.startsWith "R#" then addDep (kv2.1.drop 2).toString r st else st
            (wset kv2.1 kv2.2 ew, st)
          | some v0 => (wset kv2.1 (Nat.max v0 kv2.2) ew, st)) (ew, st)
      else (wsetMax kv.1 kv.2 ew, st)) ([], st)
    let st := { st with edgeW := aset r ew st.edgeW }
    addReferentialWildcardsToEdge r nodeCycle st) st

/-- `fixDependantNodesWeight` -/
def fixDependantNodesWeight (nodeCycle refID : String) (st : AState) : AState :=
  (aget nodeCycle st.deps).foldl (fun st r =>
    let nodeWeights := aget nodeCycle st.nodeW
    let nw := (aget r.1 st.nodeW).foldl (fun (acc : WMap) (kv : String × Nat) =>
      if kv.1 == refID then nodeWeights.foldl (fun a (k2, v2) => wsetMax k2 v2 a) acc
      else wsetMax kv.1 kv.2 acc) []
    let st := { st with nodeW := aset r.1 nw st.nodeW }
    addReferentialWildcardsToNode r.1 nodeCycle st) st

/-- `calculateNodeWeightAndFixDependencies` -/
def calcAndFix (g : G) (nodeID : String) (st : AState) : Option AErr × AState :=
  let t := nodeType g nodeID
  let refID := "R#" ++ nodeID
  if (t == .operator && nodeLabel g nodeID != "union") || (t != .typeAndRelation && t != .operator) then
    (some .tupleCycle, st)
  else if noEdgesErr g nodeID then (some .invalidModel, st)
  else
    let (w, refs) := (edgeRefs g nodeID).foldl (fun (acc : WMap × List String) r =>
      (aget r st.edgeW).foldl (fun (acc : WMap × List String) (kv : String × Nat) =>
        if kv.1 == refID then acc
        else (wset kv.1 infinite acc.1, if kv.1.startsWith "R#" then acc.2 ++ [kv.1] else acc.2)) acc) ([], [])
    if w.isEmpty then (some .invalidModel, st)
    else
      let st := { st with nodeW := aset nodeID w st.nodeW }
      let st := fixDependantEdgesWeight nodeID refID (!refs.isEmpty) st
      let st := fixDependantNodesWeight nodeID refID st
      (none, { st with deps := adel nodeID st.deps })

/-- `calculateNodeWeightFromTheEdges` -/
def fromTheEdges (g : G) (nodeID : String) (tcs : List String) (st : AState) : (List String × Option AErr) × AState :=
  let t := nodeType g nodeID
  let lbl := nodeLabel g nodeID
  if tcs.isEmpty then
    let (e, st) :=
      if t != .operator then maxStrategy g nodeID st
      else if lbl == "union" then maxStrategy g nodeID st
      else if lbl == "intersection" then enforceTypeStrategy g nodeID st
      else if lbl == "exclusion" then mixedStrategy g nodeID st
      else (none, st)
    ((tcs, e), st)
  else if t == .typeAndRelation && tcs.contains nodeID then
    match calcAndFix g nodeID st with
    | (some e, st) => ((tcs, some e), st)
    | (none, st) => ((tcs.filter (· != nodeID), none), st)
  else if t != .operator then
    let (e, st) := maxStrategy g nodeID st
    ((tcs, e), st)
  else if lbl == "union" then
    if tcs.contains nodeID then
      match calcAndFix g nodeID st with
      | (some e, st) => ((tcs, some e), st)
      | (none, st) => ((tcs.filter (· != nodeID), none), st)
    else
      let (e, st) := maxStrategy g nodeID st
      ((tcs, e), st)
  else ((tcs, some .tupleCycle), st)

/-- `isTupleCycle` -/
def isTupleCycle (g : G) (nodeID : String) (path : List WEdge) : Bool :=
  (path.foldl (fun (acc : Bool × Bool) e =>
    let (tracking, found) := acc
    let tracking := tracking || e.src == nodeID
    (tracking, found || (tracking && (e.etype == .ttu || (e.etype == .direct && nodeType g e.dst == .typeAndRelation))))) (false, false)).2

abbrev Res := (List String × Option AErr) × AState

/-- `calculateEdgeWeight`, with the recursive call to `calculateNodeWeight` as a parameter -/
def calcEdgeWith (rec : String → List WEdge → AState → Res) (g : G) (r : ERef) (e : WEdge) (path : List WEdge)
    (st : AState) : Res :=
  if e.src == e.dst then
    let st := { st with edgeW := aset r [("R#" ++ e.dst, infinite)] st.edgeW }
    (([e.src], none), addDep e.dst r st)
  else
    let path := path ++ [e]
    match rec e.dst path st with
    | ((tc, some err), st) => ((tc, some err), st)
    | ((tc, none), st) =>
      let toW := aget e.dst st.nodeW
      if toW.isEmpty then
        if isTupleCycle g e.dst path then
          let st := { st with edgeW := aset r [("R#" ++ e.dst, infinite)] st.edgeW }
          ((tc ++ [e.dst], none), addDep e.dst r st)
        else ((tc, some .modelCycle), st)
      else
        let isTC := !tc.isEmpty
        let st := if isTC then tc.foldl (fun st n => addDep n r st) st else st
        let (tc, st) := toW.foldl (fun (acc : List String × AState) (kv : String × Nat) =>
          if !isTC && kv.1.startsWith "R#" then
            let nd := (kv.1.drop 2).toString
            (acc.1 ++ [nd], addDep nd r acc.2)
          else acc) (tc, st)
        let w := if e.etype == .ttu || e.etype == .direct then
            toW.map (fun (k, v) => (k, if v == infinite then v else v + 1))
          else toW
        ((tc, none), { st with edgeW := aset r w st.edgeW })

/-- the loop over the edges of `calculateNodeWeight` -/
def edgeLoop (rec : String → List WEdge → AState → Res) (g : G) (nodeID : String) (path : List WEdge) :
    List (ERef × WEdge) → List String → AState → Res
  | [], tcs, st => ((tcs, none), st)
  | (r, e) :: rest, tcs, st =>
    if !(aget r st.edgeW).isEmpty then edgeLoop rec g nodeID path rest tcs st
    else
      let tt := nodeType g e.dst
      if isTerminal tt then
        let ul := if tt == .wildcard then (e.dst.dropEnd 2).toString else e.dst
        let st := if tt == .wildcard then addEdgeWildcardsToNode nodeID r (addWildcardToEdge ul r st) else st
        edgeLoop rec g nodeID path rest tcs { st with edgeW := aset r [(ul, 1)] st.edgeW }
      else
        match calcEdgeWith rec g r e path st with
        | ((tc, err), st) =>
          let st := addEdgeWildcardsToNode nodeID r (calculateEdgeWildcards e.dst r st)
          match err with
          | some err => ((tcs ++ tc, some err), st)
          | none => edgeLoop rec g nodeID path rest (tcs ++ tc) st

/-- `calculateNodeWeight` -/
def calcNode : Nat → G → String → List WEdge → AState → Res
  | 0, _, _, _, st => (([], some .fuel), st)
  | fuel+1, g, nodeID, path, st =>
    if st.visited.contains nodeID then (([], none), st)
    else if isTerminal (nodeType g nodeID) then (([], none), st)
    else
      let st := { st with visited := nodeID :: st.visited }
      let es := edgesOf g nodeID
      let refs := (List.range es.length).zip es |>.map (fun (i, e) => ((nodeID, i), e))
      match edgeLoop (calcNode fuel g) g nodeID path refs [] st with
      | ((tcs, some err), st) => ((tcs, some err), st)
      | ((tcs, none), st) => fromTheEdges g nodeID tcs st

/-! ### `hasRewriteOnlyCycle` -/
def rewriteSuccs (g : G) (n : String) : List String :=
  ((edgesOf g n).filter (fun e => e.etype == .rewrite || e.etype == .computed)).map (·.dst)

/-- three-colour depth-first search; `inProg`/`done` are the two colours.  Returns (cycle found, done) -/
def rvisit : Nat → G → String → List String → List String → Bool × List String
  | 0, _, _, _, done => (true, done)          -- out of fuel: never reached (fuel = #nodes + 1); reported as a cycle
  | fuel+1, g, n, inProg, done =>
    let inProg := n :: inProg
    let (found, done) := (rewriteSuccs g n).foldl (fun (acc : Bool × List String) m =>
      if acc.1 then acc
      else if inProg.contains m then (true, acc.2)
      else if acc.2.contains m then acc
      else rvisit fuel g m inProg acc.2) (false, done)
    if found then (true, done) else (false, n :: done)

def hasRewriteOnlyCycle (g : G) : Bool :=
  (g.nodes.foldl (fun (acc : Bool × List String) n =>
    if acc.1 then acc
    else if acc.2.contains n.uniqueLabel then acc
    else rvisit (g.nodes.length + 1) g n.uniqueLabel [] acc.2) (false, [])).1

/-- `AssignWeights` with the depth-first search started from `order` (then the remaining nodes) -/
def assignWeights (g : G) (order : List String) : Except AErr AState :=
  if hasRewriteOnlyCycle g then .error .modelCycle
  else
    let rest := (g.nodes.map (·.uniqueLabel)).filter (fun n => !order.contains n)
    let all := (order.filter (fun n => (g.node? n).isSome)) ++ rest
    let rec go : List String → AState → Except AErr AState
      | [], st => .ok st
      | n :: ns, st =>
        if st.visited.contains n then go ns st
        else
          match calcNode (g.nodes.length + 1) g n [] st with
          | ((_, some err), _) => .error err
          | ((tcs, none), st) => if !tcs.isEmpty then .error .tupleCycle else go ns st
    go all {}

end FgaVerif.Model.WAssign
