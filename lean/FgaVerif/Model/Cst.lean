import FgaVerif.Model.Tree
import FgaVerif.Model.Listener
/-! A typed concrete syntax tree for relation definitions, mirroring the parser grammar
    (`OpenFGAParser.g4`, rules relationDeclaration … relationDefTypeRestrictionBase) *including its
    layout choices*: the text of every WHITESPACE / NEWLINE token, the optional ones, redundant
    parentheses.  `embed*` produces the generic parse tree the ANTLR parser builds for it (children
    in grammar order, label fields as child indices); `den*` is what the definition *means*.
    The theorems in `Proofs/Listener.lean` relate the two through the listener port. -/
namespace FgaVerif.Model.Cst
open FgaVerif.Model FgaVerif.Model.Listener

def tokT (ty text : String) : Tree := .tok ty text 0 0 false
def ws (s : String) : Tree := tokT "WHITESPACE" s
def nl (s : String) : Tree := tokT "NEWLINE" s
def optWs : Option String → List Tree
  | none => []
  | some s => [ws s]
def optNl : Option String → List Tree
  | none => []
  | some s => [nl s]

/-- an `extended_identifier`: either `identifier` (a keyword-or-IDENTIFIER token, one more rule
    level) or an EXTENDED_IDENTIFIER token -/
structure Ident where
  viaIdentifier : Bool
  tokenType : String     -- IDENTIFIER, MODEL, SCHEMA, TYPE, RELATION, MODULE, EXTEND / EXTENDED_IDENTIFIER
  text : String
  deriving Repr, Inhabited

def Ident.tree (i : Ident) : Tree :=
  if i.viaIdentifier then
    .rule "extended_identifier" 0 0 [] [.rule "identifier" 0 0 [] [tokT i.tokenType i.text]]
  else .rule "extended_identifier" 0 0 [] [tokT i.tokenType i.text]

inductive RestrKind where
  | plain
  | wildcard
  | userset (rel : Ident)
  deriving Repr, Inhabited

/-- relationDefTypeRestriction with its base and optional `with <condition>` -/
structure Restr where
  pre : Option String          -- NEWLINE?
  type : Ident
  kind : RestrKind
  cond : Option (String × String × String)   -- ws, ws, condition name
  post : Option String         -- NEWLINE?
  deriving Repr, Inhabited

def Restr.baseTree (r : Restr) : Tree :=
  match r.kind with
  | .plain => .rule "relationDefTypeRestrictionBase" 0 0 [("relationDefTypeRestrictionType", 0)] [r.type.tree]
  | .wildcard => .rule "relationDefTypeRestrictionBase" 0 0
      [("relationDefTypeRestrictionType", 0), ("relationDefTypeRestrictionWildcard", 2)]
      [r.type.tree, tokT "COLON" ":", tokT "STAR" "*"]
  | .userset rel => .rule "relationDefTypeRestrictionBase" 0 0
      [("relationDefTypeRestrictionType", 0), ("relationDefTypeRestrictionRelation", 2)]
      [r.type.tree, tokT "HASH" "#", rel.tree]

def Restr.tree (r : Restr) : Tree :=
  .rule "relationDefTypeRestriction" 0 0 []
    (optNl r.pre ++ [r.baseTree] ++
      (match r.cond with
       | none => []
       | some (w1, w2, c) => [ws w1, tokT "KEYWORD_WITH" "with", ws w2, .rule "conditionName" 0 0 [] [tokT "IDENTIFIER" c]]) ++
      optNl r.post)

def Restr.den (r : Restr) : RelRef :=
  { type := r.type.text,
    rel := match r.kind with | .userset rel => rel.text | _ => "",
    wildcard := match r.kind with | .wildcard => true | _ => false,
    cond := match r.cond with | some (_, _, c) => c | none => "" }

/-- relationDefDirectAssignment: `[` WS? r WS? (`,` WS? r WS?)* `]` -/
structure Direct where
  w0 : Option String
  first : Restr
  w1 : Option String
  rest : List (Option String × Restr × Option String)
  deriving Repr, Inhabited

def Direct.restTrees : List (Option String × Restr × Option String) → List Tree
  | [] => []
  | (a, r, b) :: more => [tokT "COMMA" ","] ++ optWs a ++ [r.tree] ++ optWs b ++ Direct.restTrees more

def Direct.tree (d : Direct) : Tree :=
  .rule "relationDefDirectAssignment" 0 0 []
    ([tokT "LBRACKET" "["] ++ optWs d.w0 ++ [d.first.tree] ++ optWs d.w1 ++ Direct.restTrees d.rest ++ [tokT "RPRACKET" "]"])

def Direct.den (d : Direct) : List RelRef := d.first.den :: d.rest.map (fun x => x.2.1.den)

/-- relationDefRewrite: `x` or `x WS from WS y` -/
structure Rw where
  computed : Ident
  from_ : Option (String × String × Ident)
  deriving Repr, Inhabited

def Rw.tree (r : Rw) : Tree :=
  match r.from_ with
  | none => .rule "relationDefRewrite" 0 0 [("rewriteComputedusersetName", 0)] [r.computed.tree]
  | some (w1, w2, ts) => .rule "relationDefRewrite" 0 0
      [("rewriteComputedusersetName", 0), ("rewriteTuplesetName", 4)]
      [r.computed.tree, ws w1, tokT "FROM" "from", ws w2, ts.tree]

def Rw.den (r : Rw) : Userset :=
  match r.from_ with
  | none => .computed r.computed.text
  | some (_, _, ts) => .ttu ts.text r.computed.text

/-- relationDefGrouping: relationDefRewrite -/
def Rw.grouping (r : Rw) : Tree := .rule "relationDefGrouping" 0 0 [] [r.tree]

def opTok : Op → Tree
  | .or => tokT "OR" "or"
  | .and => tokT "AND" "and"
  | .butNot => tokT "BUT_NOT" "but not"
  | .none => tokT "OR" "or"       -- not used: partials always carry an operator

mutual
  /-- relationDefNoDirect: (grouping | recurseNoDirect) partials? -/
  inductive DefND where
    | mk (first : ItemND) (partials : Option Partials)
  inductive ItemND where
    | rw (r : Rw)
    | paren (r : RecND)
  /-- relationRecurseNoDirect: `(` WS* (relationDefNoDirect | relationRecurseNoDirect) WS* `)` -/
  inductive RecND where
    | ofDef (l r : List String) (d : DefND)
    | ofRec (l r : List String) (x : RecND)
  /-- relationDefPartials: (WS op WS item)+ with one operator kind; `butNot` has exactly one item -/
  inductive Partials where
    | mk (op : Op) (items : Items)
  inductive Items where
    | one (w1 w2 : String) (i : ItemND)
    | cons (w1 w2 : String) (i : ItemND) (rest : Items)
end

mutual
  /-- relationDef: (direct | grouping | relationRecurse) partials? -/
  inductive Def where
    | mk (first : First) (partials : Option Partials)
  inductive First where
    | direct (d : Direct)
    | rw (r : Rw)
    | recurse (r : Rec)
  /-- relationRecurse: `(` WS* (relationDef | relationRecurseNoDirect) WS* `)` -/
  inductive Rec where
    | ofDef (l r : List String) (d : Def)
    | ofRecND (l r : List String) (x : RecND)
end

mutual
  def DefND.tree : DefND → Tree
    | .mk first none => .rule "relationDefNoDirect" 0 0 [] [ItemND.tree first]
    | .mk first (some p) => .rule "relationDefNoDirect" 0 0 [] [ItemND.tree first, Partials.tree p]
  def ItemND.tree : ItemND → Tree
    | .rw r => r.grouping
    | .paren r => RecND.tree r
  def RecND.tree : RecND → Tree
    | .ofDef l r d => .rule "relationRecurseNoDirect" 0 0 []
        ([tokT "LPAREN" "("] ++ l.map ws ++ [DefND.tree d] ++ r.map ws ++ [tokT "RPAREN" ")"])
    | .ofRec l r x => .rule "relationRecurseNoDirect" 0 0 []
        ([tokT "LPAREN" "("] ++ l.map ws ++ [RecND.tree x] ++ r.map ws ++ [tokT "RPAREN" ")"])
  def Partials.tree : Partials → Tree
    | .mk op items => .rule "relationDefPartials" 0 0 [] (Items.trees op items)
  def Items.trees (op : Op) : Items → List Tree
    | .one w1 w2 i => [ws w1, opTok op, ws w2, ItemND.tree i]
    | .cons w1 w2 i rest => [ws w1, opTok op, ws w2, ItemND.tree i] ++ Items.trees op rest
end

mutual
  def Def.tree : Def → Tree
    | .mk first none => .rule "relationDef" 0 0 [] [First.tree first]
    | .mk first (some p) => .rule "relationDef" 0 0 [] [First.tree first, Partials.tree p]
  def First.tree : First → Tree
    | .direct d => d.tree
    | .rw r => r.grouping
    | .recurse r => Rec.tree r
  def Rec.tree : Rec → Tree
    | .ofDef l r d => .rule "relationRecurse" 0 0 []
        ([tokT "LPAREN" "("] ++ l.map ws ++ [Def.tree d] ++ r.map ws ++ [tokT "RPAREN" ")"])
    | .ofRecND l r x => .rule "relationRecurse" 0 0 []
        ([tokT "LPAREN" "("] ++ l.map ws ++ [RecND.tree x] ++ r.map ws ++ [tokT "RPAREN" ")"])
end

/-! ### denotation -/
def combine (op : Op) (xs : List Userset) : Userset :=
  match op, xs with
  | .or, xs => .union xs
  | .and, xs => .inter xs
  | .butNot, x :: y :: _ => .diff x y
  | _, _ => .nil

mutual
  def DefND.den : DefND → Userset
    | .mk first none => ItemND.den first
    | .mk first (some (.mk op items)) => combine op (ItemND.den first :: Items.dens items)
  def ItemND.den : ItemND → Userset
    | .rw r => r.den
    | .paren r => RecND.den r
  def RecND.den : RecND → Userset
    | .ofDef _ _ d => DefND.den d
    | .ofRec _ _ x => RecND.den x
  def Items.dens : Items → List Userset
    | .one _ _ i => [ItemND.den i]
    | .cons _ _ i rest => ItemND.den i :: Items.dens rest
end

mutual
  def Def.den : Def → Userset
    | .mk first none => First.den first
    | .mk first (some (.mk op items)) => combine op (First.den first :: Items.dens items)
  def First.den : First → Userset
    | .direct _ => .this
    | .rw r => r.den
    | .recurse r => Rec.den r
  def Rec.den : Rec → Userset
    | .ofDef _ _ d => Def.den d
    | .ofRecND _ _ x => RecND.den x
end

-- the type restrictions the definition declares (those of its direct assignment, if any)
mutual
  def Def.restr : Def → Option (List RelRef)
    | .mk first _ => First.restr first
  def First.restr : First → Option (List RelRef)
    | .direct d => some d.den
    | .rw _ => none
    | .recurse r => Rec.restr r
  def Rec.restr : Rec → Option (List RelRef)
    | .ofDef _ _ d => Def.restr d
    | .ofRecND _ _ _ => none
end

/-- relationDeclaration: NEWLINE DEFINE WS relationName WS? COLON WS? relationDef
    (the `(NEWLINE multiLineComment)?` prefix cannot occur after the comment pre-pass) -/
structure Decl where
  nl0 : String
  w1 : String
  name : Ident
  w2 : Option String
  w3 : Option String
  body : Def

def Decl.tree (d : Decl) : Tree :=
  .rule "relationDeclaration" 0 0 []
    ([nl d.nl0, tokT "DEFINE" "define", ws d.w1, .rule "relationName" 0 0 [] [d.name.tree]] ++ optWs d.w2 ++
      [tokT "COLON" ":"] ++ optWs d.w3 ++ [Def.tree d.body])

end FgaVerif.Model.Cst
