import FgaVerif.Model.Tree
/-! Conformance of a parse tree to the parser grammar: every rule node's children, read as a word over
    token types and rule names, must be matched by the rule's body (an extended regular expression
    translated from `OpenFGAParser.g4` on every run, `Gen/Grammar.lean`), with the label fields set
    exactly where the body labels them.  A tree that conforms and has the cleaned text as its leaves is
    a derivation of that text by the grammar: the generated parser did what the grammar says. -/
namespace FgaVerif.Model.Conform
open FgaVerif.Model

inductive Gram where
  | tok (ty : String)
  | notTok (tys : List String)
  | rule (name : String)
  | seq (xs : List Gram)
  | alt (xs : List Gram)
  | opt (g : Gram)
  | star (g : Gram)
  | plus (g : Gram)
  | label (l : String) (g : Gram)
  deriving Repr, Inhabited

inductive Sym where
  | tok (ty : String)
  | rule (name : String)
  | bad                      -- an error node: matches nothing
  deriving Repr, DecidableEq, Inhabited, BEq

def symOf : Tree → Sym
  | .tok ty _ _ _ err => if err then .bad else .tok ty
  | .rule name _ _ _ _ => .rule name

/-- position in the word, label fields set so far -/
abbrev St := Nat × List (String × Nat)

def dedup (xs : List St) : List St := xs.eraseDups

mutual
  /-- all states reachable from `st` by matching `g` (fuelled: `star` needs it) -/
  def matchG (w : List Sym) : Nat → Gram → St → List St
    | 0, _, _ => []
    | _+1, .tok ty, (p, ls) => if w[p]? == some (.tok ty) then [(p + 1, ls)] else []
    | _+1, .notTok tys, (p, ls) =>
        match w[p]? with
        | some (.tok ty) => if tys.contains ty then [] else [(p + 1, ls)]
        | _ => []
    | _+1, .rule n, (p, ls) => if w[p]? == some (.rule n) then [(p + 1, ls)] else []
    | f+1, .seq xs, st => matchSeq w f xs [st]
    | f+1, .alt xs, st => dedup (matchAlt w f xs st)
    | f+1, .opt g, st => dedup (st :: matchG w f g st)
    | f+1, .star g, st =>
        let once := (matchG w f g st).filter (fun s => s.1 > st.1)   -- progress only
        dedup (st :: matchFrom w f (.star g) (dedup once))
    | f+1, .plus g, st => dedup (matchFrom w f (.star g) (dedup (matchG w f g st)))
    | f+1, .label l g, (p, ls) => (matchG w f g (p, ls)).map (fun (p', ls') => (p', ls' ++ [(l, p)]))
  def matchSeq (w : List Sym) : Nat → List Gram → List St → List St
    | 0, _, _ => []
    | _+1, [], sts => sts
    | f+1, g :: gs, sts => matchSeq w f gs (dedup (matchFrom w f g sts))
  def matchAlt (w : List Sym) : Nat → List Gram → St → List St
    | 0, _, _ => []
    | _+1, [], _ => []
    | f+1, g :: gs, st => matchG w f g st ++ matchAlt w f gs st
  def matchFrom (w : List Sym) : Nat → Gram → List St → List St
    | 0, _, _ => []
    | _+1, _, [] => []
    | f+1, g, s :: ss => matchG w f g s ++ matchFrom w f g ss
end

def lookup (rules : List (String × Gram)) (n : String) : Option Gram :=
  (rules.find? (·.1 == n)).map (·.2)

def sameLabels (a b : List (String × Nat)) : Bool :=
  a.all (fun x => b.contains x) && b.all (fun x => a.contains x)

/-- the children of this rule node are a word of the rule's body, labels included -/
def nodeConforms (rules : List (String × Gram)) (name : String) (labels : List (String × Nat)) (cs : List Tree) : Bool :=
  match lookup rules name with
  | none => false
  | some g =>
    let w := cs.map symOf
    let fuel := 4 * w.length + 64
    (matchG w fuel g (0, [])).any (fun (p, ls) => p == w.length && sameLabels ls labels)

mutual
  /-- first rule node (preorder) that does not conform, if any -/
  def firstBad (rules : List (String × Gram)) : Tree → Option String
    | .tok _ _ _ _ err => if err then some "<error node>" else none
    | .rule name _ _ labels cs =>
      if !nodeConforms rules name labels cs then some name else firstBadL rules cs
  def firstBadL (rules : List (String × Gram)) : List Tree → Option String
    | [] => none
    | c :: cs => match firstBad rules c with
      | some n => some n
      | none => firstBadL rules cs
end

def conforms (rules : List (String × Gram)) (t : Tree) : Bool := (firstBad rules t).isNone

end FgaVerif.Model.Conform
