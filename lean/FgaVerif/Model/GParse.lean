import FgaVerif.Model.Conform
import Std.Data.HashMap
/-! A parser *driven by the grammar*: it interprets the rule bodies of `Gen/Grammar.lean` (translated from
    `OpenFGAParser.g4` on every run), so this parser model is regenerated from the source.

    Semantics: ordered choice with full backtracking — alternatives in grammar order, `?`, `*`, `+` greedy
    first — and the *first* complete parse in that order is the answer.  That is the tree ANTLR's
    adaptive LL(*) prediction builds for a token sequence of the language: at every decision it takes the
    lowest alternative that can be completed (ambiguities resolve to the minimum alternative, greedy loops
    prefer to continue).  For a token sequence outside the language there is no parse; ANTLR then reports a
    syntax error (its recovered tree is not modelled).

    All results of a rule at a position are computed once (memo table) and kept one per end position, the
    first in order: what follows a rule depends only on where it ended, so the first complete parse is
    unchanged and the work stays polynomial. -/
namespace FgaVerif.Model.GParse
open FgaVerif.Model FgaVerif.Model.Conform

structure Tok where
  ty : String
  text : String
  line : Nat
  col : Nat
  deriving Repr, Inhabited, BEq

/-- position reached, children so far (reversed), label fields so far -/
abbrev Partial := Nat × List Tree × List (String × Nat)

abbrev Memo := Std.HashMap (String × Nat) (List (Nat × Tree))
/-- memo table, and whether the recursion ever ran out of fuel (then the answer is not trusted) -/
structure PState where
  memo : Memo := {}
  outOfFuel : Bool := false
abbrev PM := StateM PState

/-- keep the first result for every end position -/
def dedupPos (xs : List Partial) : List Partial :=
  let rec go : List Partial → List Nat → List Partial → List Partial
    | [], _, acc => acc.reverse
    | x :: rest, seen, acc => if seen.contains x.1 then go rest seen acc else go rest (x.1 :: seen) (x :: acc)
  go xs [] []

def tokTree (t : Tok) : Tree := .tok t.ty t.text t.line t.col false

def noFuel : PM (List α) := do
  modify (fun s => { s with outOfFuel := true })
  pure []

mutual
  def parseG (rules : List (String × Gram)) (toks : Array Tok) : Nat → Gram → Partial → PM (List Partial)
    | 0, _, _ => noFuel
    | f+1, g, st =>
      let (p, cs, ls) := st
      match g with
      | .tok ty =>
        match toks[p]? with
        | some t => pure (if t.ty == ty then [(p + 1, tokTree t :: cs, ls)] else [])
        | none => pure []
      | .notTok tys =>
        match toks[p]? with
        | some t => pure (if t.ty == "EOF" || tys.contains t.ty then [] else [(p + 1, tokTree t :: cs, ls)])
        | none => pure []
      | .rule n => do
        let rs ← parseRule rules toks f n p
        pure (rs.map fun (e, t) => (e, t :: cs, ls))
      | .seq xs => parseSeq rules toks f xs [st]
      | .alt xs => do
        let rs ← xs.mapM (fun x => parseG rules toks f x st)
        pure (dedupPos rs.flatten)
      | .opt x => do
        let rs ← parseG rules toks f x st
        pure (dedupPos (rs ++ [st]))
      | .star x => parseStar rules toks f x st
      | .plus x => do
        let rs ← parseG rules toks f x st
        let rs := rs.filter (fun r => r.1 > p)
        let more ← rs.mapM (fun r => parseStar rules toks f x r)
        pure (dedupPos more.flatten)
      | .label l x => do
        let rs ← parseG rules toks f x st
        pure (rs.map fun (e, cs', ls') => (e, cs', ls' ++ [(l, cs.length)]))
  def parseStar (rules : List (String × Gram)) (toks : Array Tok) : Nat → Gram → Partial → PM (List Partial)
    | 0, _, _ => noFuel
    | f+1, x, st => do
      let rs ← parseG rules toks f x st
      let rs := rs.filter (fun r => r.1 > st.1)
      let more ← rs.mapM (fun r => parseStar rules toks f x r)
      pure (dedupPos (more.flatten ++ [st]))
  def parseSeq (rules : List (String × Gram)) (toks : Array Tok) : Nat → List Gram → List Partial → PM (List Partial)
    | 0, _, _ => noFuel
    | _+1, [], sts => pure sts
    | f+1, x :: rest, sts => do
      let rs ← sts.mapM (fun s => parseG rules toks f x s)
      parseSeq rules toks f rest (dedupPos rs.flatten)
  def parseRule (rules : List (String × Gram)) (toks : Array Tok) : Nat → String → Nat → PM (List (Nat × Tree))
    | 0, _, _ => noFuel
    | f+1, n, p => do
      match (← get).memo.get? (n, p) with
      | some r => pure r
      | none =>
        match lookup rules n with
        | none => pure []
        | some body =>
          let rs ← parseG rules toks f body (p, [], [])
          let (line, col) := match toks[p]? with | some t => (t.line, t.col) | none => (0, 0)
          let out := rs.map fun (e, cs, ls) => (e, Tree.rule n line col ls cs.reverse)
          modify (fun s => { s with memo := s.memo.insert (n, p) out })
          pure out
end

inductive Outcome where
  | tree (t : Tree)
  | noParse
  | outOfFuel
  deriving Repr, Inhabited

/-- the parse of the whole token list (default channel, EOF last) from the start rule -/
def parse (rules : List (String × Gram)) (start : String) (toks : Array Tok) : Outcome :=
  let (rs, s) := (parseRule rules toks (16 * toks.size + 400) start 0).run {}
  if s.outOfFuel then .outOfFuel else
  match rs.find? (fun r => r.1 == toks.size) with
  | some r => .tree r.2
  | none => .noParse

end FgaVerif.Model.GParse
