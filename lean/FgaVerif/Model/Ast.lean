/-! Abstract syntax of authorization models, mirroring the protobuf messages the code works on
    (`openfgav1.AuthorizationModel` and friends), with Go's nil-able parts as `Option`s and Go
    maps as key-sorted association lists. -/
namespace FgaVerif.Model

/-- `openfgav1.Userset`.  `nil` is the nil pointer / unset oneof (Go code can meet it in
    hand-built protos). -/
inductive Userset where
  | this
  | computed (rel : String)
  | ttu (tupleset computed : String)
  | union (cs : List Userset)
  | inter (cs : List Userset)
  | diff (base sub : Userset)
  | nil
  deriving Repr, Inhabited, BEq

/-- `RelationReference`: type, optional relation / wildcard, condition ("" = none) -/
structure RelRef where
  type : String
  rel : String := ""         -- "" = unset
  wildcard : Bool := false
  cond : String := ""
  deriving Repr, Inhabited, BEq, DecidableEq

structure RelMeta where
  restr : List RelRef := []
  module : String := ""
  file : String := ""        -- SourceInfo.File ("" = no source info)
  deriving Repr, Inhabited, BEq, DecidableEq

structure TypeMeta where
  relations : List (String × RelMeta) := []   -- sorted by key
  module : String := ""
  file : String := ""
  deriving Repr, Inhabited, BEq, DecidableEq

structure TypeDef where
  name : String
  relations : List (String × Userset) := []   -- sorted by key
  md : Option TypeMeta := none
  deriving Repr, Inhabited, BEq

structure CondParam where
  typeName : String                -- lower-case DSL name, e.g. "int", "list"
  generics : List String := []
  deriving Repr, Inhabited, BEq, DecidableEq

structure CondMeta where
  module : String := ""
  file : String := ""
  deriving Repr, Inhabited, BEq, DecidableEq

structure Condition where
  name : String
  expr : String := ""
  params : List (String × CondParam) := []    -- sorted by key
  md : Option CondMeta := none
  deriving Repr, Inhabited, BEq, DecidableEq

structure Model where
  schema : String := ""
  types : List TypeDef := []
  conds : List (String × Condition) := []     -- sorted by key
  deriving Repr, Inhabited, BEq

/-! ### association lists kept sorted by key (model of a Go map with observable key set) -/
namespace AList

def find? (k : String) : List (String × α) → Option α
  | [] => none
  | (k', v) :: rest => if k == k' then some v else find? k rest

def contains (k : String) (m : List (String × α)) : Bool := (find? k m).isSome

/-- insert or replace, keeping keys sorted -/
def insert (k : String) (v : α) : List (String × α) → List (String × α)
  | [] => [(k, v)]
  | (k', v') :: rest =>
    if k == k' then (k, v) :: rest
    else if k < k' then (k, v) :: (k', v') :: rest
    else (k', v') :: insert k v rest

def keys (m : List (String × α)) : List String := m.map (·.1)

def ofList (xs : List (String × α)) : List (String × α) := xs.foldl (fun m (k, v) => insert k v m) []

end AList

end FgaVerif.Model
