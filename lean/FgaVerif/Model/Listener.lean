import FgaVerif.Model.Ast
import FgaVerif.Model.Tree
/-! Port of the DSL listener (`pkg/go/transformer/dsltojson.go`): the Enter*/Exit* callbacks as
    functions on an explicit state, and `ParseTreeWalker.Walk` as a structural recursion over the
    generic tree.  Go's partiality is explicit: a nil dereference, nil-map write or
    out-of-range index is `Except.error`. -/
namespace FgaVerif.Model.Listener
open FgaVerif.Model

inductive Op where | none | or | and | butNot
  deriving Repr, DecidableEq, Inhabited, BEq

inductive Panic where
  | nilDeref (what : String)
  | index (what : String)
  | nilMap (what : String)
  deriving Repr, DecidableEq, Inhabited, BEq

structure Relation where
  rewrites : List Userset := []
  operator : Op := .none
  typeInfo : List RelRef := []
  deriving Repr, Inhabited

structure StackRel where
  rewrites : List Userset
  operator : Op
  deriving Repr, Inhabited

structure SynErr where
  line : Nat       -- zero-based, as OpenFgaDslSyntaxError stores it
  col : Nat
  msg : String
  deriving Repr, DecidableEq, Inhabited, BEq

structure LState where
  schema : String := ""
  types : List TypeDef := []                       -- authorizationModel.TypeDefinitions
  conds : List (String × Condition) := []          -- authorizationModel.Conditions
  currentTypeDef : Option TypeDef := none
  currentRelation : Option Relation := none
  currentCondition : Option Condition := none
  rewriteStack : Option (List StackRel) := none    -- top of the stack at the head
  isModular : Bool := false
  moduleName : String := ""
  /-- type name ↦ index in `types` of the definition recorded as the extension (the Go map
      holds the very pointer that is also in TypeDefinitions) -/
  typeDefExtensions : Option (List (String × Nat)) := none
  errors : List SynErr := []
  deriving Repr, Inhabited

abbrev R := Except Panic LState

/-- `ParseExpression` -/
def parseExpression (rewrites : List Userset) (op : Op) : Option Userset :=
  match rewrites with
  | [] => none
  | [x] => some x
  | x :: y :: rest =>
    match op with
    | .none => none
    | .or => some (.union (x :: y :: rest))
    | .and => some (.inter (x :: y :: rest))
    | .butNot => some (.diff x y)

def notify (st : LState) (msg : String) (at_ : Tree) : LState :=
  { st with errors := st.errors ++ [⟨at_.startPos.1, at_.startPos.2, msg⟩] }

/-- ASCII upper-casing (the parameter type keywords are ASCII) -/
def upper (s : String) : String := s.map Char.toUpper

def typeNameValues : List String :=
  ["UNSPECIFIED", "ANY", "BOOL", "STRING", "INT", "UINT", "DOUBLE", "DURATION", "TIMESTAMP", "MAP", "LIST", "IPADDRESS"]

/-- `ConditionParamTypeRef_TypeName_value["TYPE_NAME_"+strings.ToUpper(s)]` rendered as the DSL name;
    an unknown name is 0 = UNSPECIFIED -/
def paramTypeName (s : String) : String :=
  if typeNameValues.contains (upper s) then (upper s).map Char.toLower else "unspecified"

def enterMain (st : LState) : R := .ok { st with conds := [] }

def exitModuleHeader (ctx : Tree) (st : LState) : R :=
  let st := { st with isModular := true, typeDefExtensions := some [] }
  match ctx.label? "moduleName" with
  | some n => .ok { st with moduleName := n.text }
  | none => .ok st

def exitModelHeader (ctx : Tree) (st : LState) : R :=
  match ctx.label? "schemaVersion" with
  | some v => .ok { st with schema := v.text }
  | none => .ok st

def enterTypeDef (ctx : Tree) (st : LState) : R :=
  match ctx.label? "typeName" with
  | none => .ok st
  | some tn =>
    let st := if (ctx.childTok? "EXTEND").isSome && !st.isModular
      then notify st "extend can only be used in a modular model" tn else st
    .ok { st with currentTypeDef := some {
      name := tn.text, relations := [],
      md := some { relations := [], module := if st.isModular then st.moduleName else "" } } }

def enterConditions (st : LState) : R := .ok { st with conds := [] }

def enterCondition (ctx : Tree) (st : LState) : R :=
  match ctx.childRule? "conditionName" with
  | none => .ok st
  | some cn =>
    let name := cn.text
    let st := if AList.contains name st.conds
      then notify st s!"condition '{name}' is already defined in the model" cn else st
    .ok { st with currentCondition := some {
      name := name, expr := "", params := [],
      md := if st.isModular then some { module := st.moduleName } else none } }

def exitConditionParameter (ctx : Tree) (st : LState) : R :=
  match ctx.childRule? "parameterName", ctx.childRule? "parameterType" with
  | some pn, some pt =>
    let parameterName := pn.text
    let curParams := match st.currentCondition with | some c => c.params | none => []
    let curName := match st.currentCondition with | some c => c.name | none => ""
    let st := if AList.contains parameterName curParams
      then notify st s!"parameter '{parameterName}' is already defined in the condition '{curName}'" pn else st
    let (typeNameString, generic) : String × Option String :=
      match pt.childTok? "CONDITION_PARAM_CONTAINER" with
      | some pc =>
        (pc.text, (pt.childTok? "CONDITION_PARAM_TYPE").map (fun g => paramTypeName g.text))
      | none => (pt.text, none)
    let ref : CondParam := { typeName := paramTypeName typeNameString, generics := generic.toList }
    match st.currentCondition with
    | none => .error (.nilDeref "currentCondition.Parameters")
    | some c => .ok { st with currentCondition := some { c with params := AList.insert parameterName ref c.params } }
  | _, _ => .ok st

def isTrailingWs (c : Char) : Bool := c == ' ' || c == '\t' || c == '\r' || c == '\n' || c == '\x0c'

/-- `strings.TrimRight(s, " \t\r\n\f")` -/
def trimRightWs (s : String) : String :=
  String.ofList (s.toList.reverse.dropWhile isTrailingWs).reverse

def exitConditionExpression (ctx : Tree) (st : LState) : R :=
  match st.currentCondition with
  | none => .error (.nilDeref "currentCondition.Expression")
  | some c => .ok { st with currentCondition := some { c with expr := trimRightWs ctx.text } }

def exitCondition (st : LState) : R :=
  match st.currentCondition with
  | some c => .ok { st with conds := AList.insert c.name c st.conds, currentCondition := none }
  | none => .ok st

def exitTypeDef (ctx : Tree) (st : LState) : R :=
  match st.currentTypeDef with
  | none => .ok st
  | some td =>
    if td.name == "" then .ok st else
    let nrel := match td.md with | some m => m.relations.length | none => 0
    let td := if !st.isModular && nrel == 0 then { td with md := none } else td
    let idx := st.types.length
    let st := { st with types := st.types ++ [td] }
    if (ctx.childTok? "EXTEND").isSome && st.isModular then
      match st.typeDefExtensions with
      | some exts =>
        if AList.contains td.name exts then
          match ctx.label? "typeName" with
          | none => .error (.nilDeref "ctx.GetTypeName().GetStart()")
          | some tn => .ok { notify st s!"'{td.name}' is already extended in file." tn with currentTypeDef := none }
        else .ok { st with typeDefExtensions := some (AList.insert td.name idx exts), currentTypeDef := none }
      | none => .error (.nilMap "typeDefExtensions")
    else .ok { st with currentTypeDef := none }

def enterRelationDeclaration (st : LState) : R :=
  .ok { st with currentRelation := some {}, rewriteStack := some [] }

/-- `parentExtend`: `some b` when the parent context is a typeDef (b = it has an EXTEND token) -/
def exitRelationDeclaration (ctx : Tree) (parentExtend : Option Bool) (st : LState) : R :=
  match ctx.childRule? "relationName" with
  | none => .ok st
  | some rn =>
    let relationName := rn.text
    match st.currentRelation with
    | none => .error (.nilDeref "currentRelation.Rewrites")
    | some cr =>
      match parseExpression cr.rewrites cr.operator with
      | none => .ok { st with currentRelation := none }
      | some relationDef =>
        let (exists_, tname) := match st.currentTypeDef with
          | some td => (AList.contains relationName td.relations, td.name)
          | none => (false, "")
        let st := if exists_ then notify st s!"'{relationName}' is already defined in '{tname}'" rn else st
        match st.currentTypeDef with
        | none => .error (.nilDeref "currentTypeDef.Relations")
        | some td =>
          match td.md with
          | none => .error (.nilDeref "currentTypeDef.Metadata.Relations")
          | some m =>
            let isExtension := parentExtend.getD false
            let rm : RelMeta := { restr := cr.typeInfo,
                                  module := if st.isModular && isExtension then st.moduleName else "" }
            let td := { td with relations := AList.insert relationName relationDef td.relations,
                                md := some { m with relations := AList.insert relationName rm m.relations } }
            .ok { st with currentTypeDef := some td, currentRelation := none }

def withRelation (st : LState) (what : String) (f : Relation → Relation) : R :=
  match st.currentRelation with
  | none => .error (.nilDeref what)
  | some cr => .ok { st with currentRelation := some (f cr) }

def enterRelationDefDirectAssignment (st : LState) : R :=
  withRelation st "currentRelation.TypeInfo" (fun cr => { cr with typeInfo := [] })

def exitRelationDefDirectAssignment (st : LState) : R :=
  withRelation st "currentRelation.Rewrites" (fun cr => { cr with rewrites := cr.rewrites ++ [.this] })

def exitRelationDefTypeRestriction (ctx : Tree) (st : LState) : R :=
  match ctx.childRule? "relationDefTypeRestrictionBase" with
  | none => .ok st
  | some base =>
    let ty := (base.label? "relationDefTypeRestrictionType").map (·.text)
    let rel := (base.label? "relationDefTypeRestrictionRelation").map (·.text)
    let wc := (base.label? "relationDefTypeRestrictionWildcard").isSome
    let cond := (ctx.childRule? "conditionName").map (·.text)
    let ref : RelRef := { type := ty.getD "", rel := if wc then "" else rel.getD "", wildcard := wc, cond := cond.getD "" }
    withRelation st "currentRelation.TypeInfo" (fun cr => { cr with typeInfo := cr.typeInfo ++ [ref] })

def exitRelationDefRewrite (ctx : Tree) (st : LState) : R :=
  match ctx.label? "rewriteComputedusersetName" with
  | none => .error (.nilDeref "ctx.GetRewriteComputedusersetName().GetText()")
  | some cu =>
    let partialRewrite : Userset :=
      match ctx.label? "rewriteTuplesetName" with
      | none => .computed cu.text
      | some ts => .ttu ts.text cu.text
    withRelation st "currentRelation.Rewrites" (fun cr => { cr with rewrites := cr.rewrites ++ [partialRewrite] })

def exitRelationRecurse (st : LState) : R :=
  match st.currentRelation with
  | none => .ok st
  | some cr =>
    match parseExpression cr.rewrites cr.operator with
    | some d => .ok { st with currentRelation := some { cr with rewrites := [d] } }
    | none => .ok st

def enterRelationRecurseNoDirect (st : LState) : R :=
  match st.rewriteStack with
  | some stack =>
    match st.currentRelation with
    | none => .error (.nilDeref "currentRelation.Rewrites")
    | some cr => .ok { st with rewriteStack := some (⟨cr.rewrites, cr.operator⟩ :: stack),
                               currentRelation := some { cr with rewrites := [] } }
  | none =>
    withRelation st "currentRelation.Rewrites" (fun cr => { cr with rewrites := [] })

def exitRelationRecurseNoDirect (st : LState) : R :=
  match st.currentRelation with
  | none => .ok st
  | some cr =>
    let relationDef := parseExpression cr.rewrites cr.operator
    match st.rewriteStack with
    | none => .error (.index "rewriteStack[len-1]")
    | some [] => .error (.index "rewriteStack[len-1]")
    | some (popped :: rest) =>
      let st := { st with rewriteStack := some rest }
      match relationDef with
      | some d => .ok { st with currentRelation := some { cr with operator := popped.operator, rewrites := popped.rewrites ++ [d] } }
      | none => .ok st

def enterRelationDefPartials (ctx : Tree) (st : LState) : R :=
  let op : Option Op :=
    if !(ctx.childToks "OR").isEmpty then some .or
    else if !(ctx.childToks "AND").isEmpty then some .and
    else if (ctx.childTok? "BUT_NOT").isSome then some .butNot
    else none
  match op with
  | none => .ok st
  | some o => withRelation st "currentRelation.Operator" (fun cr => { cr with operator := o })

/-- `ctx.EnterRule(listener)` dispatch -/
def enterRule (name : String) (ctx : Tree) (st : LState) : R :=
  match name with
  | "main" => enterMain st
  | "typeDef" => enterTypeDef ctx st
  | "conditions" => enterConditions st
  | "condition" => enterCondition ctx st
  | "relationDeclaration" => enterRelationDeclaration st
  | "relationDefDirectAssignment" => enterRelationDefDirectAssignment st
  | "relationRecurseNoDirect" => enterRelationRecurseNoDirect st
  | "relationDefPartials" => enterRelationDefPartials ctx st
  | _ => .ok st

/-- `ctx.ExitRule(listener)` dispatch -/
def exitRule (name : String) (ctx : Tree) (parentExtend : Option Bool) (st : LState) : R :=
  match name with
  | "moduleHeader" => exitModuleHeader ctx st
  | "modelHeader" => exitModelHeader ctx st
  | "conditionParameter" => exitConditionParameter ctx st
  | "conditionExpression" => exitConditionExpression ctx st
  | "condition" => exitCondition st
  | "typeDef" => exitTypeDef ctx st
  | "relationDeclaration" => exitRelationDeclaration ctx parentExtend st
  | "relationDefDirectAssignment" => exitRelationDefDirectAssignment st
  | "relationDefTypeRestriction" => exitRelationDefTypeRestriction ctx st
  | "relationDefRewrite" => exitRelationDefRewrite ctx st
  | "relationRecurse" => exitRelationRecurse st
  | "relationRecurseNoDirect" => exitRelationRecurseNoDirect st
  | _ => .ok st

/-- names of the rules for which the listener implements a callback (checked against the
    grammar's rule names in C19) -/
def callbackRules : List String :=
  ["main", "moduleHeader", "modelHeader", "typeDef", "conditions", "condition", "conditionParameter",
   "conditionExpression", "relationDeclaration", "relationDefDirectAssignment", "relationDefTypeRestriction",
   "relationDefRewrite", "relationRecurse", "relationRecurseNoDirect", "relationDefPartials"]

mutual
  /-- `ParseTreeWalker.Walk` -/
  def walk (parentExtend : Option Bool) : Tree → LState → R
    | .tok _ _ _ _ _, st => .ok st          -- VisitTerminal / VisitErrorNode: no-ops
    | .rule name sl sc ls cs, st =>
      let ctx := Tree.rule name sl sc ls cs
      match enterRule name ctx st with
      | .error p => .error p
      | .ok st1 =>
        let pe : Option Bool := if name == "typeDef" then some (ctx.childTok? "EXTEND").isSome else none
        match walkL pe cs st1 with
        | .error p => .error p
        | .ok st2 => exitRule name ctx parentExtend st2
  def walkL (parentExtend : Option Bool) : List Tree → LState → R
    | [], st => .ok st
    | c :: cs, st =>
      match walk parentExtend c st with
      | .error p => .error p
      | .ok st1 => walkL parentExtend cs st1
end

/-- what `TransformModularDSLToProto` returns after a walk without panic: the syntax errors
    void the result -/
inductive Outcome where
  | panic (p : Panic)
  | errors (es : List SynErr)
  | ok (m : Model) (extensions : Option (List (String × Nat)))
  deriving Repr, Inhabited

/-- `antlrErrors`: the errors the lexer and parser reported before the walk -/
def transform (antlrErrors : List SynErr) (t : Tree) : Outcome :=
  match walk none t { errors := antlrErrors } with
  | .error p => .panic p
  | .ok st =>
    if st.errors.isEmpty then .ok { schema := st.schema, types := st.types, conds := st.conds } st.typeDefExtensions
    else .errors st.errors

end FgaVerif.Model.Listener
