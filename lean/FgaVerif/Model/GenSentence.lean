import FgaVerif.Model.Conform
/-! Random sentences *of the grammar*: a token-type sequence is derived from the rule bodies of
    `Gen/Grammar.lean` (regenerated from `OpenFGAParser.g4`) by a seeded pseudo-random choice at every
    alternative, option and repetition, and written out with one lexeme per token type.  The texts
    exercise every branch of every rule — optional tokens, either side of every alternative, zero, one and
    several repetitions — so that a hand edit of one generated parser method that no fixture reaches is
    reached here.  No claim is made that the text lexes back to the same tokens (adjacent lexemes may
    merge); the texts are *probes* on which the real lexer/parser and their models must agree. -/
namespace FgaVerif.Model.GenSentence
open FgaVerif.Model.Conform

def next (s : Nat) : Nat := (s * 6364136223846793005 + 1442695040888963407) % 18446744073709551616
def pickN (s n : Nat) : Nat := if n == 0 then 0 else (s / 65536) % n

/-- token types a `~(...)` may stand for -/
def anyToks : List String :=
  ["IDENTIFIER", "WHITESPACE", "COLON", "COMMA", "HASH", "LPAREN", "RPAREN", "LBRACKET", "RPRACKET", "STAR", "OR", "AND", "TYPE",
   "DEFINE", "NUM_INT", "STRING", "EQUALS", "DOT", "LBRACE", "LESS", "GREATER", "EXTENDED_IDENTIFIER", "NEWLINE", "RBRACE"]

mutual
  /-- derive from `g`: (seed, token types so far reversed) → the same after `g`.  `depth` limits rule
      nesting: when it is used up, alternatives take their first member and repetitions stop. -/
  def gen (rules : List (String × Gram)) : Nat → Nat → Gram → Nat × List String → Nat × List String
    | 0, _, _, st => st
    | f+1, depth, g, (s, acc) =>
      match g with
      | .tok ty => (s, ty :: acc)
      | .notTok tys =>
        let cands := anyToks.filter (fun t => !tys.contains t)
        (next s, (cands.getD (pickN s cands.length) "IDENTIFIER") :: acc)
      | .rule n =>
        match lookup rules n with
        | none => (s, acc)
        | some body => gen rules f (depth - 1) body (s, acc)
      | .seq xs => genSeq rules f depth xs (s, acc)
      | .alt xs =>
        let i := if depth == 0 then 0 else pickN s xs.length
        match xs[i]? with
        | some x => gen rules f depth x (next s, acc)
        | none => (s, acc)
      | .opt x => if depth == 0 || pickN s 2 == 0 then (next s, acc) else gen rules f depth x (next s, acc)
      | .star x =>
        let k := if depth == 0 then 0 else pickN s 4
        genRep rules f depth x k (next s, acc)
      | .plus x =>
        let k := if depth == 0 then 1 else 1 + pickN s 3
        genRep rules f depth x k (next s, acc)
      | .label _ x => gen rules f depth x (s, acc)
  def genSeq (rules : List (String × Gram)) : Nat → Nat → List Gram → Nat × List String → Nat × List String
    | 0, _, _, st => st
    | _+1, _, [], st => st
    | f+1, depth, x :: xs, st => genSeq rules f depth xs (gen rules f depth x st)
  def genRep (rules : List (String × Gram)) : Nat → Nat → Gram → Nat → Nat × List String → Nat × List String
    | 0, _, _, _, st => st
    | _+1, _, _, 0, st => st
    | f+1, depth, x, k+1, st => genRep rules f depth x k (gen rules f depth x st)
end

/-- a lexeme for a token type: the literal of the vocabulary if it has one, a sample otherwise -/
def lexeme (symbolic literal : List String) (s : Nat) (ty : String) : String :=
  let pick (xs : List String) : String := xs.getD (pickN s xs.length) ""
  match ty with
  | "EOF" => ""
  | "WHITESPACE" => pick [" ", " ", "  ", "\t", " \t "]
  | "NEWLINE" => pick ["\n", "\n", "\n  ", "\n\n", "\r\n", "\n\t", "\n    ", " \n "]
  | "IDENTIFIER" => pick ["a", "b", "user", "viewer", "x1", "_y", "can-view", "doc"]
  | "EXTENDED_IDENTIFIER" => pick ["a.b", "org/team", "x-1.y", "a/b.c"]
  | "SCHEMA_VERSION" => pick ["1.1", "1.2", "10.0"]
  | "CONDITION_PARAM_TYPE" => pick ["string", "int", "bool", "timestamp", "ipaddress"]
  | "CONDITION_PARAM_CONTAINER" => pick ["list", "map"]
  | "NUM_INT" => pick ["0", "42", "0x1F"]
  | "NUM_UINT" => pick ["7u"]
  | "NUM_FLOAT" => pick ["1.5", "2e3"]
  | "STRING" => pick ["\"s\"", "'t'", "\"a b\""]
  | "BYTES" => pick ["b\"x\""]
  | "CEL_COMMENT" => "// c"
  | _ =>
    let i := symbolic.findIdx (· == ty)
    match literal[i]? with
    | some l => if l.length ≥ 2 then String.ofList ((l.toList.drop 1).dropLast) else ty
    | none => ty

/-- sentence number `seed` -/
def sentence (rules : List (String × Gram)) (symbolic literal : List String) (start : String) (seed depth : Nat) : String :=
  let (_, tys) := gen rules 4000 depth (.rule start) (next (next (seed * 2654435761 + 12345)), [])
  let tys := tys.reverse
  let rec go : List String → Nat → List String → List String
    | [], _, acc => acc.reverse
    | t :: ts, s, acc => go ts (next s) (lexeme symbolic literal s t :: acc)
  String.join (go tys (next (seed + 99991)) [])

end FgaVerif.Model.GenSentence
