import FgaVerif.Model.Ast
import FgaVerif.Engine.Sort
/-! Port of `pkg/go/transformer/jsontodsl.go` (model → DSL text). Function names follow the Go
    source. The direct-assignment counter of `DirectAssignmentValidator` is threaded as a `Nat`. -/
namespace FgaVerif.Model.Printer
open FgaVerif.Model

inductive PrintErr where
  | nesting (typeName relationName : String)       -- errors.UnsupportedDSLNestingError
  | condName (key nested : String)                 -- errors.ConditionNameDoesntMatchError
  | paramGeneric (param ty : String)               -- list/map parameter without generic type
  deriving Repr, BEq, DecidableEq, Inhabited

def isThis : Userset → Bool
  | .this => true
  | _ => false

/-- `DirectAssignmentValidator.isFirstPosition` -/
def isFirstPosition : Userset → Bool
  | .this => true
  | .diff base _ =>
      match base with
      | .nil => false
      | b => if isThis b then true else isFirstPosition b
  | .inter cs =>
      match cs with
      | [] => false
      | c :: rest => if (c :: rest).any isThis then true else isFirstPosition c
  | .union cs =>
      match cs with
      | [] => false
      | c :: rest => if (c :: rest).any isThis then true else isFirstPosition c
  | _ => false

def parseTypeRestriction (r : RelRef) : String :=
  let s := r.type
  let s := if r.wildcard then s ++ ":*" else s
  let s := if r.rel != "" then s ++ "#" ++ r.rel else s
  if r.cond != "" then s ++ " with " ++ r.cond else s

def parseThis (rs : List RelRef) : String :=
  "[" ++ ", ".intercalate (rs.map parseTypeRestriction) ++ "]"

/-- move the element at index `i` to the front -/
def moveToFront (i : Nat) (xs : List α) : List α :=
  (xs.drop i).head?.toList ++ xs.take i ++ xs.drop (i + 1)

/-- `prioritizeDirectAssignment`: move the first `this` to the front -/
def prioritizeDirectAssignment (us : List Userset) : List Userset :=
  match us.findIdx? isThis with
  | none => us
  | some i => moveToFront i us

/-- The same permutation applied to the already printed operands.  The Go code hoists first and
    prints afterwards; printing is done here in source order (so that the recursion is structural)
    and the *results* are hoisted.  This is equivalent because the printed text of an operand does
    not depend on its position, the direct-assignment counter is a sum, and every error raised
    inside one relation is the same value (`nesting ty rel`). -/
def hoistParts (us : List Userset) (parts : List String) : List String :=
  match us.findIdx? isThis with
  | none => parts
  | some i => moveToFront i parts

mutual
  /-- `parseSubRelation`: returns the text and the updated direct-assignment counter -/
  def parseSubRelation (ty rel : String) (rs : List RelRef) : Userset → Nat → Except PrintErr (String × Nat)
    | .this, n => .ok (parseThis rs, n + 1)
    | .computed r, n => .ok (r, n)
    | .ttu ts cu, n => .ok (cu ++ " from " ++ ts, n)
    | .union cs, n =>
        if cs.isEmpty then .error (.nesting ty rel) else   -- an operator without operands has no DSL
        match parseChildren ty rel rs cs n with
        | .ok (parts, n') => .ok ("(" ++ " or ".intercalate (hoistParts cs parts) ++ ")", n')
        | .error e => .error e
    | .inter cs, n =>
        if cs.isEmpty then .error (.nesting ty rel) else
        match parseChildren ty rel rs cs n with
        | .ok (parts, n') => .ok ("(" ++ " and ".intercalate (hoistParts cs parts) ++ ")", n')
        | .error e => .error e
    | .diff b s, n =>
        match parseSubRelation ty rel rs b n with
        | .error e => .error e
        | .ok (bs, n1) =>
          match parseSubRelation ty rel rs s n1 with
          | .error e => .error e
          | .ok (ss, n2) => .ok ("(" ++ bs ++ " but not " ++ ss ++ ")", n2)
    | .nil, _ => .error (.nesting ty rel)
  def parseChildren (ty rel : String) (rs : List RelRef) : List Userset → Nat → Except PrintErr (List String × Nat)
    | [], n => .ok ([], n)
    | c :: cs, n =>
        match parseSubRelation ty rel rs c n with
        | .error e => .error e
        | .ok (s, n1) =>
          match parseChildren ty rel rs cs n1 with
          | .error e => .error e
          | .ok (ss, n2) => .ok (s :: ss, n2)
end

/-- `strings.NewReplacer("\n", " ", "\r", " ")` -/
def oneLine (s : String) : String := s.map (fun c => if c == '\n' || c == '\r' then ' ' else c)

def constructSourceComment (module file leading : String) (inc : Bool) : String :=
  if (module == "" && file == "") || !inc then ""
  else " #" ++ leading ++ " module: " ++ oneLine module ++ ", file: " ++ oneLine file

/-- the top-level operator is printed without parentheses -/
def parseTop (ty rel : String) (rs : List RelRef) : Userset → Except PrintErr (String × Nat)
  | .diff b s =>
      match parseSubRelation ty rel rs b 0 with
      | .error e => .error e
      | .ok (bs, n1) =>
        match parseSubRelation ty rel rs s n1 with
        | .error e => .error e
        | .ok (ss, n2) => .ok (bs ++ " but not " ++ ss, n2)
  | .union cs =>
      if cs.isEmpty then .error (.nesting ty rel) else
      match parseChildren ty rel rs cs 0 with
      | .ok (parts, n) => .ok (" or ".intercalate (hoistParts cs parts), n)
      | .error e => .error e
  | .inter cs =>
      if cs.isEmpty then .error (.nesting ty rel) else
      match parseChildren ty rel rs cs 0 with
      | .ok (parts, n) => .ok (" and ".intercalate (hoistParts cs parts), n)
      | .error e => .error e
  | u => parseSubRelation ty rel rs u 0

/-- `parseRelation` -/
def parseRelation (ty rel : String) (u : Userset) (md : RelMeta) (src : Bool) : Except PrintErr String :=
  match parseTop ty rel md.restr u with
  | .error e => .error e
  | .ok (s, occ) =>
    if occ == 0 || (occ == 1 && isFirstPosition u) then
      .ok ("    define " ++ rel ++ ": " ++ s ++ constructSourceComment md.module md.file " extended by:" src)
    else .error (.nesting ty rel)

/-- `sortByModule` as a "less or equal" test (the Go comparator is ≤ 0) -/
def sortByModuleLe (aName bName aModule bModule aFile bFile : String) : Bool :=
  if aModule == "" && bModule == "" then aName ≤ bName
  else if aModule == "" then true
  else if bModule == "" then false
  else if aModule != bModule then aModule ≤ bModule
  else if aFile != bFile then aFile ≤ bFile
  else aName ≤ bName

def relMetaOf (md : Option TypeMeta) (rel : String) : RelMeta :=
  match md with
  | none => {}
  | some m => (AList.find? rel m.relations).getD {}

def parseRelations (ty : String) (rels : List (String × Userset)) (md : Option TypeMeta) (src : Bool) :
    List String → Except PrintErr String
  | [] => .ok ""
  | r :: rest =>
    match AList.find? r rels with
    | none => parseRelations ty rels md src rest     -- unreachable: names come from `rels`
    | some u =>
      match parseRelation ty r u (relMetaOf md r) src with
      | .error e => .error e
      | .ok s =>
        match parseRelations ty rels md src rest with
        | .error e => .error e
        | .ok more => .ok ("\n" ++ s ++ more)

/-- `parseType` -/
def parseType (t : TypeDef) (isModular src : Bool) : Except PrintErr String :=
  let tm : TypeMeta := t.md.getD {}
  let head := "type " ++ t.name ++ constructSourceComment tm.module tm.file "" src
  if t.relations.isEmpty then .ok head
  else
    let names := AList.keys t.relations
    let sorted :=
      if isModular then
        insertionSort (fun a b =>
          let am := relMetaOf t.md a
          let bm := relMetaOf t.md b
          sortByModuleLe a b am.module bm.module am.file bm.file) names
      else insertionSort (fun a b => a ≤ b) names
    match parseRelations t.name t.relations t.md src sorted with
    | .error e => .error e
    | .ok body => .ok (head ++ "\n  relations" ++ body)

def parseConditionParams : List (String × CondParam) → Except PrintErr (List String)
  | [] => .ok []
  | (name, p) :: rest =>
    let tyStr : Except PrintErr String :=
      if p.typeName == "list" || p.typeName == "map" then
        match p.generics with
        | [] => .error (.paramGeneric name p.typeName)
        | g :: _ => .ok (p.typeName ++ "<" ++ g ++ ">")
      else .ok p.typeName
    match tyStr with
    | .error e => .error e
    | .ok t =>
      match parseConditionParams rest with
      | .error e => .error e
      | .ok more => .ok ((name ++ ": " ++ t) :: more)

/-- `parseCondition` -/
def parseCondition (key : String) (c : Condition) (src : Bool) : Except PrintErr String :=
  if key != c.name then .error (.condName key c.name)
  else
    match parseConditionParams (insertionSort (fun a b => a.1 ≤ b.1) c.params) with
    | .error e => .error e
    | .ok ps =>
      let cm : CondMeta := c.md.getD {}
      .ok ("condition " ++ c.name ++ "(" ++ ", ".intercalate ps ++ ") {\n  " ++ c.expr ++ "\n}" ++
        constructSourceComment cm.module cm.file "" src ++ "\n")

def parseConditionList (src : Bool) : List (String × Condition) → Except PrintErr String
  | [] => .ok ""
  | (k, c) :: rest =>
    match parseCondition k c src with
    | .error e => .error e
    | .ok s =>
      match parseConditionList src rest with
      | .error e => .error e
      | .ok more => .ok ("\n" ++ s ++ more)

def parseConditions (conds : List (String × Condition)) (src : Bool) : Except PrintErr String :=
  let sorted := insertionSort (fun (a b : String × Condition) =>
    let am : CondMeta := a.2.md.getD {}
    let bm : CondMeta := b.2.md.getD {}
    sortByModuleLe a.1 b.1 am.module bm.module am.file bm.file) conds
  parseConditionList src sorted

def parseTypes (isModular src : Bool) : List TypeDef → Except PrintErr (List String)
  | [] => .ok []
  | t :: rest =>
    match parseType t isModular src with
    | .error e => .error e
    | .ok s =>
      match parseTypes isModular src rest with
      | .error e => .error e
      | .ok more => .ok (("\n" ++ s) :: more)

def typeModule (t : TypeDef) : String := (t.md.getD {}).module
def typeFile (t : TypeDef) : String := (t.md.getD {}).file

/-- the order in which `TransformJSONProtoToDSL` prints the type definitions -/
def orderedTypes (m : Model) : List TypeDef :=
  if m.types.any (fun t => typeModule t != "") then
    insertionSort (fun a b => sortByModuleLe a.name b.name (typeModule a) (typeModule b) (typeFile a) (typeFile b)) m.types
  else m.types

/-- `TransformJSONProtoToDSL` -/
def transform (m : Model) (src : Bool) : Except PrintErr String :=
  let isModular := m.types.any (fun t => typeModule t != "")
  match parseTypes isModular src (orderedTypes m) with
  | .error e => .error e
  | .ok tds =>
    let typeDefsString := "\n".intercalate tds ++ (if tds.isEmpty then "" else "\n")
    match parseConditions m.conds src with
    | .error e => .error e
    | .ok cs => .ok ("model\n  schema " ++ m.schema ++ "\n" ++ typeDefsString ++ cs)

end FgaVerif.Model.Printer
