import FgaVerif.Model.AtnGraph
/-! An interpreter for ANTLR lexer automata: a port of `LexerATNSimulator` (`Match`, `execATN`,
    `getReachableConfigSet`, `closure`, `getEpsilonTarget`, `failOrAccept`) and of `BaseLexer.NextToken`
    (`Emit`, `EmitEOF`, `Recover`, the lexer actions) of the ANTLR 4 Go runtime, *without* the DFA cache
    (which only memoises the sets of configurations computed here).  It runs the automaton that the
    generated lexer embeds — `Gen/Atn.lean` re-extracts it from /repo on every run and
    `Model/AtnGraph.deserializeLexer` reads it back — so this lexer model is regenerated from the source,
    not written by hand.  The driver (`lexLoop`) is generic in the matcher so that its theorems
    (`Proofs/LexDriver.lean`: the items partition the input, every position is the position of an offset
    of the input) hold whatever the automaton is. -/
namespace FgaVerif.Model.LexSim
open FgaVerif.Model.AtnGraph

structure Trans where
  kind : Nat            -- serialization type of the transition
  target : Nat          -- target state (for a RULE transition: the start state of the called rule)
  follow : Nat          -- RULE: the follow state
  a1 : Nat
  a2 : Nat
  a3 : Nat
  set : List (Nat × Nat)
  deriving Repr, Inhabited

structure StateInfo where
  ty : Nat := 0
  rule : Nat := 0
  nonGreedy : Bool := false
  epsOnly : Bool := false
  trans : Array Trans := #[]
  deriving Repr, Inhabited

structure Sim where
  states : Array StateInfo
  modeStart : Array Nat
  ruleTokenType : Array Nat
  actions : Array (Nat × Nat × Nat)
  /-- a feature of the runtime that this port does not model occurs in the automaton (semantic
      predicates, EOF-labelled transitions, custom actions) -/
  unsupported : Bool
  deriving Repr, Inhabited

def isEpsilonKind (k : Nat) : Bool := k == 1 || k == 3 || k == 4 || k == 6 || k == 10

def mkTrans (a : Atn) (e : Edge) : Trans :=
  if e.ty == 3 then { kind := 3, target := e.a1, follow := e.trg, a1 := e.a1, a2 := e.a2, a3 := e.a3, set := [] }
  else { kind := e.ty, target := e.trg, follow := 0, a1 := e.a1, a2 := e.a2, a3 := e.a3,
         set := if e.ty == 7 || e.ty == 8 then (a.sets[e.a1]?).getD [] else [] }

/-- `ATNState.AddTransition`: the first transition decides `epsilonOnlyTransitions`, a later one of the
    other kind clears it -/
def addTrans (s : StateInfo) (t : Trans) : StateInfo :=
  let eps := isEpsilonKind t.kind
  { s with epsOnly := if s.trans.isEmpty then eps else (if s.epsOnly != eps then false else s.epsOnly),
           trans := s.trans.push t }

def build (l : LexAtn) : Sim :=
  let a := l.base
  let n := a.stateType.length
  let init : Array StateInfo := (List.range n).toArray.map (fun i =>
    { ty := (a.stateType[i]?).getD 0, rule := ((a.stateRule[i]?).getD none).getD 0,
      nonGreedy := l.nonGreedy.contains i })
  let states := a.edges.foldl (fun (st : Array StateInfo) e =>
    if e.src < st.size then st.modify e.src (fun s => addTrans s (mkTrans a e)) else st) init
  let unsupported := a.edges.any (fun e => e.ty == 4 || e.ty == 10 || ((e.ty == 5 || e.ty == 2) && e.a3 != 0)) ||
    l.actions.any (fun (t, _, _) => t == 1 || t == 3)
  { states := states, modeStart := l.modeStart.toArray, ruleTokenType := l.ruleTokenType.toArray,
    actions := l.actions.toArray, unsupported := unsupported }

structure Config where
  state : Nat
  alt : Nat
  ctx : List Nat          -- return states, innermost first
  ng : Bool               -- passedThroughNonGreedyDecision
  acts : List Nat         -- lexerActionExecutor: action indices in order
  deriving Repr, BEq, Inhabited

def inSet (c : Nat) : List (Nat × Nat) → Bool
  | [] => false
  | (a, b) :: rest => (a ≤ c && c ≤ b) || inSet c rest

/-- `Transition.Matches(symbol, 0, 0x10FFFF)` for a character -/
def matchesChar (t : Trans) (c : Nat) : Bool :=
  match t.kind with
  | 5 => t.a3 == 0 && t.a1 == c
  | 2 => t.a3 == 0 && t.a1 ≤ c && c ≤ t.a2
  | 7 => inSet c t.set
  | 8 => c ≤ 0x10FFFF && !inSet c t.set
  | 9 => c ≤ 0x10FFFF
  | _ => false

def stateOf (sim : Sim) (s : Nat) : StateInfo := sim.states.getD s {}

def ngTarget (sim : Sim) (src : Config) (target : Nat) : Bool := src.ng || (stateOf sim target).nonGreedy

def addConfig (cs : Array Config) (c : Config) : Array Config := if cs.contains c then cs else cs.push c

/-- `getEpsilonTarget` (predicates and precedence transitions do not occur: `unsupported`) -/
def epsTarget (sim : Sim) (cfg : Config) (t : Trans) : Option Config :=
  match t.kind with
  | 3 => some { cfg with state := t.target, ctx := t.follow :: cfg.ctx, ng := ngTarget sim cfg t.target }
  | 6 => if cfg.ctx.isEmpty then some { cfg with state := t.target, acts := cfg.acts ++ [t.a2], ng := ngTarget sim cfg t.target }
         else some { cfg with state := t.target, ng := ngTarget sim cfg t.target }
  | 1 => some { cfg with state := t.target, ng := ngTarget sim cfg t.target }
  | _ => none

mutual
  /-- `closure`: returns the extended set and whether an accept state was reached.  Fuel bounds the
      recursion depth; running out of it is reported (`none`). -/
  def closure (sim : Sim) : Nat → Config → Array Config → Bool → Option (Array Config × Bool)
    | 0, _, _, _ => none
    | f+1, cfg, cs, reached =>
      let s := stateOf sim cfg.state
      if s.ty == 7 then
        match cfg.ctx with
        | [] => some (addConfig cs cfg, true)
        | ret :: rest => closure sim f { cfg with state := ret, ctx := rest, ng := ngTarget sim cfg ret } cs reached
      else
        let cs := if !s.epsOnly then (if !reached || !cfg.ng then addConfig cs cfg else cs) else cs
        closureTrans sim f cfg s.trans.toList cs reached
  def closureTrans (sim : Sim) : Nat → Config → List Trans → Array Config → Bool → Option (Array Config × Bool)
    | 0, _, _, _, _ => none
    | _+1, _, [], cs, reached => some (cs, reached)
    | f+1, cfg, t :: ts, cs, reached =>
      match epsTarget sim cfg t with
      | none => closureTrans sim f cfg ts cs reached
      | some c =>
        match closure sim f c cs reached with
        | none => none
        | some (cs', r') => closureTrans sim f cfg ts cs' r'
end

def closureFuel : Nat := 100000

/-- `computeStartState` -/
def startSet (sim : Sim) (mode : Nat) : Option (Array Config) :=
  let p := stateOf sim (sim.modeStart.getD mode 0)
  let rec go : List Trans → Nat → Array Config → Option (Array Config)
    | [], _, cs => some cs
    | t :: ts, i, cs =>
      match closure sim closureFuel { state := t.target, alt := i + 1, ctx := [], ng := false, acts := [] } cs false with
      | none => none
      | some (cs', _) => go ts (i + 1) cs'
  go p.trans.toList 0 #[]

/-- the transitions of one configuration on character `c` (inner loop of `getReachableConfigSet`) -/
def reachTrans (sim : Sim) (cfg : Config) (c : Nat) (reachedAlready : Bool) :
    List Trans → Array Config → Option Nat → Option (Array Config × Option Nat)
  | [], reach, skip => some (reach, skip)
  | t :: ts, reach, skip =>
    if matchesChar t c then
      match closure sim closureFuel { cfg with state := t.target, ng := ngTarget sim cfg t.target } reach reachedAlready with
      | none => none
      | some (reach', r) => reachTrans sim cfg c reachedAlready ts reach' (if r then some cfg.alt else skip)
    else reachTrans sim cfg c reachedAlready ts reach skip

/-- `getReachableConfigSet` -/
def reachSet (sim : Sim) (c : Nat) : List Config → Array Config → Option Nat → Option (Array Config)
  | [], reach, _ => some reach
  | cfg :: rest, reach, skip =>
    let reachedAlready := skip == some cfg.alt
    if reachedAlready && cfg.ng then reachSet sim c rest reach skip
    else
      match reachTrans sim cfg c reachedAlready (stateOf sim cfg.state).trans.toList reach skip with
      | none => none
      | some (reach', skip') => reachSet sim c rest reach' skip'

/-- first configuration in a rule stop state (`DFAState.isAcceptState`, prediction, executor) -/
def firstStop (sim : Sim) (cs : Array Config) : Option Config :=
  cs.toList.find? (fun c => (stateOf sim c.state).ty == 7)

inductive MatchRes where
  /-- a token of `len` characters by rule `rule` with the lexer actions `acts` -/
  | accept (len : Nat) (rule : Nat) (acts : List Nat)
  /-- no rule matched; `consumed` characters were consumed before the automaton got stuck -/
  | fail (consumed : Nat)
  /-- end of input at the token start -/
  | eof
  /-- closure fuel exhausted (an epsilon cycle): the model gives no answer -/
  | stuck
  deriving Repr, BEq, Inhabited

/-- `execATN` + `failOrAccept` -/
def execLoop (sim : Sim) : List Char → Array Config → Nat → Option (Nat × Config) → MatchRes
  | [], _, consumed, prev =>
    match prev with
    | some (len, cfg) => .accept len (stateOf sim cfg.state).rule cfg.acts
    | none => if consumed == 0 then .eof else .fail consumed
  | ch :: rest, cur, consumed, prev =>
    match reachSet sim ch.toNat cur.toList #[] none with
    | none => .stuck
    | some reach =>
      if reach.isEmpty then
        match prev with
        | some (len, cfg) => .accept len (stateOf sim cfg.state).rule cfg.acts
        | none => .fail consumed
      else
        let prev := match firstStop sim reach with
          | some cfg => some (consumed + 1, cfg)
          | none => prev
        execLoop sim rest reach (consumed + 1) prev

/-- `Match(input, mode)` on the remaining input -/
def matchOne (sim : Sim) (starts : Array (Option (Array Config))) (mode : Nat) (input : List Char) : MatchRes :=
  match starts.getD mode none with
  | none => .stuck
  | some s0 =>
    let prev := match firstStop sim s0 with
      | some cfg => some (0, cfg)
      | none => none
    execLoop sim input s0 0 prev

/-! ### the token loop (`BaseLexer.NextToken`), generic in the matcher -/

structure Token where
  ty : Int               -- token type (-1 = EOF)
  text : List Char
  line : Nat             -- 1-based
  col : Nat
  channel : Nat
  deriving Repr, BEq, Inhabited

inductive Item where
  | tok (t : Token)
  /-- `token recognition error at: '<text>'` reported at (line, col); `text` is what was skipped -/
  | err (text : List Char) (line col : Nat)
  /-- the model stops: `popMode` on an empty stack (the runtime panics), an unmodelled action, fuel -/
  | abort (why : String)
  deriving Repr, BEq, Inhabited

/-- `LexerATNSimulator.Consume`: line / column bookkeeping for one character -/
def advance (p : Nat × Nat) (c : Char) : Nat × Nat :=
  if c == '\n' then (p.1 + 1, 0) else (p.1, p.2 + 1)

def advanceL (p : Nat × Nat) (cs : List Char) : Nat × Nat := cs.foldl advance p

structure LexState where
  mode : Nat := 0
  stack : List Nat := []
  deriving Repr, Inhabited

/-- the effect of the accepted rule's lexer actions: new type / channel / mode stack, or an abort -/
structure ActRes where
  ty : Int
  channel : Nat
  st : LexState
  abort : Option String
  deriving Repr, Inhabited

def runActions (actions : Array (Nat × Nat × Nat)) : List Nat → ActRes → ActRes
  | [], r => r
  | i :: rest, r =>
    if r.abort.isSome then r else
    match actions.getD i (99, 0, 0) with
    | (0, ch, _) => runActions actions rest { r with channel := ch }
    | (2, m, _) => runActions actions rest { r with st := { r.st with mode := m } }
    | (4, _, _) =>
      match r.st.stack with
      | [] => { r with abort := some "popMode on an empty mode stack" }
      | m :: more => runActions actions rest { r with st := { mode := m, stack := more } }
    | (5, m, _) => runActions actions rest { r with st := { mode := m, stack := r.st.mode :: r.st.stack } }
    | (6, _, _) => runActions actions rest { r with ty := -3 }
    | (7, t, _) => runActions actions rest { r with ty := t }
    | _ => { r with abort := some "unmodelled lexer action" }

/-- what one call of the matcher leads to, given the remaining input: the item emitted (if any), the
    number of characters consumed, the new lexer state -/
def lexLoop (matcher : Nat → List Char → MatchRes) (ruleTokenType : Array Nat) (actions : Array (Nat × Nat × Nat)) :
    Nat → LexState → Nat × Nat → List Char → List Item
  | 0, _, _, _ => [.abort "fuel"]
  | _+1, _, pos, [] => [.tok { ty := -1, text := [], line := pos.1, col := pos.2, channel := 0 }]
  | f+1, st, pos, c :: cs =>
    let input := c :: cs
    match matcher st.mode input with
    | .stuck => [.abort "closure fuel"]
    | .eof => [.abort "eof inside input"]
    | .fail consumed =>
      let n := consumed + 1
      let skipped := input.take n
      .err skipped pos.1 pos.2 :: lexLoop matcher ruleTokenType actions f st (advanceL pos skipped) (input.drop n)
    | .accept len rule acts =>
      if len == 0 then [.abort "empty match"] else
      let text := input.take len
      let r := runActions actions acts { ty := -100, channel := 0, st := st, abort := none }
      match r.abort with
      | some why => [.abort why]
      | none =>
        let ty : Int := if r.ty == -100 then (ruleTokenType.getD rule 0 : Nat) else r.ty
        -- a skipped token (type -3) is listed too; `visible` drops it
        .tok { ty := ty, text := text, line := pos.1, col := pos.2, channel := r.channel } ::
          lexLoop matcher ruleTokenType actions f r.st (advanceL pos text) (input.drop len)

/-- what the token stream shows: everything but skipped tokens -/
def visible (items : List Item) : List Item :=
  items.filter fun i => match i with | .tok t => t.ty != -3 | _ => true

/-- the characters an item stands for -/
def Item.chars : Item → List Char
  | .tok t => t.text
  | .err text _ _ => text
  | .abort _ => []

def Item.pos : Item → Nat × Nat
  | .tok t => (t.line, t.col)
  | .err _ l c => (l, c)
  | .abort _ => (0, 0)

def Item.isAbort : Item → Bool
  | .abort _ => true
  | _ => false

/-- all items for a text with the automaton `sim` -/
def lexAll (sim : Sim) (text : List Char) : List Item :=
  let starts : Array (Option (Array Config)) := (List.range sim.modeStart.size).toArray.map (startSet sim)
  lexLoop (matchOne sim starts) sim.ruleTokenType sim.actions (text.length + 2) {} (1, 0) text

end FgaVerif.Model.LexSim
