/-! Port of `pkg/go/transformer/mod-to-json.go`: the checks applied to the (already YAML-parsed)
    manifest.  Strings are byte lists because `url.QueryUnescape` produces arbitrary bytes and all
    later tests (`Contains "../"`, `HasPrefix "/"`, `HasSuffix ".fga"`, `ReplaceAll`) are bytewise.
    yaml.v3 is a parameter: the nodes it produced are the input. -/
namespace FgaVerif.Model.ModFile

abbrev Bytes := List UInt8

def b (c : Char) : UInt8 := c.toNat.toUInt8

def ishex (x : UInt8) : Bool :=
  (48 ≤ x && x ≤ 57) || (97 ≤ x && x ≤ 102) || (65 ≤ x && x ≤ 70)

def unhex (x : UInt8) : UInt8 :=
  if 48 ≤ x && x ≤ 57 then x - 48
  else if 97 ≤ x && x ≤ 102 then x - 97 + 10
  else if 65 ≤ x && x ≤ 70 then x - 65 + 10
  else 0

/-- `url.QueryUnescape`: `%XX` ↦ byte, `+` ↦ space, a `%` not followed by two hex digits is an error -/
def queryUnescape : Bytes → Option Bytes
  | [] => some []
  | 37 :: h1 :: h2 :: rest =>                       -- '%'
      if ishex h1 && ishex h2 then (queryUnescape rest).map ((unhex h1 * 16 + unhex h2) :: ·)
      else none
  | 37 :: _ => none
  | 43 :: rest => (queryUnescape rest).map (32 :: ·)  -- '+' ↦ ' '
  | c :: rest => (queryUnescape rest).map (c :: ·)

/-- `strings.ReplaceAll(s, "\\", "/")` -/
def normalize (s : Bytes) : Bytes := s.map (fun c => if c == 92 then 47 else c)

def isPrefixB : Bytes → Bytes → Bool
  | [], _ => true
  | _ :: _, [] => false
  | p :: ps, c :: cs => p == c && isPrefixB ps cs

/-- `strings.Contains(s, pat)` -/
def containsB (pat : Bytes) : Bytes → Bool
  | [] => pat.isEmpty
  | c :: cs => isPrefixB pat (c :: cs) || containsB pat cs

def hasSuffixB (suf s : Bytes) : Bool := isPrefixB suf.reverse s.reverse

def dotDotSlash : Bytes := [46, 46, 47]
def dotFga : Bytes := [46, 102, 103, 97]

inductive EntryResult where
  | ok (value : Bytes)
  | decodeErr          -- "failed to decode path: "
  | invalid            -- "invalid contents item "
  | badExt             -- "contents items should use fga file extension, got "
  deriving Repr, DecidableEq, Inhabited

/-- the per-entry checks of the contents loop (for a `!!str` item) -/
def checkEntry (raw : Bytes) : EntryResult :=
  match queryUnescape raw with
  | none => .decodeErr
  | some decoded =>
    let n := normalize decoded
    if containsB dotDotSlash n || isPrefixB [47] n then .invalid
    else if !hasSuffixB dotFga n then .badExt
    else .ok n

/-! ### the whole manifest over yaml nodes -/
structure Node where
  zero : Bool            -- yaml.Node.IsZero()
  tag : String
  value : String
  line : Nat             -- one-based, as yaml.v3 reports
  col : Nat
  content : List Node
  deriving Repr, Inhabited

structure MProp where
  value : Bytes
  line : Int
  col : Int
  deriving Repr, DecidableEq, Inhabited

structure VErr where
  msg : String            -- message without the echoed value
  echo : String           -- the value echoed in the message
  line : Int
  col : Int
  deriving Repr, DecidableEq, Inhabited

structure ModFileOut where
  schema : MProp
  contents : List MProp
  contentsLine : Int
  contentsCol : Int
  deriving Repr, Inhabited

def bytesOf (s : String) : Bytes := s.toUTF8.toList

def checkSchema (n : Node) : Except VErr MProp :=
  if n.zero then .error ⟨"missing schema field", "", 0, 0⟩
  else if n.tag != "!!str" then .error ⟨"unexpected schema type, expected string got value ", n.value, n.line - 1, n.col - 1⟩
  else if n.value != "1.2" then .error ⟨"unsupported schema version, fga.mod only supported in version `1.2`", "", n.line - 1, n.col - 1⟩
  else .ok ⟨bytesOf n.value, n.line - 1, n.col - 1⟩

def checkItems : List Node → List MProp × List VErr
  | [] => ([], [])
  | f :: rest =>
    let (ps, es) := checkItems rest
    if f.tag != "!!str" then (ps, ⟨"unexpected contents item type, expected string got value ", f.value, f.line - 1, f.col - 1⟩ :: es)
    else
      match checkEntry (bytesOf f.value) with
      | .decodeErr => (ps, ⟨"failed to decode path: ", f.value, f.line - 1, f.col - 1⟩ :: es)
      | .invalid => (ps, ⟨"invalid contents item ", f.value, f.line - 1, f.col - 1⟩ :: es)
      | .badExt => (ps, ⟨"contents items should use fga file extension, got ", f.value, f.line - 1, f.col - 1⟩ :: es)
      | .ok v => (⟨v, f.line - 1, f.col - 1⟩ :: ps, es)

/-- `TransformModFile` after `yaml.Unmarshal` -/
def transform (schema contents : Node) : Except (List VErr) ModFileOut :=
  let (sProp, sErrs) : MProp × List VErr := match checkSchema schema with
    | .ok p => (p, [])
    | .error e => (default, [e])
  let (cs, cErrs, cl, cc) : List MProp × List VErr × Int × Int :=
    if contents.zero then ([], [⟨"missing contents field", "", 0, 0⟩], 0, 0)
    else if contents.tag != "!!seq" then
      ([], [⟨"unexpected contents type, expected list of strings got value ", contents.value, contents.line - 1, contents.col - 1⟩], 0, 0)
    else
      let (ps, es) := checkItems contents.content
      (ps, es, contents.line - 1, contents.col - 1)
  let errs := sErrs ++ cErrs
  if errs.isEmpty then .ok ⟨sProp, cs, cl, cc⟩ else .error errs

end FgaVerif.Model.ModFile
