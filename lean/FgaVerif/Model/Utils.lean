import FgaVerif.Model.Ast
/-! Port of `pkg/go/utils/model_utils.go` and measures on rewrite trees used by the specifications. -/
namespace FgaVerif.Model

mutual
  /-- `utils.IsRelationAssignable` -/
  def isAssignable : Userset → Bool
    | .this => true
    | .union cs => anyAssignable cs
    | .inter cs => anyAssignable cs
    | .diff b s => isAssignable b || isAssignable s
    | _ => false
  def anyAssignable : List Userset → Bool
    | [] => false
    | c :: cs => isAssignable c || anyAssignable cs
end

mutual
  /-- number of direct assignments in a rewrite -/
  def countThis : Userset → Nat
    | .this => 1
    | .union cs => countThisL cs
    | .inter cs => countThisL cs
    | .diff b s => countThis b + countThis s
    | _ => 0
  def countThisL : List Userset → Nat
    | [] => 0
    | c :: cs => countThis c + countThisL cs
end

mutual
  /-- no unset (`nil`) userset and no operator without operands anywhere: what the printer can print at all -/
  def noNil : Userset → Bool
    | .nil => false
    | .union cs => !cs.isEmpty && noNilL cs
    | .inter cs => !cs.isEmpty && noNilL cs
    | .diff b s => noNil b && noNil s
    | _ => true
  def noNilL : List Userset → Bool
    | [] => true
    | c :: cs => noNil c && noNilL cs
end

/-- `utils.GetModuleForObjectTypeRelation`: `none` = "relation does not exist" error -/
def moduleForRelation (td : TypeDef) (rel : String) : Option String :=
  if !AList.contains rel td.relations then none
  else
    let tm : TypeMeta := td.md.getD {}
    match AList.find? rel tm.relations with
    | none => some tm.module
    | some rm => some (if rm.module == "" then tm.module else rm.module)

end FgaVerif.Model
