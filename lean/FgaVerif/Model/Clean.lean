/-! Port of the comment / blank-line pre-pass at the top of `ParseDSL`
    (`pkg/go/transformer/dsltojson.go`), on `List Char`. -/
namespace FgaVerif.Model.Clean

/-- `strings.Split(s, "\n")`: always at least one line -/
def splitLines : List Char → List (List Char)
  | [] => [[]]
  | c :: cs =>
    match splitLines cs with
    | [] => [[c]]                       -- unreachable
    | l :: ls => if c == '\n' then [] :: l :: ls else (c :: l) :: ls

def trimLeftSp : List Char → List Char
  | ' ' :: cs => trimLeftSp cs
  | cs => cs

/-- drop trailing characters equal to `x` (`strings.TrimRight(s, x)`) -/
def trimRight (x : Char) : List Char → List Char
  | [] => []
  | c :: cs =>
    match trimRight x cs with
    | [] => if c == x then [] else [c]
    | r => c :: r

/-- `strings.Split(line, " #")[0]`: the part before the first " #" -/
def beforeSpaceHash : List Char → List Char
  | ' ' :: '#' :: _ => []
  | c :: cs => c :: beforeSpaceHash cs
  | [] => []

def cleanLine (line : List Char) : List Char :=
  match trimLeftSp line with
  | [] => []
  | '#' :: _ => []
  | _ => trimRight ' ' (beforeSpaceHash line)

def joinLines : List (List Char) → List Char
  | [] => []
  | [l] => l
  | l :: ls => l ++ '\n' :: joinLines ls

/-- the text handed to the lexer -/
def clean (data : List Char) : List Char :=
  trimRight '\n' (joinLines ((splitLines data).map cleanLine))

end FgaVerif.Model.Clean
