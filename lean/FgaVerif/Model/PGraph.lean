import FgaVerif.Model.Ast
import FgaVerif.Engine.Sort
/-! Port of the plain authorization-model graph (`pkg/go/graph/graph_builder.go`, `graph.go`).
    gonum's multigraph is modelled by its observable content: nodes with ids in creation order
    and lines with ids in creation order.  Edge conditions are not modelled (no API exposes them
    on the plain graph).  Operator nodes get the unique label `<operator>:<n>` with n their
    creation ordinal instead of a ULID. -/
namespace FgaVerif.Model.PGraph
open FgaVerif.Model

inductive NodeType where | specificType | typeAndRelation | operator | wildcard
  deriving Repr, DecidableEq, Inhabited, BEq
inductive EdgeType where | direct | rewrite | ttu | computed
  deriving Repr, DecidableEq, Inhabited, BEq

structure PNode where
  id : Nat
  label : String
  ntype : NodeType
  uniqueLabel : String
  deriving Repr, DecidableEq, Inhabited, BEq

structure PLine where
  src : Nat
  dst : Nat
  id : Nat
  etype : EdgeType
  tupleset : String
  deriving Repr, DecidableEq, Inhabited, BEq

structure G where
  nodes : List PNode := []         -- in id order
  lines : List PLine := []         -- in creation order; ids count per (src, dst) pair
  listObjects : Bool := true       -- drawingDirection
  opCount : Nat := 0
  deriving Repr, Inhabited, BEq

def G.find? (g : G) (uniqueLabel : String) : Option PNode := g.nodes.find? (·.uniqueLabel == uniqueLabel)

def getOrAddNode (g : G) (uniqueLabel label : String) (t : NodeType) : G × PNode :=
  match g.find? uniqueLabel with
  | some n => (g, n)
  | none =>
    let n : PNode := ⟨g.nodes.length, label, t, uniqueLabel⟩
    ({ g with nodes := g.nodes ++ [n] }, n)

/-- gonum's multigraph numbers the lines of each (from, to) pair separately, from 0 -/
def nextLineId (g : G) (src dst : Nat) : Nat := (g.lines.filter (fun l => l.src == src && l.dst == dst)).length

def addEdge (g : G) (src dst : PNode) (t : EdgeType) (ts : String) : G :=
  { g with lines := g.lines ++ [⟨src.id, dst.id, nextLineId g src.id dst.id, t, ts⟩] }

def hasEdge (g : G) (src dst : PNode) (t : EdgeType) (ts : String) : Bool :=
  g.lines.any (fun l => l.src == src.id && l.dst == dst.id && l.etype == t && l.tupleset == ts)

/-- `upsertEdge` (conditions not modelled): add unless an equal line exists -/
def upsertEdge (g : G) (src dst : PNode) (t : EdgeType) (ts : String) : G :=
  if hasEdge g src dst t ts then g else addEdge g src dst t ts

def relMeta (td : TypeDef) (rel : String) : Option RelMeta :=
  match td.md with
  | none => none
  | some m => AList.find? rel m.relations

def typeAndRelationExists (m : Model) (typeName rel : String) : Bool :=
  m.types.any (fun t => t.name == typeName && AList.contains rel t.relations)

/-- `parseThis`: `cur` is Go's `curNode` variable, which survives between iterations -/
def parseThisRefs (parent : PNode) : List RelRef → Option PNode → G → G
  | [], _, g => g
  | r :: rest, cur, g =>
    let (g, cur) :=
      if !r.wildcard && r.rel == "" then
        let (g, n) := getOrAddNode g r.type r.type .specificType
        (g, some n)
      else (g, cur)
    let (g, cur) :=
      if r.wildcard then
        let (g, n) := getOrAddNode g (r.type ++ ":*") (r.type ++ ":*") .wildcard
        (g, some n)
      else (g, cur)
    let (g, cur) :=
      if r.rel != "" then
        let (g, n) := getOrAddNode g (r.type ++ "#" ++ r.rel) (r.type ++ "#" ++ r.rel) .typeAndRelation
        (g, some n)
      else (g, cur)
    let g := match cur with
      | some c => upsertEdge g c parent .direct ""
      | none => g
    parseThisRefs parent rest cur g

def parseTTURefs (m : Model) (td : TypeDef) (parent : PNode) (tupleset computed : String) : List RelRef → G → G
  | [], g => g
  | r :: rest, g =>
    if !typeAndRelationExists m r.type computed then parseTTURefs m td parent tupleset computed rest g
    else
      let name := r.type ++ "#" ++ computed
      let (g, src) := getOrAddNode g name name .typeAndRelation
      let ttr := td.name ++ "#" ++ tupleset
      let g := if hasEdge g src parent .ttu ttr then g else upsertEdge g src parent .ttu ttr
      parseTTURefs m td parent tupleset computed rest g

def opLabel : Userset → String
  | .union _ => "union"
  | .inter _ => "intersection"
  | .diff _ _ => "exclusion"
  | _ => ""

/-- the operator node and its edge to the parent -/
def mkOp (g : G) (parent : PNode) (op : String) : G × PNode :=
  let ul := op ++ ":" ++ toString g.opCount
  let g := { g with opCount := g.opCount + 1 }
  let (g, n) := getOrAddNode g ul op .operator
  (addEdge g n parent .rewrite "", n)

mutual
  /-- `checkRewrite` -/
  def checkRewrite (m : Model) (td : TypeDef) (rel : String) (parent : PNode) : Userset → G → G
    | .this, g =>
        match relMeta td rel with
        | some rm => parseThisRefs parent rm.restr none g
        | none => g
    | .computed r, g =>
        let name := td.name ++ "#" ++ r
        let (g, n) := getOrAddNode g name name .typeAndRelation
        let et := if parent.ntype == .typeAndRelation && n.ntype == .typeAndRelation then EdgeType.computed else .rewrite
        addEdge g n parent et ""
    | .ttu ts cu, g =>
        let refs := match relMeta td ts with | some rm => rm.restr | none => []
        parseTTURefs m td parent ts cu refs g
    | .union cs, g =>
        let (g, n) := mkOp g parent "union"
        checkChildren m td rel n cs g
    | .inter cs, g =>
        let (g, n) := mkOp g parent "intersection"
        checkChildren m td rel n cs g
    | .diff b s, g =>
        let (g, n) := mkOp g parent "exclusion"
        checkRewrite m td rel n s (checkRewrite m td rel n b g)
    | .nil, g => (mkOp g parent "").1
  def checkChildren (m : Model) (td : TypeDef) (rel : String) (parent : PNode) : List Userset → G → G
    | [], g => g
    | c :: cs, g => checkChildren m td rel parent cs (checkRewrite m td rel parent c g)
end

def buildRelations (m : Model) (td : TypeDef) : List (String × Userset) → G → G
  | [], g => g
  | (rel, u) :: rest, g =>
    let ul := td.name ++ "#" ++ rel
    let (g, parent) := getOrAddNode g ul ul .typeAndRelation
    buildRelations m td rest (checkRewrite m td rel parent u g)

def buildTypes (m : Model) : List TypeDef → G → G
  | [], g => g
  | td :: rest, g =>
    let (g, _) := getOrAddNode g td.name td.name .specificType
    buildTypes m rest (buildRelations m td td.relations g)    -- `relations` is key-sorted

/-- `NewAuthorizationModelGraph` (type definitions sorted by name first) -/
def build (m : Model) : G :=
  buildTypes m (insertionSort (fun a b => a.name ≤ b.name) m.types) {}

/-- `Reversed` (after the fix: lines re-added in id order) -/
def reversed (g : G) : G :=
  { g with lines := g.lines.map (fun l => { l with src := l.dst, dst := l.src }), listObjects := !g.listObjects }

/-- the order in which `dot.MarshalMulti` writes the lines -/
def dotLineLe (a b : PLine) : Bool :=
  a.src < b.src || (a.src == b.src && (a.dst < b.dst || (a.dst == b.dst && a.id ≤ b.id)))

def dotLines (g : G) : List PLine := insertionSort dotLineLe g.lines

/-- successors -/
def succs (g : G) (n : Nat) : List Nat := (g.lines.filter (·.src == n)).map (·.dst)

/-- reachability with fuel (`topo.PathExistsIn`): `frontier` expands breadth first -/
def reach (g : G) : Nat → List Nat → List Nat → List Nat
  | 0, seen, _ => seen
  | _, seen, [] => seen
  | fuel+1, seen, n :: rest =>
    let new := (succs g n).filter (fun x => !seen.contains x && !rest.contains x)
    let new := new.eraseDups
    reach g fuel (seen ++ new) (rest ++ new)

def pathExistsIds (g : G) (a b : Nat) : Bool :=
  a == b || (reach g (g.nodes.length + 1) [a] [a]).contains b

/-- `PathExists` on labels: `none` = ErrQueryingGraph (a label is unknown) -/
def pathExists (g : G) (a b : String) : Option Bool :=
  match g.find? a, g.find? b with
  | some x, some y => some (pathExistsIds g x.id y.id)
  | _, _ => none

/-! ### cycle flags (`GetCycles`) -/

/-- distinct successors, as `g.From(id)` -/
def succSet (g : G) (n : Nat) : List Nat := (succs g n).eraseDups

mutual
  /-- simple cycles through `s` that use only nodes > s otherwise; `path` is the current path
      from `s` (reversed) ending in the current node.  Each cycle is returned as the node list with
      `s` at both ends, like `topo.DirectedCyclesIn`. -/
  def cyclesFrom (g : G) (s : Nat) : Nat → List Nat → Nat → List (List Nat)
    | 0, _, _ => []
    | fuel+1, path, cur => cyclesVia g s fuel path (succSet g cur)
  def cyclesVia (g : G) (s : Nat) (fuel : Nat) (path : List Nat) : List Nat → List (List Nat)
    | [] => []
    | w :: ws =>
      let here :=
        if w == s then [(s :: path).reverse]
        else if s < w && !path.contains w then cyclesFrom g s fuel (w :: path) w
        else []
      here ++ cyclesVia g s fuel path ws
end

def allCycles (g : G) : List (List Nat) :=
  (List.range g.nodes.length).flatMap (fun s => cyclesFrom g s (g.nodes.length + 1) [s] s)

def hasNonComputedBetween (g : G) (a b : Nat) : Bool :=
  g.lines.any (fun l => l.src == a && l.dst == b && l.etype != .computed)

/-- `nodeListHasNonComputedEdge`: lines from an earlier to a later element of the list -/
def nodeListHasNonComputedEdge (g : G) : List Nat → Bool
  | [] => false
  | a :: rest => rest.any (hasNonComputedBetween g a) || nodeListHasNonComputedEdge g rest

def hasSelfLoop (g : G) : Bool := g.lines.any (fun l => l.src == l.dst)

/-- (hasCyclesAtCompileTime, canHaveCyclesAtRuntime); self loops are outside the model
    (gonum reports them only for the least vertex of a larger strongly connected component) -/
def cycleFlags (g : G) : Option (Bool × Bool) :=
  if hasSelfLoop g then none
  else
    let cs := (allCycles g).filter (fun c => c.length > 2)
    some (cs.any (fun c => !nodeListHasNonComputedEdge g c), cs.any (nodeListHasNonComputedEdge g))

end FgaVerif.Model.PGraph
