import FgaVerif.Model.Cst
import FgaVerif.Proofs.Listener
/-! Reads a generic parse tree back into the typed concrete syntax of `Model/Cst.lean`.  Nothing is
    proved about this reader and nothing needs to be: the driver re-embeds its answer and compares
    (`isEmbedding`), so a `true` means that the real subtree, positions erased, *is* `Decl.tree d` for
    the `d` found — which is the hypothesis under which `Props/C03.listener_denotes` speaks about it. -/
namespace FgaVerif.Model.Cst
open FgaVerif.Model FgaVerif.Model.Listener

mutual
  def erasePos : Tree → Tree
    | .tok ty text _ _ err => .tok ty text 0 0 err
    | .rule name _ _ ls cs => .rule name 0 0 ls (erasePosL cs)
  def erasePosL : List Tree → List Tree
    | [] => []
    | c :: cs => erasePos c :: erasePosL cs
end

def takeWs : List Tree → List String × List Tree
  | .tok "WHITESPACE" s _ _ false :: rest => let (ws, r) := takeWs rest; (s :: ws, r)
  | ts => ([], ts)

def optWsP : List Tree → Option String × List Tree
  | .tok "WHITESPACE" s _ _ false :: rest => (some s, rest)
  | ts => (none, ts)

def optNlP : List Tree → Option String × List Tree
  | .tok "NEWLINE" s _ _ false :: rest => (some s, rest)
  | ts => (none, ts)

def pIdent : Tree → Option Ident
  | .rule "extended_identifier" _ _ [] [.rule "identifier" _ _ [] [.tok ty text _ _ false]] => some ⟨true, ty, text⟩
  | .rule "extended_identifier" _ _ [] [.tok ty text _ _ false] => some ⟨false, ty, text⟩
  | _ => none

def pRestr : Tree → Option Restr
  | .rule "relationDefTypeRestriction" _ _ _ cs =>
    let (pre, cs) := optNlP cs
    match cs with
    | .rule "relationDefTypeRestrictionBase" _ _ _ bcs :: rest =>
      let base : Option (Ident × RestrKind) :=
        match bcs with
        | [t] => (pIdent t).map (fun i => (i, RestrKind.plain))
        | [t, .tok "COLON" _ _ _ false, .tok "STAR" _ _ _ false] => (pIdent t).map (fun i => (i, RestrKind.wildcard))
        | [t, .tok "HASH" _ _ _ false, r] => match pIdent t, pIdent r with
          | some i, some j => some (i, RestrKind.userset j)
          | _, _ => none
        | _ => none
      match base with
      | none => none
      | some (ty, kind) =>
        match rest with
        | .tok "WHITESPACE" w1 _ _ false :: .tok "KEYWORD_WITH" _ _ _ false :: .tok "WHITESPACE" w2 _ _ false ::
            .rule "conditionName" _ _ _ [.tok "IDENTIFIER" c _ _ false] :: rest2 =>
          let (post, rest3) := optNlP rest2
          if rest3.isEmpty then some ⟨pre, ty, kind, some (w1, w2, c), post⟩ else none
        | rest2 =>
          let (post, rest3) := optNlP rest2
          if rest3.isEmpty then some ⟨pre, ty, kind, none, post⟩ else none
    | _ => none
  | _ => none

/-- `(COMMA WS? restriction WS?)*` followed by `]` -/
def pDirectRest : Nat → List Tree → Option (List (Option String × Restr × Option String))
  | 0, _ => none
  | _+1, [.tok "RPRACKET" _ _ _ false] => some []
  | f+1, .tok "COMMA" _ _ _ false :: rest =>
    let (a, rest) := optWsP rest
    match rest with
    | r :: rest =>
      match pRestr r with
      | none => none
      | some rr =>
        let (b, rest) := optWsP rest
        (pDirectRest f rest).map (fun more => (a, rr, b) :: more)
    | [] => none
  | _+1, _ => none

def pDirect : Tree → Option Direct
  | .rule "relationDefDirectAssignment" _ _ _ (.tok "LBRACKET" _ _ _ false :: cs) =>
    let (w0, cs) := optWsP cs
    match cs with
    | r :: cs =>
      match pRestr r with
      | none => none
      | some first =>
        let (w1, cs) := optWsP cs
        (pDirectRest (cs.length + 1) cs).map (fun rest => ⟨w0, first, w1, rest⟩)
    | [] => none
  | _ => none

def pRw : Tree → Option Rw
  | .rule "relationDefRewrite" _ _ _ [c] => (pIdent c).map (fun i => ⟨i, none⟩)
  | .rule "relationDefRewrite" _ _ _ [c, .tok "WHITESPACE" w1 _ _ false, .tok "FROM" _ _ _ false, .tok "WHITESPACE" w2 _ _ false, t] =>
    match pIdent c, pIdent t with
    | some i, some j => some ⟨i, some (w1, w2, j)⟩
    | _, _ => none
  | _ => none

def pGrouping : Tree → Option Rw
  | .rule "relationDefGrouping" _ _ _ [r] => pRw r
  | _ => none

def opOfTok : Tree → Option Op
  | .tok "OR" _ _ _ false => some .or
  | .tok "AND" _ _ _ false => some .and
  | .tok "BUT_NOT" _ _ _ false => some .butNot
  | _ => none

/-- split `( WS* x WS* )` -/
def pParen (cs : List Tree) : Option (List String × Tree × List String) :=
  match cs with
  | .tok "LPAREN" _ _ _ false :: rest =>
    let (l, rest) := takeWs rest
    match rest with
    | x :: rest =>
      let (r, rest) := takeWs rest
      match rest with
      | [.tok "RPAREN" _ _ _ false] => some (l, x, r)
      | _ => none
    | [] => none
  | _ => none

mutual
  def pDefND : Nat → Tree → Option DefND
    | 0, _ => none
    | f+1, .rule "relationDefNoDirect" _ _ _ [a] => (pItemND f a).map (fun i => .mk i none)
    | f+1, .rule "relationDefNoDirect" _ _ _ [a, p] =>
      match pItemND f a, pPartials f p with
      | some i, some ps => some (.mk i (some ps))
      | _, _ => none
    | _+1, _ => none
  def pItemND : Nat → Tree → Option ItemND
    | 0, _ => none
    | f+1, t =>
      match pGrouping t with
      | some r => some (.rw r)
      | none => (pRecND f t).map .paren
  def pRecND : Nat → Tree → Option RecND
    | 0, _ => none
    | f+1, .rule "relationRecurseNoDirect" _ _ _ cs =>
      match pParen cs with
      | none => none
      | some (l, x, r) =>
        match pDefND f x with
        | some d => some (.ofDef l r d)
        | none => (pRecND f x).map (fun y => .ofRec l r y)
    | _+1, _ => none
  def pPartials : Nat → Tree → Option Partials
    | 0, _ => none
    | f+1, .rule "relationDefPartials" _ _ _ cs =>
      match cs with
      | _ :: o :: _ =>
        match opOfTok o with
        | none => none
        | some op => (pItems f op cs).map (fun items => .mk op items)
      | _ => none
    | _+1, _ => none
  def pItems : Nat → Op → List Tree → Option Items
    | 0, _, _ => none
    | f+1, op, [.tok "WHITESPACE" w1 _ _ false, o, .tok "WHITESPACE" w2 _ _ false, i] =>
      if opOfTok o == some op then (pItemND f i).map (fun x => .one w1 w2 x) else none
    | f+1, op, .tok "WHITESPACE" w1 _ _ false :: o :: .tok "WHITESPACE" w2 _ _ false :: i :: rest =>
      if opOfTok o == some op then
        match pItemND f i, pItems f op rest with
        | some x, some more => some (.cons w1 w2 x more)
        | _, _ => none
      else none
    | _+1, _, _ => none
end

mutual
  def pDef : Nat → Tree → Option Def
    | 0, _ => none
    | f+1, .rule "relationDef" _ _ _ [a] => (pFirst f a).map (fun i => .mk i none)
    | f+1, .rule "relationDef" _ _ _ [a, p] =>
      match pFirst f a, pPartials f p with
      | some i, some ps => some (.mk i (some ps))
      | _, _ => none
    | _+1, _ => none
  def pFirst : Nat → Tree → Option First
    | 0, _ => none
    | f+1, t =>
      match pDirect t with
      | some d => some (.direct d)
      | none =>
        match pGrouping t with
        | some r => some (.rw r)
        | none => (pRec f t).map .recurse
  def pRec : Nat → Tree → Option Rec
    | 0, _ => none
    | f+1, .rule "relationRecurse" _ _ _ cs =>
      match pParen cs with
      | none => none
      | some (l, x, r) =>
        match pDef f x with
        | some d => some (.ofDef l r d)
        | none => (pRecND f x).map (fun y => .ofRecND l r y)
    | _+1, _ => none
end

def pDecl : Tree → Option Decl
  | .rule "relationDeclaration" _ _ _
      (.tok "NEWLINE" nl0 _ _ false :: .tok "DEFINE" _ _ _ false :: .tok "WHITESPACE" w1 _ _ false ::
        .rule "relationName" _ _ _ [n] :: rest) =>
    match pIdent n with
    | none => none
    | some name =>
      let (w2, rest) := optWsP rest
      match rest with
      | .tok "COLON" _ _ _ false :: rest =>
        let (w3, rest) := optWsP rest
        match rest with
        | [body] => (pDef 4000 body).map (fun b => ⟨nl0, w1, name, w2, w3, b⟩)
        | _ => none
      | _ => none
  | _ => none

mutual
  /-- structural equality test on trees (with a proof of soundness below, which the derived `==` lacks) -/
  def eqb : Tree → Tree → Bool
    | .tok a b c d e, .tok a' b' c' d' e' => a == a' && b == b' && c == c' && d == d' && e == e'
    | .rule n a b ls cs, .rule n' a' b' ls' cs' => n == n' && a == a' && b == b' && ls == ls' && eqbL cs cs'
    | _, _ => false
  def eqbL : List Tree → List Tree → Bool
    | [], [] => true
    | c :: cs, c' :: cs' => eqb c c' && eqbL cs cs'
    | _, _ => false
end

mutual
  theorem eq_of_eqb : (a b : Tree) → eqb a b = true → a = b
    | .tok a b c d e, .tok a' b' c' d' e', h => by
      simp only [eqb, Bool.and_eq_true, beq_iff_eq] at h
      obtain ⟨⟨⟨⟨h1, h2⟩, h3⟩, h4⟩, h5⟩ := h
      subst h1 h2 h3 h4 h5; rfl
    | .rule n a b ls cs, .rule n' a' b' ls' cs', h => by
      simp only [eqb, Bool.and_eq_true, beq_iff_eq] at h
      obtain ⟨⟨⟨⟨h1, h2⟩, h3⟩, h4⟩, h5⟩ := h
      subst h1 h2 h3 h4
      rw [eqL_of_eqbL cs cs' h5]
    | .tok _ _ _ _ _, .rule _ _ _ _ _, h => by simp [eqb] at h
    | .rule _ _ _ _ _, .tok _ _ _ _ _, h => by simp [eqb] at h
  theorem eqL_of_eqbL : (as bs : List Tree) → eqbL as bs = true → as = bs
    | [], [], _ => rfl
    | c :: cs, c' :: cs', h => by
      simp only [eqbL, Bool.and_eq_true] at h
      rw [eq_of_eqb c c' h.1, eqL_of_eqbL cs cs' h.2]
    | [], _ :: _, h => by simp [eqbL] at h
    | _ :: _, [], h => by simp [eqbL] at h
end

/-- the CST (well-formed: `but not` has exactly one right operand) whose embedding the real subtree,
    positions erased, literally is -/
def embeddingOf (t : Tree) : Option Decl :=
  let e := erasePos t
  match pDecl e with
  | some d => if d.body.wf && eqb d.tree e then some d else none
  | none => none

def isEmbedding (t : Tree) : Bool := (embeddingOf t).isSome

theorem embeddingOf_sound (t : Tree) (d : Decl) (h : embeddingOf t = some d) :
    d.body.wf = true ∧ Decl.tree d = erasePos t := by
  unfold embeddingOf at h
  simp only at h
  split at h
  · rename_i d' _
    split at h
    · rename_i hc
      simp only [Option.some.injEq] at h
      subst h
      simp only [Bool.and_eq_true] at hc
      exact ⟨hc.1, eq_of_eqb _ _ hc.2⟩
    · cases h
  · cases h

mutual
  /-- (declarations that are embeddings, all relation declarations) below `t` -/
  def countEmbeddings : Tree → Nat × Nat
    | .tok _ _ _ _ _ => (0, 0)
    | .rule name sl sc ls cs =>
      if name == "relationDeclaration" then
        (if isEmbedding (.rule name sl sc ls cs) then 1 else 0, 1)
      else countEmbeddingsL cs
  def countEmbeddingsL : List Tree → Nat × Nat
    | [] => (0, 0)
    | c :: cs => let (a, b) := countEmbeddings c; let (x, y) := countEmbeddingsL cs; (a + x, b + y)
end

end FgaVerif.Model.Cst
