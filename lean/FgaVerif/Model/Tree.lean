/-! Generic parse trees as ANTLR builds them (rule contexts, terminals, error nodes), with the
    labelled-element fields of the generated contexts as a map label ↦ child index. -/
namespace FgaVerif.Model

inductive Tree where
  /-- rule context: rule name, (line, column) of its start token (line is 1-based as in ANTLR),
      label fields that are set (label ↦ index into `children`), children -/
  | rule (name : String) (sline scol : Nat) (labels : List (String × Nat)) (children : List Tree)
  /-- terminal (`err = true`: ErrorNode); token type by symbolic name -/
  | tok (ty : String) (text : String) (line col : Nat) (err : Bool)
  deriving Repr, Inhabited, BEq

namespace Tree

mutual
  /-- `GetText()`: concatenation of all terminal texts (error nodes included) -/
  def text : Tree → String
    | .rule _ _ _ _ cs => textL cs
    | .tok _ t _ _ _ => t
  def textL : List Tree → String
    | [] => ""
    | c :: cs => text c ++ textL cs
end

def isRule (n : String) : Tree → Bool
  | .rule m _ _ _ _ => m == n
  | _ => false

def isTok (ty : String) : Tree → Bool
  | .tok t _ _ _ _ => t == ty
  | _ => false

def children : Tree → List Tree
  | .rule _ _ _ _ cs => cs
  | _ => []

def labels : Tree → List (String × Nat)
  | .rule _ _ _ ls _ => ls
  | _ => []

/-- `GetTypedRuleContext(T, 0)`: first child that is a context of rule `n` -/
def childRule? (t : Tree) (n : String) : Option Tree := t.children.find? (isRule n)

/-- `GetToken(ty, 0)`: first direct terminal child (error nodes count) of token type `ty` -/
def childTok? (t : Tree) (ty : String) : Option Tree := t.children.find? (isTok ty)

/-- `GetTokens(ty)` -/
def childToks (t : Tree) (ty : String) : List Tree := t.children.filter (isTok ty)

def findLabel (l : String) : List (String × Nat) → Option Nat
  | [] => none
  | (k, i) :: rest => if k == l then some i else findLabel l rest

/-- a label field (`GetTypeName()` …): the child it points to, or `none` for a nil field -/
def label? (t : Tree) (l : String) : Option Tree :=
  match findLabel l t.labels with
  | none => none
  | some i => t.children[i]?

/-- `GetStart()` position as the error listener records it: (line - 1, column) -/
def startPos : Tree → Nat × Nat
  | .rule _ l c _ _ => (l - 1, c)
  | .tok _ _ l c _ => (l - 1, c)

end Tree
end FgaVerif.Model
