namespace FgaVerif.Model
/-- syntactic shape of a Go `Validate*` function body, as extracted by tools/gen_rules.py -/
inductive VExpr where
  | re (fmt : String) (args : List String)   -- regexp.MatchString(fmt.Sprintf(fmt, args...), s)
  | and (a b : VExpr)
  | or (a b : VExpr)
  | call (name : String)                     -- another Validate* applied to the same string
  | bad (what : String)                      -- not recognised by the extractor
  deriving Repr, DecidableEq, Inhabited
end FgaVerif.Model
