import FgaVerif.Sexp
import FgaVerif.Model.Validators
import FgaVerif.Gen.Rules
/-! Line-protocol driver: one S-expression operation per input line, one canonical result per
    output line. Runs the executable model definitions only (no proofs are imported). -/
namespace FgaVerif.Driver
open FgaVerif FgaVerif.Model

def boolS (b : Bool) : String := if b then "true" else "false"

/-- the compiled validators (from the regenerated rules); `none` if a rule is outside the fragment -/
def validators : Option (List (String × CExpr)) :=
  compileAll Gen.Rules.goRules Gen.Rules.goValidators

def opValidate (name s : String) : String :=
  match validators with
  | none => "unmodelled"
  | some vs =>
    match lookup name vs with
    | none => "unmodelled"
    | some c => boolS (c.eval s.toList)

def step (line : String) : String :=
  match Sexp.parse line with
  | none => "bad-op"
  | some (.list [.atom "validate", .atom name, .str s]) => opValidate name s
  | some _ => "bad-op"

partial def loop (h : IO.FS.Stream) (out : IO.FS.Stream) : IO Unit := do
  let line ← h.getLine
  if line.isEmpty then return ()
  out.putStrLn (step (line.dropRightWhile (· == '\n')))
  loop h out

def main : IO Unit := do
  let stdin ← IO.getStdin
  let stdout ← IO.getStdout
  loop stdin stdout
  stdout.flush

end FgaVerif.Driver
