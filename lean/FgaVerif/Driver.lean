import FgaVerif.Sexp
import FgaVerif.Model.Validators
import FgaVerif.Gen.Rules
import FgaVerif.Engine.Sort
import FgaVerif.Codec
import FgaVerif.Model.Printer
import FgaVerif.Model.Clean
import FgaVerif.Model.Listener
import FgaVerif.Model.Scoped
import FgaVerif.Model.CstParse
import FgaVerif.Model.ModFile
import FgaVerif.Model.PGraph
import FgaVerif.Model.WGraph
import FgaVerif.Model.WAssign
import FgaVerif.Proofs.WAssignCycle
import FgaVerif.Proofs.WAssignPost
import FgaVerif.Proofs.WAssignWild
import FgaVerif.Proofs.WAssignErr
import FgaVerif.Spec.WeightsSem
import FgaVerif.Gen.Atn
import FgaVerif.Model.Conform
import FgaVerif.Gen.Grammar
import FgaVerif.Model.LexSim
import FgaVerif.Model.GParse
import FgaVerif.Model.GenSentence
/-! Line-protocol driver: one S-expression operation per input line, one canonical result per
    output line. Runs the executable model definitions only (no proofs are imported). -/
namespace FgaVerif.Driver
open FgaVerif FgaVerif.Model

def boolS (b : Bool) : String := if b then "true" else "false"

/-- the compiled validators (from the regenerated rules); `none` if a rule is outside the fragment -/
def validators : Option (List (String × CExpr)) :=
  compileAll Gen.Rules.goRules Gen.Rules.goValidators

def opValidate (name s : String) : String :=
  match validators with
  | none => "unmodelled"
  | some vs =>
    match lookup name vs with
    | none => "unmodelled"
    | some c => boolS (c.eval s.toList)

def printErrS : Printer.PrintErr → String
  | .nesting t r => s!"(err nesting {Sexp.quote t} {Sexp.quote r})"
  | .condName k n => s!"(err cond-name {Sexp.quote k} {Sexp.quote n})"
  | .paramGeneric p t => s!"(err param-generic {Sexp.quote p} {Sexp.quote t})"

def opModel2Dsl (m : Sexp) (src : Bool) : String :=
  match Codec.decModel m with
  | none => "bad-op"
  | some mdl =>
    match Printer.transform mdl src with
    | .ok s => s!"(ok {Sexp.quote s})"
    | .error e => printErrS e

/-- the hypothesis of Props/C08.walk_no_panic, evaluated on a real parse tree -/
def opScoped (tree : Sexp) : String :=
  match Codec.decTree tree with
  | some t => if Listener.wellScoped {} t then "(scoped true)" else "(scoped false)"
  | none => "bad-op"

/-- does the real parse tree conform to the parser grammar (regenerated from OpenFGAParser.g4)? -/
def opConform (tree : Sexp) : String :=
  match Codec.decTree tree with
  | some t =>
    match Conform.firstBad Gen.Grammar.rules t with
    | none => "(conform true)"
    | some n => s!"(conform false {Sexp.quote n})"
  | none => "bad-op"

/-- how many relation declarations of the real tree are embeddings of a CST (hypothesis of
    Props/C03.listener_denotes), and how many there are -/
def opEmbeddings (tree : Sexp) : String :=
  match Codec.decTree tree with
  | some t => let (a, b) := Cst.countEmbeddings t; s!"(embeddings {a} {b})"
  | none => "bad-op"

def opDsl2Model (text cleaned : String) (tree errs : Sexp) : String :=
  let lc := String.ofList (Clean.clean text.toList)
  if lc != cleaned then s!"(clean-mismatch {Sexp.quote lc})"
  else
    match Codec.decTree tree, Codec.decErrs errs with
    | some t, some es => toString (Codec.encOutcome (Listener.transform es t))
    | _, _ => "bad-op"

def decFile : Sexp → Option (Except String Merge.FileIn)
  | .list [.atom "file", .str name, .str contents, .str cleaned, tree, errs] =>
    let lc := String.ofList (Clean.clean contents.toList)
    if lc != cleaned then some (.error s!"(clean-mismatch {Sexp.quote lc})")
    else
      match Codec.decTree tree, Codec.decErrs errs with
      | some t, some es => some (.ok { name := name, contents := contents, outcome := Listener.transform es t })
      | _, _ => none
  | _ => none

def opMerge (schema : String) (files : List Sexp) : String :=
  match files.mapM decFile with
  | none => "bad-op"
  | some rs =>
    match rs.mapM (fun r => r) with
    | .error e => e
    | .ok fs => toString (Codec.encMergeOutcome (Merge.merge fs schema))

/-- the hypothesis `FilesWF` of the merge theorems (Props/C07), evaluated on the parsed files -/
def opMergeWF (files : List Sexp) : String :=
  match files.mapM decFile with
  | none => "bad-op"
  | some rs =>
    match rs.mapM (fun r => r) with
    | .error e => e
    | .ok fs => if Merge.filesWFb fs then "(wf true)" else "(wf false)"

def hexOf (bs : List UInt8) : String :=
  String.ofList (bs.flatMap fun x =>
    let d (n : Nat) : Char := if n < 10 then Char.ofNat (48 + n) else Char.ofNat (87 + n)
    [d (x.toNat / 16), d (x.toNat % 16)])

def opModPath (entry : String) : String :=
  match ModFile.checkEntry (ModFile.bytesOf entry) with
  | .ok v => s!"(ok {hexOf v})"
  | .decodeErr => "decode-err"
  | .invalid => "invalid"
  | .badExt => "bad-ext"

partial def decNode : Sexp → Option ModFile.Node
  | .atom "zero" => some { zero := true, tag := "", value := "", line := 0, col := 0, content := [] }
  | .list [.atom "node", .str tag, .str value, l, c, .list cs] => do
      let cs' ← cs.mapM decNode
      pure { zero := false, tag := tag, value := value, line := (← Codec.nat? l), col := (← Codec.nat? c), content := cs' }
  | _ => none

def opModFile (s c : Sexp) : String :=
  match decNode s, decNode c with
  | some sn, some cn =>
    match ModFile.transform sn cn with
    | .ok o =>
      let items := String.join (o.contents.map fun p => s!" ({hexOf p.value} {p.line} {p.col})")
      s!"(ok (schema {hexOf o.schema.value} {o.schema.line} {o.schema.col}) (contents {o.contentsLine} {o.contentsCol}{items}))"
    | .error es =>
      "(errors " ++ " ".intercalate (es.map fun e => s!"({e.line} {e.col} {Sexp.quote e.msg} {Sexp.quote e.echo})") ++ ")"
  | _, _ => "bad-op"

def ntypeS : PGraph.NodeType → String
  | .specificType => "0" | .typeAndRelation => "1" | .operator => "2" | .wildcard => "3"
def etypeS : PGraph.EdgeType → String
  | .direct => "0" | .rewrite => "1" | .ttu => "2" | .computed => "3"

def pgraphS (g : PGraph.G) : String :=
  let ns := String.join (g.nodes.map fun n => s!" ({n.id} {Sexp.quote n.label} {ntypeS n.ntype})")
  let ls := String.join ((PGraph.dotLines g).map fun l => s!" ({l.src} {l.dst} {l.id} {etypeS l.etype} {Sexp.quote l.tupleset})")
  s!"(g {boolS g.listObjects} (nodes{ns}) (lines{ls}))"

def opPGraph (m : Sexp) (rev : Nat) : String :=
  match Codec.decModel m with
  | none => "bad-op"
  | some mdl =>
    let g := PGraph.build mdl
    let g := if rev ≥ 1 then PGraph.reversed g else g
    let g := if rev ≥ 2 then PGraph.reversed g else g
    pgraphS g

/-- reachability matrix over the non-operator nodes in id order -/
def opPPaths (m : Sexp) : String :=
  match Codec.decModel m with
  | none => "bad-op"
  | some mdl =>
    let g := PGraph.build mdl
    let ns := g.nodes.filter (fun n => n.ntype != .operator)
    ";".intercalate (ns.map fun a => String.ofList (ns.map fun b => if PGraph.pathExistsIds g a.id b.id then '1' else '0'))

def opPCycles (m : Sexp) : String :=
  match Codec.decModel m with
  | none => "bad-op"
  | some mdl =>
    match PGraph.cycleFlags (PGraph.build mdl) with
    | none => "unmodelled"
    | some (c, r) => s!"(flags {boolS c} {boolS r})"

/-! weighted graph: structure dump with canonical operator names `T#r@k` -/
partial def nameOps (g : WGraph.G) (rel : String) (cur : String) (acc : List (String × String)) (k : Nat) :
    List (String × String) × Nat :=
  (WGraph.edgesOf g cur).foldl (fun (acc, k) e =>
    match g.node? e.dst with
    | some n =>
      if n.ntype == .operator && !(acc.any (·.1 == n.uniqueLabel)) then
        nameOps g rel n.uniqueLabel (acc ++ [(n.uniqueLabel, rel ++ "@" ++ toString k)]) (k + 1)
      else (acc, k)
    | none => (acc, k)) (acc, k)

def opNames (g : WGraph.G) : List (String × String) :=
  (g.nodes.filter (·.ntype == .typeAndRelation)).foldl (fun acc n => (nameOps g n.uniqueLabel n.uniqueLabel acc 0).1) []

def wNtypeS : WGraph.NodeType → String
  | .specificType => "0" | .typeAndRelation => "1" | .operator => "2" | .wildcard => "3"
def wEtypeS : WGraph.EdgeType → String
  | .direct => "0" | .rewrite => "1" | .ttu => "2" | .computed => "3"

def opWStruct (m : Sexp) : String :=
  match Codec.decModel m with
  | none => "bad-op"
  | some mdl =>
    match WGraph.build mdl with
    | .error (.invalidTupleset ts) => s!"(err invalid-tupleset {Sexp.quote ts})"
    | .error (.noTypeLink ts cu) => s!"(err no-type-link {Sexp.quote ts} {Sexp.quote cu})"
    | .error (.missingRelation t cu) => s!"(err missing-relation {Sexp.quote t} {Sexp.quote cu})"
    | .ok g =>
      let names := opNames g
      let nm (ul : String) : String := ((names.find? (·.1 == ul)).map (·.2)).getD ul
      let nodes := insertionSort (fun (a b : String × WGraph.WNode) => a.1 ≤ b.1) (g.nodes.map fun n => (nm n.uniqueLabel, n))
      let ns := String.join (nodes.map fun (c, n) => s!" ({Sexp.quote c} {Sexp.quote n.label} {wNtypeS n.ntype})")
      let es := String.join (nodes.map fun (c, n) =>
        let out := WGraph.edgesOf g n.uniqueLabel
        if out.isEmpty then "" else
          " (" ++ Sexp.quote c ++ String.join (out.map fun e =>
            s!" ({Sexp.quote (nm e.dst)} {wEtypeS e.etype} {Sexp.quote e.tupleset} ({" ".intercalate (e.conditions.map Sexp.quote)}))") ++ ")")
      s!"(wg (nodes{ns}) (edges{es}))"

def wmapS (w : Spec.Weights.WMap) : String :=
  "(" ++ " ".intercalate (w.map fun (k, v) => s!"({Sexp.quote k} {v})") ++ ")"

def opWSpec (m : Sexp) (grouped : Bool) : String :=
  match Codec.decModel m with
  | none => "bad-op"
  | some mdl =>
    match WGraph.build mdl with
    | .error _ => "(reject builder)"
    | .ok _ =>
      let g := Spec.Weights.sgraph grouped mdl
      let rs := Spec.Weights.rejects g
      -- hypotheses of Props/C04, C05, C11: the iteration reached a fixed point, node names are distinct, every referenced
      -- node exists, every value is Infinite or below the saturation threshold
      if !(Spec.Weights.isFixpoint g (Spec.Weights.weights g) && decide ((g.map (·.name)).Nodup) && Spec.Weights.closedB g
            && Spec.Weights.normalB g (Spec.Weights.weights g)) then "(unconverged)"
      else if !rs.isEmpty then
        let kinds := (rs.map fun r => match r with
          | .rewriteCycle _ => "rewrite-cycle" | .operatorOnCycle _ => "operator-on-cycle" | .noTerminal _ => "no-terminal").eraseDups
        s!"(reject {" ".intercalate kinds})"
      else
        let st := Spec.Weights.weights g
        let vis := g.filter (fun n => n.kind != .group)
        let vis := insertionSort (fun (a b : Spec.Weights.Node) => a.name ≤ b.name) vis
        "(ok" ++ String.join (vis.map fun n =>
          s!" ({Sexp.quote n.name} {wmapS (Spec.Weights.stateGet st n.name)} ({" ".intercalate ((Spec.Weights.wildTargets g n.name).map Sexp.quote)}))") ++ ")"

/-- the port of `AssignWeights` (Model/WAssign.lean), depth-first search started from `order`
    (canonical names); answer: error class, or weights and wildcards of every relation/operator node and
    of each of its edges -/
def opWAssign (m : Sexp) (order : List Sexp) : String :=
  match Codec.decModel m with
  | none => "bad-op"
  | some mdl =>
    match WGraph.build mdl with
    | .error _ => "(reject builder)"
    | .ok g =>
      let names := opNames g
      let nm (ul : String) : String := ((names.find? (·.1 == ul)).map (·.2)).getD ul
      let inv (c : String) : String := ((names.find? (·.2 == c)).map (·.1)).getD c
      let ord := order.filterMap (fun x => match x with | .str s => some (inv s) | .atom s => some (inv s) | _ => none)
      -- hypothesis of Props/C05.algorithm_prepass_sound: rewrite/computed edges end in nodes of the graph
      if !WAssign.rclosedB g then "(unclosed)" else
      -- hypothesis of Props/C04.algorithm_no_placeholder_on_success / algorithm_edge_rule_on_success: no terminal
      -- type of the graph is named like a cycle placeholder ("R#…")
      if !WAssign.noPHTypesB g then "(placeholder-named-type)" else
      -- hypotheses of Props/C11.algorithm_wildcards_exact / algorithm_edge_wildcards_on_success: every edge is stored
      -- under its own source (a theorem for built graphs, built_graph_srcOK) and terminal nodes have no outgoing edges
      if !WAssign.srcOKB g then "(edge-under-foreign-source)" else
      if !WAssign.termSinkB g then "(terminal-with-edges)" else
      -- hypothesis of Props/C05.algorithm_rejects_only_ill_founded (every error of the port is justified): no
      -- direct edge ends in an operator node
      if !WAssign.hopOKB g then "(direct-edge-into-operator)" else
      match WAssign.assignWeights g ord with
      | .error .modelCycle => "(err model-cycle)"
      | .error .tupleCycle => "(err tuple-cycle)"
      | .error .invalidModel => "(err invalid-model)"
      | .error .fuel => "(err fuel)"
      | .ok st =>
        let vis := g.nodes.filter (fun n => n.ntype == .typeAndRelation || n.ntype == .operator)
        let nodes := insertionSort (fun (a b : String × WGraph.WNode) => a.1 ≤ b.1) (vis.map fun n => (nm n.uniqueLabel, n))
        let wilds (ws : List String) : String := " ".intercalate ((insertionSort (fun (a b : String) => a ≤ b) ws).map Sexp.quote)
        "(ok" ++ String.join (nodes.map fun (c, n) =>
          s!" (n {Sexp.quote c} {wmapS (WAssign.aget n.uniqueLabel st.nodeW)} ({wilds (WAssign.aget n.uniqueLabel st.nodeWild)}))" ++
          String.join ((List.range (WGraph.edgesOf g n.uniqueLabel).length).map fun i =>
            s!" (e {Sexp.quote c} {i} {wmapS (WAssign.aget (n.uniqueLabel, i) st.edgeW)} ({wilds (WAssign.aget (n.uniqueLabel, i) st.edgeWild)}))")) ++ ")"

def opAtnTable (which : String) : String :=
  let t : Option (List String) := match which with
    | "parser-rules" => some Gen.Atn.goParserRules
    | "parser-symbolic" => some Gen.Atn.goParserSymbolic
    | "parser-literal" => some Gen.Atn.goParserLiteral
    | "lexer-rules" => some Gen.Atn.goLexerRules
    | "lexer-symbolic" => some Gen.Atn.goLexerSymbolic
    | "lexer-literal" => some Gen.Atn.goLexerLiteral
    | "lexer-modes" => some Gen.Atn.goLexerModes
    | _ => none
  match t with
  | some xs => "(" ++ " ".intercalate (xs.map Sexp.quote) ++ ")"
  | none => "bad-op"

/-! ### the lexer: the interpreter of `Model/LexSim.lean` on the automaton embedded in the Go lexer -/
def lexSim : LexSim.Sim := LexSim.build ((AtnGraph.deserializeLexer Gen.Atn.goLexerAtn).getD default)
def lexStarts : Array (Option (Array LexSim.Config)) :=
  (List.range lexSim.modeStart.size).toArray.map (LexSim.startSet lexSim)

def lexItems (text : String) : List LexSim.Item :=
  let cs := text.toList
  LexSim.visible (LexSim.lexLoop (LexSim.matchOne lexSim lexStarts) lexSim.ruleTokenType lexSim.actions (cs.length + 2) {} (1, 0) cs)

def tokName (ty : Int) : String :=
  if ty == -1 then "EOF"
  else match Gen.Atn.goLexerSymbolic[ty.toNat]? with
    | some n => if n == "" then s!"T{ty}" else n
    | none => s!"T{ty}"

/-- `Token.GetText()`: the end-of-file token reads `<EOF>` -/
def tokText (t : LexSim.Token) : String := if t.ty == -1 then "<EOF>" else String.ofList t.text

/-- tokens of all channels and the lexer's error reports, in order of occurrence -/
def opLex (text : String) : String :=
  if lexSim.unsupported then "unmodelled" else
  let items := lexItems text
  match items.find? (fun i => match i with | .abort _ => true | _ => false) with
  | some (.abort why) => s!"(abort {Sexp.quote why})"
  | _ =>
    let toks := items.filterMap fun i => match i with
      | .tok t => some s!"({tokName t.ty} {Sexp.quote (tokText t)} {t.line} {t.col} {t.channel})"
      | _ => none
    let errs := items.filterMap fun i => match i with
      | .err text l c => some s!"({l - 1} {c} {Sexp.quote ("token recognition error at: '" ++ String.ofList text ++ "'")})"
      | _ => none
    s!"(lex ({" ".intercalate toks}) ({" ".intercalate errs}))"

/-! ### the parser: the grammar interpreter of `Model/GParse.lean` on the rules regenerated from `OpenFGAParser.g4` -/

mutual
  /-- a tree in the notation of the harness (`dumpTree`), label fields in child order -/
  partial def treeS : Tree → String
    | .tok ty text l c err => s!"({if err then "e" else "t"} {ty} {Sexp.quote text} {l} {c})"
    | .rule name sl sc ls cs =>
      let ls := insertionSort (fun (a b : String × Nat) => a.2 ≤ b.2) ls
      s!"(r {Sexp.quote name} {sl} {sc} ({" ".intercalate (ls.map fun (k, i) => s!"({k} {i})")}) ({" ".intercalate (cs.map treeS)}))"
end

def decTok : Sexp → Option GParse.Tok
  | .list [.atom ty, .str text, l, c] => do pure ⟨ty, text, ← Codec.nat? l, ← Codec.nat? c⟩
  | _ => none

def parseOutcomeS : GParse.Outcome → String
  | .tree t => treeS t
  | .noParse => "(syntax-error)"
  | .outOfFuel => "(out-of-fuel)"

/-- tokens of the default channel (EOF last) → the parse tree, or `(syntax-error)` -/
def opParse (toks : List Sexp) : String :=
  match toks.mapM decTok with
  | none => "bad-op"
  | some ts => parseOutcomeS (GParse.parse Gen.Grammar.rules "main" ts.toArray)

/-- the tokens the parser sees: default channel only -/
def parserToks (items : List LexSim.Item) : Array GParse.Tok :=
  (items.filterMap fun i => match i with
    | .tok t => if t.channel == 0 then some ⟨tokName t.ty, tokText t, t.line, t.col⟩ else none
    | _ => none).toArray

/-- text → tokens (Lean lexer) → parse tree (Lean parser) -/
def opLexParse (text : String) : String :=
  if lexSim.unsupported then "unmodelled" else
  let items := lexItems text
  match items.find? (fun i => match i with | .abort _ => true | _ => false) with
  | some (.abort why) => s!"(abort {Sexp.quote why})"
  | _ =>
    let nerr := (items.filter fun i => match i with | .err _ _ _ => true | _ => false).length
    s!"(lexparse {nerr} {parseOutcomeS (GParse.parse Gen.Grammar.rules "main" (parserToks items))})"

/-- the whole DSL → model pipeline inside the model: comment pre-pass, lexer (automaton interpreter),
    parser (grammar interpreter), listener walk.  A text the lexer or the parser rejects is answered by
    `(syntax-errors)` (ANTLR's error messages and recovery are not modelled). -/
def opDsl2ModelFull (text : String) : String :=
  if lexSim.unsupported then "unmodelled" else
  let cleaned := String.ofList (Clean.clean text.toList)
  let items := lexItems cleaned
  match items.find? (fun i => match i with | .abort _ => true | _ => false) with
  | some (.abort why) => s!"(abort {Sexp.quote why})"
  | _ =>
    if items.any (fun i => match i with | .err _ _ _ => true | _ => false) then "(syntax-errors)" else
    match GParse.parse Gen.Grammar.rules "main" (parserToks items) with
    | .outOfFuel => "(out-of-fuel)"
    | .noParse => "(syntax-errors)"
    | .tree t => toString (Codec.encOutcome (Listener.transform [] t))

def step (line : String) : String :=
  match Sexp.parse line with
  | none => "bad-op"
  | some (.list [.atom "validate", .atom name, .str s]) => opValidate name s
  | some (.list [.atom "model2dsl", m, .atom "true"]) => opModel2Dsl m true
  | some (.list [.atom "model2dsl", m, .atom "false"]) => opModel2Dsl m false
  | some (.list [.atom "dsl2model", .str text, .str cleaned, tree, errs]) => opDsl2Model text cleaned tree errs
  | some (.list [.atom "scoped", tree]) => opScoped tree
  | some (.list [.atom "conform", tree]) => opConform tree
  | some (.list [.atom "embeddings", tree]) => opEmbeddings tree
  | some (.list [.atom "merge", .str schema, .list files]) => opMerge schema files
  | some (.list [.atom "merge-wf", .list files]) => opMergeWF files
  | some (.list [.atom "pgraph", m]) => opPGraph m 0
  | some (.list [.atom "pgraph-rev", m]) => opPGraph m 1
  | some (.list [.atom "pgraph-rev2", m]) => opPGraph m 2
  | some (.list [.atom "ppaths", m]) => opPPaths m
  | some (.list [.atom "pcycles", m]) => opPCycles m
  | some (.list [.atom "atn-table", .atom w]) => opAtnTable w
  | some (.list [.atom "wstruct", m]) => opWStruct m
  | some (.list [.atom "wspec", m]) => opWSpec m true
  | some (.list [.atom "wspec-edges", m]) => opWSpec m false
  | some (.list [.atom "wassign", m, .list order]) => opWAssign m order
  | some (.list [.atom "modpath", .str e]) => opModPath e
  | some (.list [.atom "modfile", sn, cn]) => opModFile sn cn
  | some (.list [.atom "lex", .str text]) => opLex text
  | some (.list [.atom "gen-sentence", .atom seed, .atom depth]) =>
    s!"(sentence {Sexp.quote (GenSentence.sentence Gen.Grammar.rules Gen.Atn.goLexerSymbolic Gen.Atn.goLexerLiteral "main" seed.toNat! depth.toNat!)})"
  | some (.list [.atom "parse", .list toks]) => opParse toks
  | some (.list [.atom "lexparse", .str text]) => opLexParse text
  | some (.list [.atom "dsl2model-full", .str text]) => opDsl2ModelFull text
  | some (.list [.atom "clean", .str text]) => s!"(ok {Sexp.quote (String.ofList (Clean.clean text.toList))})"
  | some _ => "bad-op"

partial def loop (h : IO.FS.Stream) (out : IO.FS.Stream) : IO Unit := do
  let line ← h.getLine
  if line.isEmpty then return ()
  out.putStrLn (step (line.dropRightWhile (· == '\n')))
  loop h out

def main : IO Unit := do
  let stdin ← IO.getStdin
  let stdout ← IO.getStdout
  loop stdin stdout
  stdout.flush

end FgaVerif.Driver
