import FgaVerif.Sexp
import FgaVerif.Model.Validators
import FgaVerif.Gen.Rules
import FgaVerif.Codec
import FgaVerif.Model.Printer
import FgaVerif.Model.Clean
import FgaVerif.Model.Listener
/-! Line-protocol driver: one S-expression operation per input line, one canonical result per
    output line. Runs the executable model definitions only (no proofs are imported). -/
namespace FgaVerif.Driver
open FgaVerif FgaVerif.Model

def boolS (b : Bool) : String := if b then "true" else "false"

/-- the compiled validators (from the regenerated rules); `none` if a rule is outside the fragment -/
def validators : Option (List (String × CExpr)) :=
  compileAll Gen.Rules.goRules Gen.Rules.goValidators

def opValidate (name s : String) : String :=
  match validators with
  | none => "unmodelled"
  | some vs =>
    match lookup name vs with
    | none => "unmodelled"
    | some c => boolS (c.eval s.toList)

def printErrS : Printer.PrintErr → String
  | .nesting t r => s!"(err nesting {Sexp.quote t} {Sexp.quote r})"
  | .condName k n => s!"(err cond-name {Sexp.quote k} {Sexp.quote n})"
  | .paramGeneric p t => s!"(err param-generic {Sexp.quote p} {Sexp.quote t})"

def opModel2Dsl (m : Sexp) (src : Bool) : String :=
  match Codec.decModel m with
  | none => "bad-op"
  | some mdl =>
    match Printer.transform mdl src with
    | .ok s => s!"(ok {Sexp.quote s})"
    | .error e => printErrS e

def opDsl2Model (text cleaned : String) (tree errs : Sexp) : String :=
  let lc := String.ofList (Clean.clean text.toList)
  if lc != cleaned then s!"(clean-mismatch {Sexp.quote lc})"
  else
    match Codec.decTree tree, Codec.decErrs errs with
    | some t, some es => toString (Codec.encOutcome (Listener.transform es t))
    | _, _ => "bad-op"

def decFile : Sexp → Option (Except String Merge.FileIn)
  | .list [.atom "file", .str name, .str contents, .str cleaned, tree, errs] =>
    let lc := String.ofList (Clean.clean contents.toList)
    if lc != cleaned then some (.error s!"(clean-mismatch {Sexp.quote lc})")
    else
      match Codec.decTree tree, Codec.decErrs errs with
      | some t, some es => some (.ok { name := name, contents := contents, outcome := Listener.transform es t })
      | _, _ => none
  | _ => none

def opMerge (schema : String) (files : List Sexp) : String :=
  match files.mapM decFile with
  | none => "bad-op"
  | some rs =>
    match rs.mapM (fun r => r) with
    | .error e => e
    | .ok fs => toString (Codec.encMergeOutcome (Merge.merge fs schema))

def step (line : String) : String :=
  match Sexp.parse line with
  | none => "bad-op"
  | some (.list [.atom "validate", .atom name, .str s]) => opValidate name s
  | some (.list [.atom "model2dsl", m, .atom "true"]) => opModel2Dsl m true
  | some (.list [.atom "model2dsl", m, .atom "false"]) => opModel2Dsl m false
  | some (.list [.atom "dsl2model", .str text, .str cleaned, tree, errs]) => opDsl2Model text cleaned tree errs
  | some (.list [.atom "merge", .str schema, .list files]) => opMerge schema files
  | some (.list [.atom "clean", .str text]) => s!"(ok {Sexp.quote (String.ofList (Clean.clean text.toList))})"
  | some _ => "bad-op"

partial def loop (h : IO.FS.Stream) (out : IO.FS.Stream) : IO Unit := do
  let line ← h.getLine
  if line.isEmpty then return ()
  out.putStrLn (step (line.dropRightWhile (· == '\n')))
  loop h out

def main : IO Unit := do
  let stdin ← IO.getStdin
  let stdout ← IO.getStdout
  loop stdin stdout
  stdout.flush

end FgaVerif.Driver
