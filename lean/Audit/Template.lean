import Lean
import FgaVerif.Props.PROPID
open Lean Elab Command

-- Print every theorem declared in the Props module together with the axioms it depends on.
run_cmd do
  let env ← getEnv
  let some modIdx := env.getModuleIdx? `FgaVerif.Props.PROPID | throwError "module not found"
  let mut names : Array Name := #[]
  for (n, ci) in env.constants.map₁.toList do
    if env.getModuleIdxFor? n == some modIdx then
      match ci with
      | .thmInfo _ =>
        let last := match n with | .str _ s => s | _ => ""
        if !n.isInternal && !(last.startsWith "eq_") && !(last.startsWith "match_") && !(last.startsWith "proof_")
           && (`FgaVerif.Props.PROPID).isPrefixOf n
           && !(isStructure env n.getPrefix && (getStructureFields env n.getPrefix).contains (Name.mkSimple last)) then
          names := names.push n
      | _ => pure ()
  for n in names.qsort (fun a b => a.toString < b.toString) do
    let axs ← Lean.collectAxioms n
    let axs := axs.qsort (fun a b => a.toString < b.toString)
    IO.println s!"THEOREM {n} AXIOMS {axs.toList}"
