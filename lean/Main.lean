import FgaVerif.Driver
def main : IO Unit := FgaVerif.Driver.main
