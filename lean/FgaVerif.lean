-- This module serves as the root of the `FgaVerif` library.
-- Import modules here that should be built as part of the library.
import FgaVerif.Basic
