package main

import (
	"fmt"
	"github.com/openfga/language/pkg/go/graph"
	"github.com/openfga/language/pkg/go/transformer"
	"google.golang.org/protobuf/encoding/protojson"
	"math/rand"
	"sort"
	"strconv"
	"strings"
	"sync"

	openfgav1 "github.com/openfga/api/proto/openfga/v1"
	"google.golang.org/protobuf/proto"
)

// ---- known-finding signature: an intersection/exclusion whose operands are not one-to-one with edges ----

func refTargetKey(r Ref) string {
	switch {
	case r.Wildcard:
		return r.Type + ":*"
	case r.Rel != "":
		return r.Type + "#" + r.Rel
	}
	return r.Type
}

func operandEdgeKeys(t *Type, rel *Rel, u *U) ([]string, bool) {
	switch u.Kind {
	case "this":
		seen := map[string]bool{}
		out := []string{}
		for _, r := range rel.Restr {
			k := "D>" + refTargetKey(r)
			if !seen[k] {
				seen[k] = true
				out = append(out, k)
			}
		}
		return out, true
	case "ttu":
		var refs []Ref
		for i := range t.Rels {
			if t.Rels[i].Name == u.Tupleset {
				refs = t.Rels[i].Restr
			}
		}
		seen := map[string]bool{}
		out := []string{}
		for _, r := range refs {
			k := "T>" + r.Type + "#" + u.Rel + "|" + t.Name + "#" + u.Tupleset
			if !seen[k] {
				seen[k] = true
				out = append(out, k)
			}
		}
		return out, true
	}
	return nil, false // computed / operator operands always contribute exactly one (never merged) edge
}

func operandsNotEdges(m *Model) bool {
	bad := false
	var rec func(t *Type, rel *Rel, u *U)
	rec = func(t *Type, rel *Rel, u *U) {
		if u.Kind == "inter" || u.Kind == "diff" {
			all := map[string]bool{}
			for _, c := range u.Children {
				ks, multi := operandEdgeKeys(t, rel, c)
				if !multi {
					continue
				}
				if len(ks) != 1 {
					bad = true
				}
				for _, k := range ks {
					if all[k] {
						bad = true
					}
					all[k] = true
				}
			}
		}
		for _, c := range u.Children {
			rec(t, rel, c)
		}
	}
	for i := range m.Types {
		for j := range m.Types[i].Rels {
			rec(&m.Types[i], &m.Types[i].Rels[j], m.Types[i].Rels[j].Rewrite)
		}
	}
	return bad
}

// ---- spec results from the Lean driver ----

type specRes struct {
	Raw         string
	Unconverged bool
	Reject      bool
	Kinds       string
	Weights     map[string]map[string]int
	Wild        map[string][]string
}

func parseSpec(s string) specRes {
	x := parseSX(s)
	r := specRes{Raw: s, Weights: map[string]map[string]int{}, Wild: map[string][]string{}}
	if x.Head() == "unconverged" {
		r.Unconverged = true
		return r
	}
	if x.Head() == "reject" {
		r.Reject = true
		r.Kinds = s
		return r
	}
	if x.Head() != "ok" {
		r.Reject = true
		r.Kinds = "unparsed:" + s
		return r
	}
	for _, n := range x.List[1:] {
		name := n.List[0].Atom
		w := map[string]int{}
		for _, kv := range n.List[1].List {
			v, _ := strconv.Atoi(kv.List[1].Atom)
			w[kv.List[0].Atom] = v
		}
		r.Weights[name] = w
		wc := []string{}
		for _, t := range n.List[2].List {
			wc = append(wc, t.Atom)
		}
		r.Wild[name] = wc
	}
	return r
}

type wCase struct {
	parserIdx int
	m         *Model
	pm        *openfgav1.AuthorizationModel
	canon     string
	kf        bool
	unforced  []wResult
	forced    []wResult
	orders    [][]string
	spec      specRes
	specE     specRes
}

func allPerms(xs []string) [][]string {
	if len(xs) <= 1 {
		return [][]string{append([]string{}, xs...)}
	}
	out := [][]string{}
	for i := range xs {
		rest := append(append([]string{}, xs[:i]...), xs[i+1:]...)
		for _, p := range allPerms(rest) {
			out = append(out, append([]string{xs[i]}, p...))
		}
	}
	return out
}

// evalWCases builds every model unforced (reps times) and under forced depth-first start orders
// (all permutations up to exhaustiveUpTo non-terminal nodes, else sampled), and asks the Lean
// specification for verdict, weights and wildcard sets.
func evalWCases(c *Ctx, rng *rand.Rand, models []*Model, reps, exhaustiveUpTo, sampled int) []*wCase {
	cases := make([]*wCase, len(models))
	seeds := make([]int64, len(models))
	for i := range seeds {
		seeds[i] = rng.Int63()
	}
	parallelFor(len(models), func(i int) {
		lr := rand.New(rand.NewSource(seeds[i]))
		m := models[i]
		wc := &wCase{m: m, pm: m.Proto(), kf: operandsNotEdges(m)}
		wc.canon = canonModel(wc.pm)
		for r := 0; r < reps; r++ {
			wc.unforced = append(wc.unforced, realWBuild(wc.pm))
		}
		// the same model as the DSL parser returns it (present-but-empty slices and maps instead of nil
		// ones): an equal model must get the equal verdict and weights
		wc.parserIdx = -1
		if text, _ := Render(m, nil); text != "" {
			if parsed, err := transformer.TransformDSLToProto(text); err == nil && canonModel(parsed) == wc.canon {
				wc.parserIdx = len(wc.unforced)
				wc.unforced = append(wc.unforced, realWBuild(parsed))
			}
		}
		if hooksAvailable {
			first, labels := hookWBuild(wc.pm, nil)
			wc.forced = append(wc.forced, first)
			wc.orders = append(wc.orders, nil)
			if labels != nil {
				var orders [][]string
				if len(labels) <= exhaustiveUpTo {
					orders = allPerms(labels)
				} else {
					for k := 0; k < sampled; k++ {
						p := append([]string{}, labels...)
						lr.Shuffle(len(p), func(a, b int) { p[a], p[b] = p[b], p[a] })
						orders = append(orders, p)
					}
					// every node as the first root
					for k := range labels {
						orders = append(orders, append([]string{labels[k]}, labels...))
					}
				}
				for oi, o := range orders {
					// the start order is forced, Go's map iteration inside the assignment is not: repeat the
					// build so that several iteration orders are seen under one start order
					rep := 1
					if len(orders) <= 40 || oi < 12 {
						rep = 3
					}
					for k := 0; k < rep; k++ {
						r, _ := hookWBuild(wc.pm, o)
						wc.forced = append(wc.forced, r)
						wc.orders = append(wc.orders, o)
					}
				}
			}
		}
		cases[i] = wc
	})
	// the port of AssignWeights (Model/WAssign.lean) against the real assignment, order by order:
	// error class, and weights and wildcard lists of every node and edge
	for _, wc := range cases {
		n := 0
		for oi, o := range wc.orders {
			if o == nil || wc.forced[oi].Assign == "" {
				continue
			}
			// a spread of the forced orders (all of them would be up to 7! per model)
			if len(wc.orders) > 12 && oi%(len(wc.orders)/12+1) != 1 {
				continue
			}
			q := []string{}
			for _, x := range o {
				q = append(q, Q(x))
			}
			c.D.Add("corr:wassign", L("wassign", wc.canon, L(q...)), wc.forced[oi].Assign,
				map[string]any{"model": wc.canon, "dfs_start_order": o})
			n++
		}
		c.DistN("wassign_orders_compared", n)
	}
	ops := []string{}
	for _, wc := range cases {
		ops = append(ops, L("wspec", wc.canon), L("wspec-edges", wc.canon))
	}
	lines, err := c.D.Ask(ops)
	if err != nil {
		c.R.Disagreements = append(c.R.Disagreements, Case{Stream: "driver", Kind: "correspondence", Detail: err.Error()})
		return nil
	}
	kept := []*wCase{}
	for i, wc := range cases {
		wc.spec = parseSpec(lines[2*i])
		wc.specE = parseSpec(lines[2*i+1])
		if wc.spec.Unconverged || wc.specE.Unconverged {
			// the hypothesis of Props/C04.weights_satisfy_equations (the iteration of the specification
			// reached a fixed point within its fuel) is not met: the input is not covered
			c.R.Unmodelled++
			c.Dist("spec_unconverged")
			continue
		}
		kept = append(kept, wc)
	}
	return kept
}

func weightsEqual(a, b map[string]map[string]int) string {
	for n, w := range a {
		w2, ok := b[n]
		if !ok {
			return "node " + n + " missing"
		}
		if sortedWeights(w) != sortedWeights(w2) {
			return "node " + n + ": " + sortedWeights(w) + " vs " + sortedWeights(w2)
		}
	}
	for n := range b {
		if _, ok := a[n]; !ok {
			return "node " + n + " missing"
		}
	}
	return ""
}

func dedupSorted(xs []string) []string {
	out := []string{}
	for i, x := range xs {
		if i == 0 || xs[i-1] != x {
			out = append(out, x)
		}
	}
	return out
}

func wildEqual(real map[string][]string, spec map[string][]string) string {
	for n, w := range real {
		for i := 1; i < len(w); i++ {
			if w[i] == w[i-1] {
				return "node " + n + " has a duplicate wildcard " + w[i]
			}
		}
		s, ok := spec[n]
		if !ok {
			return "node " + n + " unknown to the specification"
		}
		if strings.Join(w, ",") != strings.Join(s, ",") {
			return fmt.Sprintf("node %s: wildcards %v, reachable public types %v", n, w, s)
		}
	}
	return ""
}

func (wc *wCase) all() []wResult { return append(append([]wResult{}, wc.unforced...), wc.forced...) }

func (wc *wCase) orderOf(i int) any {
	if i == wc.parserIdx {
		return "Build (Go map order) on the proto returned by TransformDSLToProto(render(model)): empty non-nil slices/maps"
	}
	if i < len(wc.unforced) {
		return "Build (Go map order)"
	}
	return wc.orders[i-len(wc.unforced)]
}

// classify compares one real result with the grouped specification; returns "" (agrees),
// "kf" (explained by the operand-grouping finding: agrees with the edge-operand variant) or a description.
func (wc *wCase) classify(r wResult, what string) string {
	check := func(s specRes) string {
		if (r.Err != "") != s.Reject {
			return fmt.Sprintf("verdict: real error %q, specification %s", r.Err, map[bool]string{true: "rejects " + s.Kinds, false: "accepts"}[s.Reject])
		}
		if r.Err != "" {
			return ""
		}
		switch what {
		case "weights":
			return weightsEqual(r.Weights, s.Weights)
		case "wild":
			return wildEqual(r.Wild, s.Wild)
		}
		return ""
	}
	d := check(wc.spec)
	if d == "" {
		return ""
	}
	if wc.kf && check(wc.specE) == "" {
		return "kf"
	}
	return d
}

var c06Reused *graph.WeightedAuthorizationModelGraphBuilder
var c06Prev string

// degenerateOperands: operators whose operands collapse into one edge or none - the same direct assignment
// on both sides of an exclusion or intersection (merged by UpsertEdge), the same computed relation twice, an
// operand without restrictions - alone and below a union, a tuple-to-userset and a second relation
func degenerateOperands(rng *rand.Rand) *Model {
	user := []Ref{{Type: "user"}}
	if rng.Intn(3) == 0 {
		user = []Ref{{Type: "user"}, {Type: "user", Cond: "c1"}}
	}
	if rng.Intn(4) == 0 {
		user = []Ref{{Type: "user", Wildcard: true}}
	}
	var rw *U
	restr := user
	switch rng.Intn(7) {
	case 0:
		rw = Diff(This(), This())
	case 1:
		rw = Inter(This(), This())
	case 2:
		rw = Diff(CU("b"), CU("b"))
		restr = nil
	case 3:
		rw = Inter(CU("b"), CU("b"), CU("b"))
		restr = nil
	case 4:
		rw = Diff(This(), CU("b"))
		restr = []Ref{}
	case 5:
		rw = Union(Diff(This(), This()), CU("b"))
	default:
		rw = Diff(Union(This(), This()), Inter(This(), This()))
	}
	doc := Type{Name: "doc", Rels: []Rel{{Name: "a", Rewrite: rw, Restr: restr}, {Name: "b", Rewrite: This(), Restr: user}}}
	if rng.Intn(2) == 0 {
		doc.Rels = append(doc.Rels, Rel{Name: "c", Rewrite: Union(CU("a"), CU("b"))})
	}
	if rng.Intn(3) == 0 {
		doc.Rels = append(doc.Rels, Rel{Name: "p", Rewrite: This(), Restr: []Ref{{Type: "doc"}}}, Rel{Name: "d", Rewrite: TTU("p", "a")})
	}
	return &Model{Schema: "1.1", Types: []Type{{Name: "user", MetaNil: true}, doc}}
}

func genWModels(rng *rand.Rand, n int) []*Model {
	ms := make([]*Model, n)
	for i := range ms {
		if i%40 == 11 {
			ms[i] = degenerateOperands(rng)
			continue
		}
		if i%8 == 7 {
			ms[i] = GenCycleWeb(rng)
			continue
		}
		if i%8 == 3 {
			ms[i] = GenNestedOps(rng)
			continue
		}
		if i%8 == 5 {
			ms[i] = GenSharedTarget(rng)
			continue
		}
		if k := rng.Intn(10); k < 2 {
			ms[i] = GenGraphModel(rng)
		} else if k < 4 {
			ms[i] = GenWildModel(rng)
		} else {
			ms[i] = GenWModel(rng)
		}
	}
	return ms
}

func wInput(wc *wCase, i int) map[string]any {
	js, _ := protojson.Marshal(wc.pm)
	return map[string]any{"model": wc.canon, "model_json": string(js), "dfs_start_order": wc.orderOf(i)}
}

var wRuleCommon = "graph-biased generated models (recursive usersets and TTUs, interlocking tuple cycles, rewrite-only cycles, TTUs over 1-3 parent types, wildcards in and behind cycles, " +
	"intersections/exclusions on and next to cycles); each model is built by the public Build (Go map order, repeated) and, through the verif hook, under forced depth-first start orders " +
	"(all permutations of the non-terminal nodes for small graphs, sampled + every node as first root otherwise; each forced order three times; one model in eight is a small web of tuple cycles); the Lean port of AssignWeights (Model/WAssign.lean) is compared per forced order on weights and wildcards of every node and edge (corr:wassign); the Lean specification (Spec/Weights.lean, run by the driver) gives verdict, weights and wildcard sets. "

func init() {
	props["C05"] = func(c *Ctx) {
		c.R.Rule = wRuleCommon + "Oracle: the real verdict under every order equals well-foundedness, and every error wraps ErrModelCycle, ErrTupleCycle or ErrInvalidModel. non-trivial = distinct model with a cycle-related or intersection-related rejection, or accepted with an Infinite weight"
		rng := rand.New(rand.NewSource(c.Seed))
		wModels := genWModels(rng, c.Pick(1200, 12000))
		exh, smp := c.Pick(5, 7), c.Pick(16, 40)
		// evaluated in batches so that the builds of earlier models can be dropped (flat memory in the thorough tier)
		for start := 0; start < len(wModels); start += 400 {
			cases := evalWCases(c, rng, wModels[start:min(start+400, len(wModels))], 2, exh, smp)
			for _, wc := range cases {
				c.R.Evaluations++
				c.R.Programs++
				c.R.DisagreementsChecked++
				c.DistN("builds", len(wc.all()))
				if wc.spec.Reject {
					c.Dist("spec_" + strings.Trim(wc.spec.Kinds, "()"))
					if strings.Contains(wc.spec.Kinds, "cycle") || strings.Contains(wc.spec.Kinds, "no-terminal") {
						c.Nontrivial(wc.canon)
					}
				} else {
					c.Dist("spec_accepts")
				}
				for i, r := range wc.all() {
					if strings.HasPrefix(r.Err, "panic:") || strings.HasPrefix(r.Err, "other:") {
						c.OracleFail("c05:error-class", wInput(wc, i), "builder fails with something other than the three sentinel errors: "+r.Err, r.Err)
						break
					}
					switch d := wc.classify(r, "verdict"); d {
					case "":
					case "kf":
						c.KnownHit("KF-C04-operand-grouping", wInput(wc, i))
					default:
						c.OracleFail("c05:verdict", wInput(wc, i), d, r.Err)
					}
					if d := wc.classify(r, "verdict"); d != "" && d != "kf" {
						break
					}
				}
			}
		}
		c.Sample(map[string]any{"dsl": "define a: b / define b: [doc#a] or a", "well_founded": false})
	}
	props["C04"] = func(c *Ctx) {
		c.R.Rule = wRuleCommon + "Oracles on every accepted build: relation and operator node weights equal the specification's (exact key sets, Infinite exactly where the specification has it); every edge weight equals its " +
			"target's weight plus one for direct/TTU edges; no 'R#' placeholder key; no relation or operator with an empty weight map. non-trivial = distinct accepted model with an operator node or an Infinite weight"
		rng := rand.New(rand.NewSource(c.Seed))
		wModels := genWModels(rng, c.Pick(1200, 12000))
		exh, smp := c.Pick(4, 6), c.Pick(12, 30)
		// evaluated in batches so that the builds of earlier models can be dropped (flat memory in the thorough tier)
		for start := 0; start < len(wModels); start += 400 {
			cases := evalWCases(c, rng, wModels[start:min(start+400, len(wModels))], 2, exh, smp)
			for _, wc := range cases {
				c.R.Evaluations++
				c.R.Programs++
				c.R.DisagreementsChecked++
				for i, r := range wc.all() {
					if r.Err != "" {
						continue
					}
					c.Dist("accepted_builds")
					if strings.Contains(r.Full, "@0") || strings.Contains(r.Full, "2147483647") {
						c.Nontrivial(wc.canon)
					}
					stop := false
					for n, w := range r.Weights {
						if len(w) == 0 {
							c.OracleFail("c04:empty", wInput(wc, i), "node "+n+" is left with an empty weight map", "")
							stop = true
						}
						for k := range w {
							if strings.HasPrefix(k, "R#") {
								c.OracleFail("c04:placeholder", wInput(wc, i), "unresolved cycle placeholder "+k+" visible on node "+n, "")
								stop = true
							}
						}
					}
					if strings.Contains(r.Full, "\"R#") && !stop {
						c.OracleFail("c04:placeholder", wInput(wc, i), "unresolved cycle placeholder visible on an edge", "")
						stop = true
					}
					if r.EdgeBad != "" && !stop {
						c.OracleFail("c04:edge-rule", wInput(wc, i), r.EdgeBad, "")
						stop = true
					}
					if !stop {
						switch d := wc.classify(r, "weights"); d {
						case "":
						case "kf":
							c.KnownHit("KF-C04-operand-grouping", wInput(wc, i))
						default:
							c.OracleFail("c04:weights", wInput(wc, i), d, "")
							stop = true
						}
					}
					if stop {
						break
					}
				}
			}
		}
		c.Sample(map[string]any{"dsl": "define a: [user] or a from p / define p: [doc]", "weights": "doc#a {user: Infinite}"})
	}
	props["C11"] = func(c *Ctx) {
		c.R.Rule = wRuleCommon + "Oracles on every accepted build: the wildcard list of each relation/operator node equals the set of public types reachable from it (specification), has no duplicates; each edge's list is " +
			"its target's (or {T} into T:*). non-trivial = distinct accepted model with a wildcard restriction"
		rng := rand.New(rand.NewSource(c.Seed))
		wModels := genWModels(rng, c.Pick(1200, 12000))
		exh, smp := c.Pick(4, 6), c.Pick(12, 30)
		// evaluated in batches so that the builds of earlier models can be dropped (flat memory in the thorough tier)
		for start := 0; start < len(wModels); start += 400 {
			cases := evalWCases(c, rng, wModels[start:min(start+400, len(wModels))], 2, exh, smp)
			for _, wc := range cases {
				c.R.Evaluations++
				c.R.Programs++
				c.R.DisagreementsChecked++
				for i, r := range wc.all() {
					if r.Err != "" {
						continue
					}
					if strings.Contains(wc.canon, " true ") {
						c.Nontrivial(wc.canon)
					}
					if r.EdgeWildBad != "" {
						c.OracleFail("c11:edge-wildcards", wInput(wc, i), r.EdgeWildBad, "")
						break
					}
					switch d := wc.classify(r, "wild"); d {
					case "":
						continue
					case "kf":
						c.KnownHit("KF-C04-operand-grouping", wInput(wc, i))
						continue
					default:
						c.OracleFail("c11:wildcards", wInput(wc, i), d, "")
					}
					break
				}
			}
		}
		c.Sample(map[string]any{"dsl": "define a: [user:*] / define b: a or b from p", "wildcards": "doc#b [user]"})
	}
	props["C06"] = func(c *Ctx) {
		c.R.Rule = wRuleCommon + "Oracle (real code only): all builds of one model - repeated Build calls, every forced start order, permuted type definitions, 8 concurrent goroutines - give the identical verdict and " +
			"identical weights and wildcard sets on every node and edge; permuting the operands of unions and intersections leaves every relation's weights unchanged. non-trivial = distinct model with >= 2 non-terminal nodes compared under >= 2 orders"
		rng := rand.New(rand.NewSource(c.Seed))
		models := genWModels(rng, c.Pick(1000, 10000))
		permOps := []string{}
		type permR struct{ canon, raw string }
		permRef := []permR{}
		keep := []*wCase{}
		reps, exh, smp := c.Pick(3, 10), c.Pick(5, 7), c.Pick(16, 40)
		// the models are evaluated in batches: the builds of one batch (every order of every model, with full dumps)
		// are dropped before the next one, which keeps the thorough tier's memory flat
		for start := 0; start < len(models); start += 400 {
			cases := evalWCases(c, rng, models[start:min(start+400, len(models))], reps, exh, smp)
			if len(keep) < 600 {
				keep = append(keep, cases...)
			}
			for _, wc := range cases {
				c.R.Evaluations++
				c.R.Programs++
				c.R.DisagreementsChecked++
				all := wc.all()
				if len(all) >= 3 {
					c.Nontrivial(wc.canon)
				}
				c.DistN("builds_compared", len(all))
				ref := all[0]
				bad := false
				for i, r := range all[1:] {
					if r.Full != ref.Full || (r.Err != "") != (ref.Err != "") {
						in := wInput(wc, i+1)
						in["other_order"] = wc.orderOf(0)
						c.OracleFail("c06:orders", in, fmt.Sprintf("two builds of the same model differ: %q / %q", trunc(ref.Err+" "+ref.Full, 300), trunc(r.Err+" "+r.Full, 300)), "")
						bad = true
						break
					}
				}
				if bad {
					continue
				}
				// one builder object reused for every model of the run: what it built before must not matter
				if c06Reused == nil {
					c06Reused = graph.NewWeightedAuthorizationModelGraphBuilder()
				}
				{
					var rg *graph.WeightedAuthorizationModelGraph
					var rerr error
					rr := wResult{}
					if p := safely(func() { rg, rerr = c06Reused.Build(wc.pm) }); p != "" {
						rr = wResult{Err: "panic:" + p, Full: "panic:" + p}
					} else if rerr != nil {
						rr = wResult{Err: errClass(rerr), Full: "err"}
					} else {
						rr = dumpWGraph(rg, true)
					}
					c.Dist("builds_on_a_reused_builder")
					if rr.Full != ref.Full || (rr.Err != "") != (ref.Err != "") {
						c.OracleFail("c06:reused-builder", map[string]any{"model": wc.canon, "previous_model": c06Prev},
							fmt.Sprintf("a builder that has built other models before gives a different result than a fresh one: %q / %q", trunc(ref.Err+" "+ref.Full, 300), trunc(rr.Err+" "+rr.Full, 300)), "")
						c06Reused = nil
						continue
					}
					c06Prev = wc.canon
				}
				// permuted type definitions
				for k := 0; k < 2; k++ {
					sh := proto.Clone(wc.pm).(*openfgav1.AuthorizationModel)
					rng.Shuffle(len(sh.TypeDefinitions), func(i, j int) {
						sh.TypeDefinitions[i], sh.TypeDefinitions[j] = sh.TypeDefinitions[j], sh.TypeDefinitions[i]
					})
					r := realWBuild(sh)
					if r.Full != ref.Full || (r.Err != "") != (ref.Err != "") {
						c.OracleFail("c06:type-order", map[string]any{"model": wc.canon, "permuted": canonModel(sh)}, "permuting the type definitions changes the weighted graph", "")
						bad = true
						break
					}
					if k == 0 {
						// the specification on the permuted model: Props/C06.type_order_irrelevant says it is the same
						// (its hypotheses for the permuted graph are evaluated here: an (unconverged) answer differs)
						permOps = append(permOps, L("wspec", canonModel(sh)))
						permRef = append(permRef, permR{wc.canon, wc.spec.Raw})
					}
				}
				if bad {
					continue
				}
				// permuted commutative operands: relation weights unchanged (three permutations)
				for pk := 0; pk < 3; pk++ {
					pm2 := permuteOperands(rng, wc.m)
					r2 := realWBuild(pm2.Proto())
					// (the per-edge reading of intersections and exclusions, KF-C04-operand-grouping, is itself independent of
					// the order of the operands of a union or intersection: no exemption here)
					if (r2.Err != "") != (ref.Err != "") {
						c.OracleFail("c06:operand-order", map[string]any{"model": wc.canon, "permuted": canonModel(pm2.Proto())}, "permuting union/intersection operands changes the verdict", ref.Err+" / "+r2.Err)
					} else if ref.Err == "" {
						for n, w := range ref.Weights {
							if strings.Contains(n, "@") {
								continue
							}
							if sortedWeights(w) != sortedWeights(r2.Weights[n]) {
								c.OracleFail("c06:operand-order", map[string]any{"model": wc.canon, "permuted": canonModel(pm2.Proto()), "relation": n}, "permuting union/intersection operands changes a relation's weights", "")
								break
							}
						}
					}
				}
			}
		}
		// webs of tuple cycles, each built many times: cycle resolution walks Go maps, whose iteration order
		// changes from build to build, so one model is a whole family of schedules
		webs := c.Pick(150, 1500)
		webBuilds := c.Pick(150, 400)
		for i := 0; i < webs; i++ {
			wm := GenCycleWeb(rng).Proto()
			ref := realWBuild(wm)
			for k := 0; k < webBuilds; k++ {
				r := realWBuild(wm)
				c.Dist("cycle_web_builds")
				if r.Full != ref.Full || (r.Err != "") != (ref.Err != "") {
					js, _ := protojson.Marshal(wm)
					c.OracleFail("c06:repeated-web", map[string]any{"model": canonModel(wm), "model_json": string(js), "build": k},
						fmt.Sprintf("two builds of the same model differ: %q / %q", trunc(ref.Err+" "+ref.Full, 300), trunc(r.Err+" "+r.Full, 300)), "")
					break
				}
			}
		}
		if lines, err := c.D.Ask(permOps); err != nil {
			c.R.Disagreements = append(c.R.Disagreements, Case{Stream: "driver", Kind: "correspondence", Detail: err.Error()})
		} else {
			for i, l := range lines {
				c.R.DisagreementsChecked++
				c.Dist("spec_on_permuted_types")
				if l != permRef[i].raw {
					c.R.Disagreements = append(c.R.Disagreements, Case{Stream: "spec:type-order", Kind: "correspondence",
						Input:  map[string]any{"model": permRef[i].canon},
						Op:     permOps[i],
						Detail: "the specification gives a different answer for the model with permuted type definitions (Props/C06.type_order_irrelevant or one of its run-time hypotheses fails)",
						Lean:   trunc(l, 400), Go: trunc(permRef[i].raw, 400)})
				}
			}
		}
		// concurrent builds of shared models
		conc := c.Pick(60, 600)
		var wg sync.WaitGroup
		var mu sync.Mutex
		for i := 0; i < conc && i < len(keep); i++ {
			wc := keep[i]
			ref := wc.unforced[0]
			for gi := 0; gi < 8; gi++ {
				wg.Add(1)
				go func() {
					defer wg.Done()
					r := realWBuild(wc.pm)
					if r.Full != ref.Full || (r.Err != "") != (ref.Err != "") {
						mu.Lock()
						c.OracleFail("c06:concurrent", map[string]any{"model": wc.canon}, "a concurrent build differs from the sequential one", "")
						mu.Unlock()
					}
				}()
			}
		}
		wg.Wait()
		c.DistN("concurrent_builds", 8*min(conc, len(keep)))
		c.Sample(map[string]any{"dsl": "define a: b / define b: [doc#a] or a", "note": "rejected under every start order"})
		_ = sort.Strings
	}
}

func trunc(s string, n int) string {
	if len(s) > n {
		return s[:n]
	}
	return s
}

// permuteOperands shuffles the operands of every union and intersection (keeping a direct
// assignment wherever it lands: the weighted graph does not care about DSL expressibility).
func permuteOperands(rng *rand.Rand, m *Model) *Model {
	c := *m
	c.Types = make([]Type, len(m.Types))
	var rec func(u *U) *U
	rec = func(u *U) *U {
		n := &U{Kind: u.Kind, Rel: u.Rel, Tupleset: u.Tupleset}
		for _, ch := range u.Children {
			n.Children = append(n.Children, rec(ch))
		}
		if u.Kind == "union" || u.Kind == "inter" {
			rng.Shuffle(len(n.Children), func(i, j int) { n.Children[i], n.Children[j] = n.Children[j], n.Children[i] })
		}
		return n
	}
	for i, t := range m.Types {
		nt := t
		nt.Rels = make([]Rel, len(t.Rels))
		for j, r := range t.Rels {
			nr := r
			nr.Rewrite = rec(r.Rewrite)
			nt.Rels[j] = nr
		}
		c.Types[i] = nt
	}
	return &c
}
