package main

import (
	"math/rand"
	"strings"
)

// An independent DSL renderer: it shares no code with the repository's printer. It mirrors the
// parser grammar (OpenFGAParser.g4) rule by rule and chooses, at every optional WHITESPACE /
// NEWLINE site, among everything the grammar (together with the lexer's NEWLINE rule and the
// comment pre-pass) allows.  With rng == nil the layout is the plain canonical one.

type Layout struct {
	rng      *rand.Rand
	CRLF     bool
	Mixed    bool // CRLF and LF line ends mixed within one document (implies CRLF for the expression markers)
	mixSeed  int64
	Tabs     bool
	Comments bool
	Parens   bool
	Extra    bool // extra spaces around punctuation, multi-line restriction lists
	Long     bool // one full-line comment longer than 64 KiB somewhere between the declarations
	longDone bool
	lines    []string
	cur      strings.Builder
	sites    int               // number of layout choice sites visited
	Marks    map[string][2]int // declaration key -> (zero-based line, column) of its name in the text
}

// mark records where the name written next starts. Keys: type:<name>#<n>, ext:<name>#<n>,
// rel:<type>#<n>:<rel>#<k>, cond:<name>#<n>, param:<cond>#<n>:<param>#<k> (n, k: occurrence index).
func (l *Layout) mark(key string) {
	if l.Marks == nil {
		l.Marks = map[string][2]int{}
	}
	n := 0
	for {
		k := key + "#" + itoa(n)
		if _, ok := l.Marks[k]; !ok {
			l.Marks[k] = [2]int{len(l.lines), len([]rune(l.cur.String()))}
			return
		}
		n++
	}
}

func itoa(n int) string {
	if n == 0 {
		return "0"
	}
	s := ""
	for n > 0 {
		s = string(rune('0'+n%10)) + s
		n /= 10
	}
	return s
}

func NewLayout(rng *rand.Rand) *Layout {
	l := &Layout{rng: rng}
	if rng != nil {
		l.CRLF = rng.Intn(4) == 0
		l.Tabs = rng.Intn(3) == 0
		l.Comments = rng.Intn(2) == 0
		l.Parens = rng.Intn(2) == 0
		l.Extra = rng.Intn(3) > 0
		l.Long = rng.Intn(40) == 0
		if l.CRLF && rng.Intn(2) == 0 {
			l.Mixed = true
			l.mixSeed = rng.Int63()
		}
	}
	return l
}

func (l *Layout) coin(n int) bool {
	l.sites++
	return l.rng != nil && l.rng.Intn(n) == 0
}

// w writes text; a newline inside it (multi-line condition expressions) starts a new line, so that
// the marks recorded afterwards keep pointing at the right line.
func (l *Layout) w(s string) {
	for {
		i := strings.IndexByte(s, '\n')
		if i < 0 {
			l.cur.WriteString(s)
			return
		}
		l.cur.WriteString(s[:i])
		if l.CRLF {
			l.cur.WriteString("\x00") // keep a bare LF inside the expression (see String)
		}
		l.lines = append(l.lines, l.cur.String())
		l.cur.Reset()
		s = s[i+1:]
	}
}

func lastLine(s string) string {
	if i := strings.LastIndexByte(s, '\n'); i >= 0 {
		return s[i+1:]
	}
	return s
}

// expr writes a condition expression; the end of each of its inner lines may carry trailing blanks and a
// trailing comment (the pre-pass cuts both, so the expression read back is the one written), unless the
// line itself contains " #".
func (l *Layout) expr(s string) {
	for {
		i := strings.IndexByte(s, '\n')
		if i < 0 {
			l.cur.WriteString(s)
			return
		}
		l.cur.WriteString(s[:i])
		if s[:i] != "" {
			l.trail(!strings.Contains(s[:i], " #"), false)
		}
		if l.CRLF {
			l.cur.WriteString("\x00") // keep a bare LF inside the expression (see String)
		}
		l.lines = append(l.lines, l.cur.String())
		l.cur.Reset()
		s = s[i+1:]
	}
}

// ws: mandatory WHITESPACE token
func (l *Layout) ws() {
	if l.rng == nil || !l.Extra || !l.coin(3) {
		l.w(" ")
		return
	}
	n := 1 + l.rng.Intn(3)
	for i := 0; i < n; i++ {
		if l.Tabs && l.rng.Intn(3) == 0 {
			l.w("\t")
		} else {
			l.w(" ")
		}
	}
}

// ows: optional WHITESPACE token; def says whether the canonical layout has a space here
func (l *Layout) ows(def bool) {
	if l.rng == nil || !l.Extra {
		if def {
			l.w(" ")
		}
		return
	}
	switch l.rng.Intn(4) {
	case 0:
	case 1:
		l.w(" ")
	default:
		l.ws()
	}
	l.sites++
}

var commentTexts = []string{"# a comment", "#", "# type user", "#define x: [y]", "# model", "#   spaced   ", "# }{ ][ )( # nested"}

// nl: a NEWLINE site. Ends the current line (optionally with trailing blanks and a trailing
// comment), then emits optional blank / comment lines, then the indentation of the next line.
// trail decorates the end of a code line: trailing blanks, a tab (only where a NEWLINE token follows to
// swallow it), and a trailing comment separated from the code by one or several spaces.
func (l *Layout) trail(allowComments, tabOK bool) {
	if l.rng == nil {
		return
	}
	if l.Extra && l.coin(5) {
		l.w(strings.Repeat(" ", 1+l.rng.Intn(3)))
	}
	if tabOK && l.Tabs && l.coin(8) {
		l.w("\t")
	}
	if l.Comments && allowComments && l.coin(5) {
		l.w(" " + commentTexts[l.rng.Intn(len(commentTexts))])
		if l.coin(3) {
			l.w(strings.Repeat(" ", 1+l.rng.Intn(2)))
		}
	}
}

func (l *Layout) nl(indent int, allowComments bool) {
	l.trail(allowComments, true)
	l.lines = append(l.lines, l.cur.String())
	l.cur.Reset()
	if l.rng != nil {
		if l.Long && !l.longDone && allowComments && len(l.lines) >= 2 && l.rng.Intn(3) == 0 {
			// a comment line longer than any line buffer (64 KiB): the text behind it is still part of the document
			l.lines = append(l.lines, "# "+strings.Repeat("long comment ", 5400))
			l.longDone = true
		}
		for l.coin(6) {
			switch {
			case l.Comments && allowComments && l.rng.Intn(2) == 0:
				l.lines = append(l.lines, strings.Repeat(" ", l.rng.Intn(5))+commentTexts[l.rng.Intn(len(commentTexts))])
			case l.rng.Intn(2) == 0:
				l.lines = append(l.lines, strings.Repeat(" ", l.rng.Intn(4)))
			default:
				l.lines = append(l.lines, "")
			}
		}
	}
	// indentation
	if l.rng == nil {
		l.w(strings.Repeat(" ", indent))
		return
	}
	switch l.rng.Intn(5) {
	case 0:
		// none at all
	case 1:
		if l.Tabs {
			l.w(strings.Repeat("\t", 1+l.rng.Intn(2)))
		} else {
			l.w(strings.Repeat(" ", indent))
		}
	case 2:
		l.w(strings.Repeat(" ", l.rng.Intn(9)))
	default:
		l.w(strings.Repeat(" ", indent))
	}
}

func (l *Layout) String() string {
	all := append(append([]string{}, l.lines...), l.cur.String())
	sep := "\n"
	if l.CRLF {
		sep = "\r\n"
	}
	if l.Mixed {
		// every line end is CRLF or LF on its own (a header saved on one system, a body written on another): runs of
		// LF-only lines between CRLF ones, with whatever comments the layout put there
		mr := rand.New(rand.NewSource(l.mixSeed))
		var b strings.Builder
		run := false
		for i, ln := range all {
			b.WriteString(ln)
			if i == len(all)-1 {
				break
			}
			if mr.Intn(4) == 0 {
				run = !run
			}
			if run {
				b.WriteString("\n")
			} else {
				b.WriteString("\r\n")
			}
		}
		return strings.ReplaceAll(strings.ReplaceAll(b.String(), "\x00\r\n", "\n"), "\x00\n", "\n")
	}
	return strings.ReplaceAll(strings.Join(all, sep), "\x00\r\n", "\n")
}

// ---- grammar rules ----

func (l *Layout) restriction(r Ref, multiline bool) {
	if multiline && l.coin(2) {
		l.nl(6, true)
	}
	l.w(r.Type)
	if r.Wildcard {
		l.w(":*")
	} else if r.Rel != "" {
		l.w("#" + r.Rel)
	}
	if r.Cond != "" {
		l.ws()
		l.w("with")
		l.ws()
		l.w(r.Cond)
	}
	if multiline && l.coin(3) {
		l.nl(4, true)
	}
}

func (l *Layout) direct(rs []Ref) {
	multiline := l.rng != nil && l.Extra && l.rng.Intn(4) == 0
	l.w("[")
	l.ows(false)
	for i, r := range rs {
		if i > 0 {
			l.w(",")
			l.ows(true)
		}
		l.restriction(r, multiline)
		l.ows(false)
	}
	l.w("]")
}

// item: one operand. first = first position of a relationDef (direct assignment allowed)
func (l *Layout) item(u *U, rs []Ref, first bool) {
	wrap := 0
	if l.rng != nil && l.Parens && l.coin(6) {
		wrap = 1 + l.rng.Intn(2)
	}
	isOp := u.Kind == "union" || u.Kind == "inter" || u.Kind == "diff"
	if isOp {
		wrap++
	}
	for i := 0; i < wrap; i++ {
		l.w("(")
		if l.rng != nil && l.Extra && l.coin(5) {
			l.ws()
		}
	}
	switch {
	case isOp:
		l.def(u, rs, first || true && u.CountThis() > 0)
	case u.Kind == "this":
		l.direct(rs)
	case u.Kind == "cu":
		l.w(u.Rel)
	case u.Kind == "ttu":
		l.w(u.Rel)
		l.ws()
		l.w("from")
		l.ws()
		l.w(u.Tupleset)
	}
	for i := 0; i < wrap; i++ {
		if l.rng != nil && l.Extra && l.coin(5) {
			l.ws()
		}
		l.w(")")
	}
}

// def: relationDef / relationDefNoDirect without surrounding parentheses
func (l *Layout) def(u *U, rs []Ref, first bool) {
	switch u.Kind {
	case "union", "inter":
		op := "or"
		if u.Kind == "inter" {
			op = "and"
		}
		for i, c := range u.Children {
			if i > 0 {
				l.ws()
				l.w(op)
				l.ws()
			}
			l.item(c, rs, first && i == 0)
		}
	case "diff":
		l.item(u.Children[0], rs, first)
		l.ws()
		l.w("but not")
		l.ws()
		l.item(u.Children[1], rs, false)
	default:
		l.item(u, rs, first)
	}
}

func (l *Layout) typeDef(t Type) {
	l.nl(0, true)
	if t.Extend {
		l.w("extend")
		l.ws()
	}
	l.w("type")
	l.ws()
	tkey := "type:" + t.Name
	if t.Extend {
		tkey = "ext:" + t.Name
	}
	l.mark(tkey)
	l.w(t.Name)
	if len(t.Rels) == 0 {
		return
	}
	l.nl(2, true)
	l.w("relations")
	for _, r := range t.Rels {
		l.nl(4, true)
		l.w("define")
		l.ws()
		l.mark("rel:" + t.Name + ":" + r.Name)
		l.w(r.Name)
		l.ows(false)
		l.w(":")
		l.ows(true)
		if r.Raw != "" {
			l.w(r.Raw)
		} else {
			l.def(r.Rewrite, r.Restr, true)
		}
	}
}

func (l *Layout) condition(c Cond) {
	l.nl(0, true)
	l.w("condition")
	l.ws()
	l.mark("cond:" + c.Name)
	l.w(c.Name)
	l.ows(false)
	l.w("(")
	l.ows(false)
	for i, p := range c.Params {
		if i > 0 {
			l.w(",")
			l.ows(true)
		}
		l.mark("param:" + c.Name + ":" + p.Name)
		l.w(p.Name)
		l.ows(false)
		l.w(":")
		l.ows(true)
		l.w(p.Type)
		if p.Generic != "" {
			l.w("<" + p.Generic + ">")
		}
		l.ows(false)
	}
	l.w(")")
	l.ows(true)
	l.w("{")
	if l.rng == nil || !l.coin(6) {
		l.nl(2, false)
	} else {
		l.ows(true)
	}
	l.expr(c.Expr)
	if l.rng == nil || !l.coin(6) {
		// the last line of the body may carry a trailing comment; comment *lines* are not put inside a
		// body (they would become blank lines of the expression)
		l.trail(!strings.Contains(lastLine(c.Expr), " #"), false)
		l.nl(0, false)
	}
	l.w("}")
}

// Render writes the model (or module file, when m.Module != "") as DSL.
func Render(m *Model, rng *rand.Rand) (string, int) {
	s, l := RenderL(m, rng)
	return s, l.sites
}

// RenderL also returns the layout (for the declaration marks).
func RenderL(m *Model, rng *rand.Rand) (string, *Layout) {
	l := NewLayout(rng)
	if rng != nil {
		// leading blank / comment lines
		for l.coin(5) {
			if l.Comments && rng.Intn(2) == 0 {
				l.lines = append(l.lines, commentTexts[rng.Intn(len(commentTexts))])
			} else {
				l.lines = append(l.lines, strings.Repeat(" ", rng.Intn(3)))
			}
		}
	}
	if m.RawHeader != "" {
		l.w(m.RawHeader)
	} else if m.Module != "" {
		l.w("module")
		l.ws()
		l.w(m.Module)
	} else {
		l.w("model")
		l.nl(2, true)
		l.w("schema")
		l.ws()
		l.w(m.Schema)
	}
	if rng == nil && len(m.Types) > 0 {
		l.lines = append(l.lines, l.cur.String())
		l.cur.Reset()
	}
	for i, t := range m.Types {
		if rng == nil && i > 0 {
			l.lines = append(l.lines, l.cur.String())
			l.cur.Reset()
		}
		l.typeDef(t)
	}
	for _, c := range m.Conds {
		if rng == nil {
			l.lines = append(l.lines, l.cur.String())
			l.cur.Reset()
		}
		l.condition(c)
	}
	// trailing newlines / comments
	if rng == nil {
		l.nl(0, false)
	} else {
		// the last code line can carry trailing blanks and a comment too (no tab: no NEWLINE follows)
		l.trail(true, false)
		for l.coin(2) {
			if l.Comments && rng.Intn(2) == 0 {
				l.lines = append(l.lines, l.cur.String())
				l.cur.Reset()
				l.w(commentTexts[rng.Intn(len(commentTexts))])
			} else {
				l.lines = append(l.lines, l.cur.String())
				l.cur.Reset()
			}
		}
	}
	// leading lines shift the marks
	return l.String(), l
}
