package main

import (
	"math/rand"
	"strconv"
	"strings"

	openfgav1 "github.com/openfga/api/proto/openfga/v1"
	"github.com/openfga/language/pkg/go/transformer"
	"github.com/openfga/language/pkg/go/utils"
)

type mergeErr struct {
	Syn            bool
	Msg, File      string
	LS, LE, CS, CE int
}

type mergeRes struct {
	Out   string // canonical outcome
	Model *openfgav1.AuthorizationModel
	Errs  []mergeErr
	Panic string
	Other string
	Frame string // non-empty: the call changed the slice of files it was given
}

// realMerge runs the real TransformModuleFilesToModel.
func realMerge(names, texts []string, schema string) (out mergeRes) {
	files := make([]transformer.ModuleFile, len(names))
	for i := range names {
		files[i] = transformer.ModuleFile{Name: names[i], Contents: texts[i]}
	}
	var m *openfgav1.AuthorizationModel
	var err error
	if p := safely(func() { m, err = transformer.TransformModuleFilesToModel(files, schema) }); p != "" {
		return mergeRes{Out: L("panic", Q(p)), Panic: p}
	}
	// the slice of files belongs to the caller: names and contents must be what was passed in
	frame := ""
	for i := range files {
		if files[i].Name != names[i] || files[i].Contents != texts[i] {
			frame = "TransformModuleFilesToModel modified element " + strconv.Itoa(i) + " (" + names[i] + ") of the slice of module files it was given"
			break
		}
	}
	defer func() { out.Frame = frame }()
	if err == nil {
		return mergeRes{Out: L("ok", canonModel(m)), Model: m}
	}
	me, ok := err.(*transformer.ModuleValidationMultipleError)
	if !ok {
		return mergeRes{Out: L("err", "other", Q(err.Error())), Other: err.Error()}
	}
	items := []string{"errors"}
	res := mergeRes{}
	for _, e := range me.Errors {
		switch x := e.(type) {
		case *transformer.ModuleTransformationSingleError:
			items = append(items, L("mod", Q(x.Msg), Q(x.File), strconv.Itoa(x.Line.Start), strconv.Itoa(x.Line.End), strconv.Itoa(x.Column.Start), strconv.Itoa(x.Column.End)))
			res.Errs = append(res.Errs, mergeErr{false, x.Msg, x.File, x.Line.Start, x.Line.End, x.Column.Start, x.Column.End})
		default:
			if mm := reSynErr.FindStringSubmatch(e.Error()); mm != nil {
				l, _ := strconv.Atoi(mm[1])
				c, _ := strconv.Atoi(mm[2])
				items = append(items, L("syn", mm[1], mm[2], Q(mm[3])))
				res.Errs = append(res.Errs, mergeErr{Syn: true, Msg: mm[3], LS: l, CS: c})
			} else {
				items = append(items, L("other", Q(e.Error())))
				res.Errs = append(res.Errs, mergeErr{Msg: e.Error()})
			}
		}
	}
	if m != nil {
		items = append(items, "model-not-nil")
	}
	res.Out = L(items...)
	return res
}

func mergeOp(names, texts []string, schema string) string {
	files := []string{}
	for i := range names {
		cleaned := harnessClean(texts[i])
		tree, _, errs := parseTree(cleaned)
		files = append(files, L("file", Q(names[i]), Q(texts[i]), Q(cleaned), tree, canonErrs(errs)))
	}
	return L("merge", Q(schema), L(files...))
}

// mergeWFOp asks the Lean driver whether the parsed files meet the hypothesis `FilesWF` of the merge
// theorems (Props/C07.lean); the expected answer is always "(wf true)".
func mergeWFOp(names, texts []string) string {
	op := mergeOp(names, texts, "")
	return "(merge-wf " + strings.TrimPrefix(op, "(merge \"\" ")
}

// c07Check: verdict, conservation and attribution for one module set.
func c07Check(c *Ctx, ms *ModSet, schema string, stream string) mergeRes {
	c.R.Evaluations++
	res := realMerge(ms.Names, ms.Texts, schema)
	if res.Frame != "" {
		c.OracleFail("c07:frame", map[string]any{"names": ms.Names, "texts": ms.Texts}, res.Frame, "")
	}
	input := map[string]any{"files": filesInput(ms), "conflicts": ms.Conflicts, "schema": schema}
	c.D.Add("corr:merge/"+stream, mergeOp(ms.Names, ms.Texts, schema), res.Out, input)
	c.D.Add("hyp:FilesWF/"+stream, mergeWFOp(ms.Names, ms.Texts), "(wf true)", input)
	fail := func(detail string) { c.OracleFail("c07:"+stream, input, detail, res.Out) }
	if res.Panic != "" {
		fail("merge panicked: " + res.Panic)
		return res
	}
	conflictFree := len(ms.Conflicts) == 0
	if len(ms.Conflicts) == 0 {
		c.Dist("conflict_free_sets")
	}
	for _, cf := range ms.Conflicts {
		c.Dist("conflict:" + cf.Kind)
	}
	if (res.Model != nil) != conflictFree {
		fail("merge success (" + B(res.Model != nil) + ") differs from conflict-freedom (" + B(conflictFree) + ")")
		return res
	}
	if !conflictFree {
		if strings.Contains(res.Out, "model-not-nil") {
			fail("a partial model is returned together with the errors")
		}
		onlyPlainFiles := true
		for _, cf := range ms.Conflicts {
			onlyPlainFiles = onlyPlainFiles && cf.Kind == "not-a-module"
		}
		for _, cf := range ms.Conflicts {
			// several files that are not modules do not mask each other: each is reported under its own name
			if cf.Kind == "syntax" || (len(ms.Conflicts) > 1 && !onlyPlainFiles) {
				// ANTLR errors carry no file; with several simultaneous conflicts one may mask another
				// (a file that does not parse contributes nothing), so only the verdict is demanded
				continue
			}
			named := false
			for _, e := range res.Errs {
				if !e.Syn && (e.File == ms.Names[cf.File] || (cf.Alt >= 0 && e.File == ms.Names[cf.Alt])) {
					named = true
				}
			}
			if !named {
				fail("no error names the offending file " + ms.Names[cf.File] + " (" + cf.Kind + " " + cf.What + ")")
			}
		}
		c.Nontrivial(res.Out)
		return res
	}
	// the result is a function of the files given: merging the same files again, and merging only the
	// files that define types (the extending files left out), must not see anything of the first merge
	if again := realMerge(ms.Names, ms.Texts, schema); again.Out != res.Out {
		c.OracleFail("c07:"+stream+"/again", map[string]any{"files": filesInput(ms), "first": res.Out, "second": again.Out},
			"merging the same files a second time gives a different result", again.Out)
		return res
	}
	if len(ms.Files) > 1 {
		var names, texts []string
		for i, f := range ms.Files {
			ext := false
			for _, t := range f.Types {
				if t.Extend {
					ext = true
				}
			}
			if !ext {
				names = append(names, ms.Names[i])
				texts = append(texts, ms.Texts[i])
			}
		}
		if len(names) > 0 && len(names) < len(ms.Names) {
			sub := realMerge(names, texts, schema)
			c.D.Add("corr:merge/"+stream+"-without-extensions", mergeOp(names, texts, schema), sub.Out, map[string]any{"names": names})
			if sub.Model != nil {
				for _, td := range sub.Model.GetTypeDefinitions() {
					for rel := range td.GetRelations() {
						declared := false
						for _, t := range texts {
							if strings.Contains(t, rel) {
								declared = true
							}
						}
						if !declared {
							c.OracleFail("c07:"+stream+"/invented", map[string]any{"files": filesInput(ms), "merged_subset": names, "type": td.GetType(), "relation": rel},
								"the merge of a subset of the files contains a relation none of them declares (left over from an earlier merge)", sub.Out)
							return res
						}
					}
				}
			}
			c.Dist("subset_merges")
		}
	}
	// conservation + attribution
	exp := *ms.Expected
	exp.Schema = schema
	want := canonModel(exp.Proto())
	got := canonModel(res.Model)
	if want != got {
		c.OracleFail("c07:"+stream, map[string]any{"files": filesInput(ms), "want": want, "got": got}, "merged model is not the attributed union of the declarations", res.Out)
		return res
	}
	for _, td := range res.Model.GetTypeDefinitions() {
		for rel := range td.GetRelations() {
			mod, err := utils.GetModuleForObjectTypeRelation(td, rel)
			if err != nil || mod != ms.RelModule[td.GetType()+"#"+rel] {
				fail("GetModuleForObjectTypeRelation(" + td.GetType() + ", " + rel + ") = " + mod + ", want " + ms.RelModule[td.GetType()+"#"+rel])
			}
		}
	}
	if len(ms.Files) > 1 {
		c.Nontrivial(got)
	}
	return res
}

func filesInput(ms *ModSet) []map[string]string {
	out := []map[string]string{}
	for i := range ms.Names {
		out = append(out, map[string]string{"name": ms.Names[i], "contents": ms.Texts[i]})
	}
	return out
}

func init() {
	props["C07"] = func(c *Ctx) {
		c.R.Rule = "a generated source model split over 1-4 module files (several files extending one type, types without relations, base defined after its extension, " +
			"define+extend in one file), half of the sets with 1-3 injected conflicts (duplicate type, duplicate condition, missing extension target, relation clash with the base or between " +
			"two extensions, non-module file, syntax error), random layouts, random schema version; oracles on the real merger: success <=> conflict-free, never a panic or partial model, " +
			"an error names each offending file, on success result == attributed union (types, relations, rewrites, conditions, module/file attribution) and GetModuleForObjectTypeRelation " +
			"agrees; correspondence: real merger vs Lean port. non-trivial = distinct multi-file success or distinct error list"
		rng := rand.New(rand.NewSource(c.Seed))
		n := c.Pick(800, 20000)
		for i := 0; i < n; i++ {
			nc := 0
			if rng.Intn(2) == 0 {
				nc = 1 + rng.Intn(3)
				if rng.Intn(3) > 0 {
					nc = 1
				}
			}
			ms := GenModSet(rng, nc)
			ms.Render(rng)
			schema := []string{"1.2", "1.2", "1.1", "", "9.9-x"}[rng.Intn(5)]
			c07Check(c, ms, schema, "generated")
		}
		ms := GenModSet(rand.New(rand.NewSource(5)), 0)
		ms.Render(nil)
		c.Sample(map[string]any{"files": filesInput(ms)})
	}
}
