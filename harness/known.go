package main

import (
	"encoding/json"
	"os"
)

// KnownFindings mirrors /verif/known_findings.json (committed; never written at run time).
type KnownFinding struct {
	ID        string `json:"id"`
	Property  string `json:"property"`
	Status    string `json:"status"` // "open" | "fixed"
	Signature string `json:"signature"`
	What      string `json:"what"`
	Witness   any    `json:"witness"`
	Commit    string `json:"commit,omitempty"`
}

type KnownFindings struct {
	Findings []KnownFinding `json:"findings"`
}

func LoadKnown(path string) *KnownFindings {
	k := &KnownFindings{}
	b, err := os.ReadFile(path)
	if err != nil {
		return k
	}
	_ = json.Unmarshal(b, k)
	return k
}

// Open reports whether finding id is listed as open for the property being checked.
func (k *KnownFindings) Open(id string) bool {
	for _, f := range k.Findings {
		if f.ID == id && f.Status == "open" {
			return true
		}
	}
	return false
}
