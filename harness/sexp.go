package main

import (
	"fmt"
	"strings"
)

// Q quotes a string for the S-expression protocol (escapes: \\ \" \n \r \t \u{hex}).
func Q(s string) string {
	var b strings.Builder
	b.WriteByte('"')
	for _, r := range s {
		switch {
		case r == '"':
			b.WriteString(`\"`)
		case r == '\\':
			b.WriteString(`\\`)
		case r == '\n':
			b.WriteString(`\n`)
		case r == '\r':
			b.WriteString(`\r`)
		case r == '\t':
			b.WriteString(`\t`)
		case r < 32 || r == 127:
			fmt.Fprintf(&b, `\u{%x}`, r)
		default:
			b.WriteRune(r)
		}
	}
	b.WriteByte('"')
	return b.String()
}

// L builds a list.
func L(items ...string) string { return "(" + strings.Join(items, " ") + ")" }

func B(b bool) string {
	if b {
		return "true"
	}
	return "false"
}
