package main

import (
	"fmt"
	"math/rand"
	"sort"
)

// A generated set of module files together with what the merge must return.
type ModSet struct {
	Files     []*Model          // module files (Model.Module set), in list order
	Names     []string          // file names
	Conflicts []Conflict        // injected conflicts (empty: conflict-free)
	Expected  *Model            // attributed union (only meaningful when conflict-free)
	Texts     []string          // rendered contents
	Layouts   []*Layout         // marks
	RelModule map[string]string // "type#rel" -> module GetModuleForObjectTypeRelation must return
}

type Conflict struct {
	Kind string // dup-type | dup-cond | missing-target | rel-clash | not-a-module | syntax
	Alt  int    // rel-clash between two extensions: the other file that may be named instead (-1: none)
	File int    // index of the file that must be named
	Key  string // mark key of the offending declaration in that file ("" if none)
	What string
}

// ModSetDupNames: module sets may contain two files of the same name (set by C12 only: positions and
// attribution by file name are ambiguous then, so the checks that compare those keep names distinct)
var ModSetDupNames = false

// GenModSet splits a generated source model over 1..4 files and optionally injects conflicts.
func GenModSet(rng *rand.Rand, nConflicts int) *ModSet {
	src := GenModel(rng, GenOpts{DSLValid: true, Conds: true, MaxDepth: 1 + rng.Intn(3), MaxTypes: 5, MaxRels: 4})
	nf := 1 + rng.Intn(4)
	if rng.Intn(12) == 0 {
		nf = 13 + rng.Intn(4) // more than a dozen files
	}
	ms := &ModSet{RelModule: map[string]string{}}
	modNames := []string{"core", "wiki", "billing", "a-b", "type"}
	for i := 0; i < nf; i++ {
		mod := modNames[rng.Intn(len(modNames))]
		if rng.Intn(2) == 0 {
			mod = modNames[i%len(modNames)]
		}
		ms.Files = append(ms.Files, &Model{Module: mod})
		name := fmt.Sprintf("%s/f%d.fga", mod, i)
		if rng.Intn(10) == 0 {
			name = fmt.Sprintf("%s/f%d%%s%%d.fga", mod, i) // a '%' in a file name: text, never a format string
		}
		ms.Names = append(ms.Names, name)
	}
	if ModSetDupNames && nf >= 2 && rng.Intn(4) == 0 {
		// two files of the list carry the same name (callers passing base names): nothing may depend on names being unique
		i := rng.Intn(nf)
		j := (i + 1 + rng.Intn(nf-1)) % nf
		ms.Names[j] = ms.Names[i]
	}
	if rng.Intn(6) == 0 { // shuffle names so that name order != list order
		rng.Shuffle(len(ms.Names), func(i, j int) { ms.Names[i], ms.Names[j] = ms.Names[j], ms.Names[i] })
	}
	exp := &Model{}
	type ext struct {
		file int
		rels []Rel
	}
	expTypes := map[int][]Type{} // file -> base types in order
	extsOf := map[string][]ext{}
	for _, t := range src.Types {
		home := rng.Intn(nf)
		base := Type{Name: t.Name}
		byFile := map[int][]Rel{}
		for _, r := range t.Rels {
			if rng.Intn(3) == 0 {
				f := rng.Intn(nf)
				byFile[f] = append(byFile[f], r)
			} else {
				base.Rels = append(base.Rels, r)
			}
		}
		expTypes[home] = append(expTypes[home], base)
		files := []int{}
		for f := range byFile {
			files = append(files, f)
		}
		sort.Ints(files)
		for _, f := range files {
			extsOf[t.Name] = append(extsOf[t.Name], ext{f, byFile[f]})
		}
	}
	// lay the declarations out in the files: base types, then extensions (position random)
	for f := 0; f < nf; f++ {
		for _, bt := range expTypes[f] {
			ms.Files[f].Types = append(ms.Files[f].Types, bt)
		}
	}
	for _, t := range src.Types {
		for _, e := range extsOf[t.Name] {
			et := Type{Name: t.Name, Extend: true, Rels: e.rels}
			fl := ms.Files[e.file]
			pos := rng.Intn(len(fl.Types) + 1)
			fl.Types = append(fl.Types[:pos], append([]Type{et}, fl.Types[pos:]...)...)
		}
	}
	// bare `extend type T` blocks (no relations): legal, contribute nothing - also next to a
	// relation-less definition of T in the same file
	for _, t := range src.Types {
		if rng.Intn(5) != 0 {
			continue
		}
		f := rng.Intn(nf)
		if rng.Intn(2) == 0 && ms.fileOfType(t.Name) >= 0 {
			f = ms.fileOfType(t.Name)
		}
		already := false
		for _, x := range ms.Files[f].Types {
			if x.Extend && x.Name == t.Name {
				already = true
			}
		}
		if already {
			continue
		}
		fl := ms.Files[f]
		pos := rng.Intn(len(fl.Types) + 1)
		fl.Types = append(fl.Types[:pos], append([]Type{{Name: t.Name, Extend: true}}, fl.Types[pos:]...)...)
	}
	for _, cd := range src.Conds {
		f := rng.Intn(nf)
		ms.Files[f].Conds = append(ms.Files[f].Conds, cd)
	}
	// expected attributed union
	for f := 0; f < nf; f++ {
		for _, bt := range ms.Files[f].Types {
			if bt.Extend {
				continue
			}
			et := Type{Name: bt.Name, Module: ms.Files[f].Module, File: ms.Names[f]}
			baseEmpty := len(bt.Rels) == 0
			for _, r := range bt.Rels {
				nr := Rel{Name: r.Name, Rewrite: r.Rewrite, Restr: r.Restr}
				if r.Rewrite.CountThis() == 0 {
					nr.Restr = nil
				}
				et.Rels = append(et.Rels, nr)
				ms.RelModule[bt.Name+"#"+r.Name] = ms.Files[f].Module
			}
			_ = baseEmpty
			for _, e := range extsOf[bt.Name] {
				for _, r := range e.rels {
					nr := Rel{Name: r.Name, Rewrite: r.Rewrite, Restr: r.Restr, Module: ms.Files[e.file].Module, File: ms.Names[e.file]}
					if r.Rewrite.CountThis() == 0 {
						nr.Restr = nil
					}
					et.Rels = append(et.Rels, nr)
					ms.RelModule[bt.Name+"#"+r.Name] = ms.Files[e.file].Module
				}
			}
			exp.Types = append(exp.Types, et)
		}
	}
	for f := 0; f < nf; f++ {
		for _, cd := range ms.Files[f].Conds {
			exp.Conds = append(exp.Conds, Cond{Name: cd.Name, Expr: cd.Expr, Params: cd.Params, Module: ms.Files[f].Module, File: ms.Names[f]})
		}
	}
	ms.Expected = exp
	for i := 0; i < nConflicts; i++ {
		ms.inject(rng)
	}
	return ms
}

func (ms *ModSet) fileOfType(name string) int {
	for f, fl := range ms.Files {
		for _, t := range fl.Types {
			if !t.Extend && t.Name == name {
				return f
			}
		}
	}
	return -1
}

// inject adds one conflict (always at the end of a file's list so that occurrence indices of
// earlier declarations stay valid).
func (ms *ModSet) inject(rng *rand.Rand) {
	nf := len(ms.Files)
	allTypes := []string{}
	for _, fl := range ms.Files {
		for _, t := range fl.Types {
			if !t.Extend {
				allTypes = append(allTypes, t.Name)
			}
		}
	}
	countDecl := func(f int, name string, extend bool) int {
		n := 0
		for _, t := range ms.Files[f].Types {
			if t.Name == name && t.Extend == extend {
				n++
			}
		}
		return n
	}
	for tries := 0; tries < 20; tries++ {
		switch rng.Intn(7) {
		case 0: // duplicate type: define an existing type again in a (later or the same) file
			if len(allTypes) == 0 {
				continue
			}
			name := allTypes[rng.Intn(len(allTypes))]
			home := ms.fileOfType(name)
			f := home + rng.Intn(nf-home)
			occ := countDecl(f, name, false)
			ms.Files[f].Types = append(ms.Files[f].Types, Type{Name: name})
			ms.Conflicts = append(ms.Conflicts, Conflict{"dup-type", -1, f, fmt.Sprintf("type:%s#%d", name, occ), name})
			return
		case 1: // duplicate condition in a later file (or the same file -> listener error)
			var cf, ci = -1, -1
			for f, fl := range ms.Files {
				if len(fl.Conds) > 0 {
					cf, ci = f, rng.Intn(len(fl.Conds))
					break
				}
			}
			if cf < 0 || cf == nf-1 {
				continue
			}
			f := cf + 1 + rng.Intn(nf-cf-1)
			cd := ms.Files[cf].Conds[ci]
			for _, e := range ms.Files[f].Conds {
				if e.Name == cd.Name {
					cd.Name = ""
				}
			}
			if cd.Name == "" {
				continue
			}
			if rng.Intn(2) == 0 {
				// the second declaration says something else (were it silently accepted, which one wins would show)
				cd.Expr = []string{"1 == 2", "x != y", "!(x)"}[rng.Intn(3)]
			}
			if rng.Intn(3) == 0 {
				// ... in a file of the same module as the first declaration
				ms.Files[f].Module = ms.Files[cf].Module
			}
			if ModSetDupNames && rng.Intn(3) == 0 {
				// two duplicate conditions in one file whose names are prefixes of each other, the longer declared
				// first (C12 only: several errors for one file, in an order no text position can settle)
				long := cd
				long.Name = cd.Name + []string{"_strict", "2", "x"}[rng.Intn(3)]
				long.Key = long.Name
				taken := false
				for _, fl := range ms.Files {
					for _, e := range fl.Conds {
						if e.Name == long.Name {
							taken = true
						}
					}
				}
				if !taken {
					first := ms.Files[cf].Conds[ci]
					first.Name, first.Key = long.Name, long.Name
					ms.Files[cf].Conds = append(ms.Files[cf].Conds, first)
					ms.Files[f].Conds = append(ms.Files[f].Conds, long)
					ms.Conflicts = append(ms.Conflicts, Conflict{"dup-cond", -1, f, fmt.Sprintf("cond:%s#0", long.Name), long.Name})
				}
			}
			ms.Files[f].Conds = append(ms.Files[f].Conds, cd)
			ms.Conflicts = append(ms.Conflicts, Conflict{"dup-cond", -1, f, fmt.Sprintf("cond:%s#0", cd.Name), cd.Name})
			return
		case 2: // extension of a type that no file defines
			f := rng.Intn(nf)
			name := "ghost" + itoa(len(ms.Conflicts))
			occ := countDecl(f, name, true)
			ms.Files[f].Types = append(ms.Files[f].Types, Type{Name: name, Extend: true, Rels: []Rel{{Name: "r", Rewrite: CU("r")}}})
			ms.Conflicts = append(ms.Conflicts, Conflict{"missing-target", -1, f, fmt.Sprintf("ext:%s#%d", name, occ), name})
			return
		case 3: // relation clash: an extension contributes a relation the type already has
			cands := [][2]string{}
			for _, fl := range ms.Files {
				for _, t := range fl.Types {
					if !t.Extend {
						for _, r := range t.Rels {
							cands = append(cands, [2]string{t.Name, r.Name})
						}
					}
				}
			}
			if len(cands) == 0 {
				continue
			}
			c := cands[rng.Intn(len(cands))]
			f := rng.Intn(nf)
			if countDecl(f, c[0], true) > 0 {
				continue // a file may extend a type only once
			}
			occ := 0
			for _, t := range ms.Files[f].Types {
				if t.Name == c[0] {
					for _, r := range t.Rels {
						if r.Name == c[1] {
							occ++
						}
					}
				}
			}
			clash := []Rel{{Name: c[1], Rewrite: CU("zz")}}
			ms.Conflicts = append(ms.Conflicts, Conflict{Kind: "rel-clash", Alt: -1, File: f, Key: fmt.Sprintf("rel:%s:%s#%d", c[0], c[1], occ), What: c[0] + "#" + c[1]})
			// a type of the extending file, declared below the extension block, whose name extends the extended
			// type's name (and may have a relation of the clashing name): lookups by text must not land there
			addBelow := ""
			if rng.Intn(4) == 0 {
				addBelow = c[0] + "_more"
				for _, fl := range ms.Files {
					for _, t := range fl.Types {
						if t.Name == addBelow {
							addBelow = ""
						}
					}
				}
			}
			defer func(f int, name, rel string) {
				if name == "" {
					return
				}
				t := Type{Name: name}
				if rng.Intn(2) == 0 {
					t.Rels = []Rel{{Name: rel, Rewrite: This(), Restr: []Ref{{Type: name}}}}
				}
				ms.Files[f].Types = append(ms.Files[f].Types, t)
			}(f, addBelow, c[1])
			// several clashes in the one extension block (their errors must come out in a fixed order)
			if rng.Intn(2) == 0 {
				for _, o := range cands {
					if o[0] == c[0] && o[1] != c[1] && len(clash) < 4 && occ == 0 && ms.fileOfType(c[0]) != f {
						dup := false
						for _, r := range clash {
							if r.Name == o[1] {
								dup = true
							}
						}
						if dup {
							continue
						}
						clash = append(clash, Rel{Name: o[1], Rewrite: CU("zz")})
						ms.Conflicts = append(ms.Conflicts, Conflict{Kind: "rel-clash", Alt: -1, File: f, Key: fmt.Sprintf("rel:%s:%s#%d", c[0], o[1], 0), What: c[0] + "#" + o[1]})
					}
				}
				rng.Shuffle(len(clash), func(i, j int) { clash[i], clash[j] = clash[j], clash[i] })
			}
			ms.Files[f].Types = append(ms.Files[f].Types, Type{Name: c[0], Extend: true, Rels: clash})
			return
		case 6: // relation clash between two extensions of one type (both add the same new relation)
			type er struct {
				f    int
				t, r string
			}
			cands := []er{}
			for f, fl := range ms.Files {
				for _, t := range fl.Types {
					if t.Extend {
						for _, r := range t.Rels {
							cands = append(cands, er{f, t.Name, r.Name})
						}
					}
				}
			}
			if len(cands) == 0 || nf < 2 {
				continue
			}
			c := cands[rng.Intn(len(cands))]
			f := rng.Intn(nf)
			if f == c.f || countDecl(f, c.t, true) > 0 || ms.fileOfType(c.t) < 0 {
				continue
			}
			occ := 0
			for _, t := range ms.Files[f].Types {
				if t.Name == c.t {
					for _, r := range t.Rels {
						if r.Name == c.r {
							occ++
						}
					}
				}
			}
			ms.Files[f].Types = append(ms.Files[f].Types, Type{Name: c.t, Extend: true, Rels: []Rel{{Name: c.r, Rewrite: CU("zz")}}})
			ms.Conflicts = append(ms.Conflicts, Conflict{Kind: "rel-clash", Alt: c.f, File: f, Key: fmt.Sprintf("rel:%s:%s#%d", c.t, c.r, occ), What: c.t + "#" + c.r})
			return
		case 4: // a non-module file
			f := rng.Intn(nf)
			if len(ms.Files[f].Types) == 0 && len(ms.Files[f].Conds) == 0 {
				continue
			}
			hasExt := false
			for _, t := range ms.Files[f].Types {
				if t.Extend {
					hasExt = true
				}
			}
			if hasExt {
				continue // `extend` in a model file is a syntax error: a different kind
			}
			ms.Files[f].Module = ""
			ms.Files[f].Schema = "1.1"
			ms.Conflicts = append(ms.Conflicts, Conflict{"not-a-module", -1, f, "", ms.Names[f]})
			// sometimes a second one in the same list: every such file is reported under its own name
			if g := rng.Intn(nf); g != f && rng.Intn(2) == 0 && ms.Files[g].Module != "" && len(ms.Files[g].Types)+len(ms.Files[g].Conds) > 0 {
				ext := false
				for _, t := range ms.Files[g].Types {
					ext = ext || t.Extend
				}
				if !ext {
					ms.Files[g].Module = ""
					ms.Files[g].Schema = "1.1"
					ms.Conflicts = append(ms.Conflicts, Conflict{"not-a-module", -1, g, "", ms.Names[g]})
				}
			}
			return
		case 5: // syntax error
			f := rng.Intn(nf)
			ms.Files[f].Types = append(ms.Files[f].Types, Type{Name: "broken", Rels: []Rel{{Name: "r", Raw: "a or b and c"}}})
			ms.Conflicts = append(ms.Conflicts, Conflict{"syntax", -1, f, "", ms.Names[f]})
			return
		}
	}
}

func (ms *ModSet) Render(rng *rand.Rand) {
	ms.Texts = nil
	ms.Layouts = nil
	for _, f := range ms.Files {
		var lay *rand.Rand
		if rng != nil && rng.Intn(2) == 0 {
			lay = rand.New(rand.NewSource(rng.Int63()))
		}
		t, l := RenderL(f, lay)
		ms.Texts = append(ms.Texts, t)
		ms.Layouts = append(ms.Layouts, l)
	}
}
