package main

import (
	"fmt"
	"strconv"
	"strings"

	"github.com/openfga/language/pkg/go/graph"
)

// An independent derivation of the weighted graph's edges from the model, straight from the
// statement of C10: a relation points to its operator or single operand; operators point to their
// operands in source order (subtract operand last); a direct assignment yields one direct edge per
// distinct target with the ordered set of its condition names ("none" for unconditioned); a computed
// userset yields one computed/rewrite edge; a TTU yields one TTU edge per (distinct) parent type of
// the tupleset labelled type#tupleset.  Operator nodes are named T#r@k (preorder ordinal).

type edgeSpec struct {
	To    string
	Kind  int // 0 direct 1 rewrite 2 ttu 3 computed
	TS    string
	Conds []string
}

func (e edgeSpec) String() string {
	return fmt.Sprintf("(%s %d %s (%s))", Q(e.To), e.Kind, Q(e.TS), strings.Join(quoteEach(e.Conds), " "))
}

func quoteEach(xs []string) []string {
	out := make([]string, len(xs))
	for i, x := range xs {
		out[i] = Q(x)
	}
	return out
}

// expectedWEdges returns node name -> ordered edges, or "" key absent when the model has a builder error.
func expectedWEdges(m *Model) (map[string][]edgeSpec, bool) {
	out := map[string][]edgeSpec{}
	ok := true
	relsOf := func(t *Type, name string) *Rel {
		for i := range t.Rels {
			if t.Rels[i].Name == name {
				return &t.Rels[i]
			}
		}
		return nil
	}
	typeHas := func(tn, rel string) bool {
		for i := range m.Types {
			if m.Types[i].Name == tn && relsOf(&m.Types[i], rel) != nil {
				return true
			}
		}
		return false
	}
	upsert := func(list []edgeSpec, e edgeSpec, cond string) []edgeSpec {
		if cond == "" {
			cond = "none"
		}
		for i := range list {
			if list[i].To == e.To && list[i].Kind == e.Kind && list[i].TS == e.TS {
				for _, c := range list[i].Conds {
					if c == cond {
						return list
					}
				}
				list[i].Conds = append(list[i].Conds, cond)
				return list
			}
		}
		e.Conds = []string{cond}
		return append(list, e)
	}
	for ti := range m.Types {
		t := &m.Types[ti]
		for ri := range t.Rels {
			rel := &t.Rels[ri]
			rname := t.Name + "#" + rel.Name
			ctr := 0
			var walk func(parent string, parentIsRel bool, u *U)
			walk = func(parent string, parentIsRel bool, u *U) {
				switch u.Kind {
				case "this":
					if t.MetaNil || rel.NoMeta {
						return
					}
					for _, r := range rel.Restr {
						out[parent] = upsert(out[parent], edgeSpec{To: refTargetKey(r), Kind: 0}, r.Cond)
					}
				case "cu":
					k := 1
					if parentIsRel {
						k = 3
					}
					out[parent] = append(out[parent], edgeSpec{To: t.Name + "#" + u.Rel, Kind: k, Conds: []string{"none"}})
				case "ttu":
					ts := relsOf(t, u.Tupleset)
					if ts == nil || t.MetaNil || ts.NoMeta || len(ts.Restr) == 0 {
						ok = false
						return
					}
					for _, r := range ts.Restr {
						if !typeHas(r.Type, u.Rel) {
							ok = false
							return
						}
						e := edgeSpec{To: r.Type + "#" + u.Rel, Kind: 2, TS: t.Name + "#" + u.Tupleset}
						// one edge per parent type; conditions are those of the first occurrence only
						dup := false
						for _, x := range out[parent] {
							if x.To == e.To && x.Kind == 2 && x.TS == e.TS {
								dup = true
							}
						}
						if !dup {
							out[parent] = upsert(out[parent], e, r.Cond)
						}
					}
				case "union", "inter", "diff":
					name := fmt.Sprintf("%s@%d", rname, ctr)
					ctr++
					out[parent] = append(out[parent], edgeSpec{To: name, Kind: 1, Conds: []string{"none"}})
					for _, c := range u.Children {
						walk(name, false, c)
					}
				}
			}
			walk(rname, true, rel.Rewrite)
		}
	}
	return out, ok
}

// c10Oracle compares the real structure dump with the independent expectation.
func c10Oracle(c *Ctx, m *Model, canon, structDump string) {
	exp, ok := expectedWEdges(m)
	if !ok {
		return
	}
	x := parseSX(structDump)
	if x.Head() != "wg" {
		return
	}
	// node kinds: the node of a declared type is a type node, whatever restriction list mentioned it first
	typeNames := map[string]bool{}
	for _, t := range m.Types {
		typeNames[t.Name] = true
	}
	for _, n := range x.List[1].List[1:] {
		if len(n.List) == 3 && typeNames[n.List[0].Atom] && !strings.ContainsAny(n.List[0].Atom, "#:@") && n.List[2].Atom != strconv.Itoa(int(graph.SpecificType)) {
			c.OracleFail("c10:node-kind", map[string]any{"model": canon, "node": n.List[0].Atom, "kind": n.List[2].Atom},
				"the node of the declared type "+n.List[0].Atom+" is not a type node", "")
			return
		}
	}
	real := map[string]string{}
	for _, e := range x.List[2].List[1:] {
		from := e.List[0].Atom
		parts := []string{}
		for _, ed := range e.List[1:] {
			conds := []string{}
			for _, cd := range ed.List[3].List {
				conds = append(conds, cd.Atom)
			}
			var k int
			fmt.Sscan(ed.List[1].Atom, &k)
			parts = append(parts, edgeSpec{To: ed.List[0].Atom, Kind: k, TS: ed.List[2].Atom, Conds: conds}.String())
		}
		real[from] = strings.Join(parts, " ")
	}
	for from, es := range exp {
		parts := []string{}
		for _, e := range es {
			parts = append(parts, e.String())
		}
		want := strings.Join(parts, " ")
		if real[from] != want {
			c.OracleFail("c10:edges", map[string]any{"model": canon, "node": from, "expected_edges": want, "real_edges": real[from]},
				"the edges of node "+from+" do not correspond one-to-one to the rewrite", "")
			return
		}
	}
	for from := range real {
		if _, ok := exp[from]; !ok && real[from] != "" {
			c.OracleFail("c10:edges", map[string]any{"model": canon, "node": from, "real_edges": real[from]}, "node "+from+" has edges the rewrite does not dictate", "")
			return
		}
	}
}
