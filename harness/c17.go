package main

import (
	"fmt"
	"math/rand"
	"reflect"
	"sort"
	"strconv"
	"strings"

	openfgav1 "github.com/openfga/api/proto/openfga/v1"
	"github.com/openfga/language/pkg/go/graph"
	gg "gonum.org/v1/gonum/graph"
	"gonum.org/v1/gonum/graph/multi"
)

type pline struct {
	src, dst, id int64
	et           int
	ts           string
}

// dumpPGraph canonicalises the observable structure of a plain graph (DOT order of lines).
func dumpPGraph(g *graph.AuthorizationModelGraph) (string, []*graph.AuthorizationModelNode, []pline) {
	nodes := []*graph.AuthorizationModelNode{}
	it := g.Nodes()
	for it.Next() {
		nodes = append(nodes, it.Node().(*graph.AuthorizationModelNode))
	}
	sort.Slice(nodes, func(i, j int) bool { return nodes[i].ID() < nodes[j].ID() })
	ns := []string{}
	for _, n := range nodes {
		ns = append(ns, L(strconv.FormatInt(n.ID(), 10), Q(n.Label()), strconv.Itoa(int(n.NodeType()))))
	}
	lines := []pline{}
	ei := g.Edges()
	for ei.Next() {
		e := ei.Edge().(multi.Edge)
		li := e.Lines
		for li.Next() {
			l := li.Line().(*graph.AuthorizationModelEdge)
			lines = append(lines, pline{l.From().ID(), l.To().ID(), l.ID(), int(l.EdgeType()), l.TuplesetRelation()})
		}
	}
	sort.Slice(lines, func(i, j int) bool {
		a, b := lines[i], lines[j]
		if a.src != b.src {
			return a.src < b.src
		}
		if a.dst != b.dst {
			return a.dst < b.dst
		}
		return a.id < b.id
	})
	ls := []string{}
	for _, l := range lines {
		ls = append(ls, L(strconv.FormatInt(l.src, 10), strconv.FormatInt(l.dst, 10), strconv.FormatInt(l.id, 10), strconv.Itoa(l.et), Q(l.ts)))
	}
	return L("g", B(bool(g.GetDrawingDirection())), L(append([]string{"nodes"}, ns...)...), L(append([]string{"lines"}, ls...)...)), nodes, lines
}

func cycleFlagsOf(g *graph.AuthorizationModelGraph) (bool, bool) {
	ci := g.GetCycles()
	v := reflect.ValueOf(ci)
	return v.Field(0).Bool(), v.Field(1).Bool()
}

var _ gg.Node

func c17One(c *Ctx, rng *rand.Rand, m *Model, stream string) {
	c.R.Evaluations++
	pm := m.Proto()
	canon := canonModel(pm)
	input := map[string]any{"model": canon}
	fail := func(detail string, extra map[string]any) {
		in := map[string]any{"model": canon}
		for k, v := range extra {
			in[k] = v
		}
		c.OracleFail("c17:"+stream, in, detail, "")
	}
	var g *graph.AuthorizationModelGraph
	var err error
	if p := safely(func() { g, err = graph.NewAuthorizationModelGraph(pm) }); p != "" || err != nil {
		fail("NewAuthorizationModelGraph fails: "+p+fmt.Sprint(err), nil)
		return
	}
	dump, nodes, lines := dumpPGraph(g)
	c.D.Add("corr:pgraph/"+stream, L("pgraph", canon), dump, input)
	if len(lines) > 0 {
		c.Nontrivial(canon)
	}
	dot := g.GetDOT()
	// stable DOT across builds
	for i := 0; i < 3; i++ {
		g2, _ := graph.NewAuthorizationModelGraph(pm)
		if g2.GetDOT() != dot {
			fail("DOT differs between two builds of the same model", map[string]any{"dot1": dot, "dot2": g2.GetDOT()})
			return
		}
	}
	if canonModel(pm) != canon {
		fail("building the graph modified the model", nil)
	}
	// reversal
	r, err := g.Reversed()
	if err != nil {
		fail("Reversed fails: "+err.Error(), nil)
		return
	}
	rdump, rnodes, rlines := dumpPGraph(r)
	c.D.Add("corr:pgraph-rev/"+stream, L("pgraph-rev", canon), rdump, input)
	if r.GetDrawingDirection() == g.GetDrawingDirection() {
		fail("Reversed does not flip the drawing direction", nil)
	}
	if len(rnodes) != len(nodes) || len(rlines) != len(lines) {
		fail("Reversed changes the number of nodes or lines", nil)
	} else {
		for i := range nodes {
			if nodes[i].ID() != rnodes[i].ID() || nodes[i].Label() != rnodes[i].Label() || nodes[i].NodeType() != rnodes[i].NodeType() {
				fail("Reversed changes a node", nil)
				break
			}
		}
		// multiset of flipped lines
		key := func(l pline, flip bool) string {
			if flip {
				return fmt.Sprintf("%d>%d:%d:%s", l.dst, l.src, l.et, l.ts)
			}
			return fmt.Sprintf("%d>%d:%d:%s", l.src, l.dst, l.et, l.ts)
		}
		a := []string{}
		b := []string{}
		for i := range lines {
			a = append(a, key(lines[i], true))
			b = append(b, key(rlines[i], false))
		}
		sort.Strings(a)
		sort.Strings(b)
		if strings.Join(a, ",") != strings.Join(b, ",") {
			fail("Reversed does not flip every line (and nothing else)", nil)
		}
	}
	for i := 0; i < 2; i++ {
		r1, _ := g.Reversed()
		rr, err := r1.Reversed()
		if err != nil {
			fail("double Reversed fails", nil)
			return
		}
		if rr.GetDOT() != dot {
			fail("reversing twice does not restore an identical DOT rendering", map[string]any{"dot": dot, "dot_rr": rr.GetDOT()})
			return
		}
		if i == 0 {
			rrdump, _, _ := dumpPGraph(rr)
			c.D.Add("corr:pgraph-rev2/"+stream, L("pgraph-rev2", canon), rrdump, input)
		}
	}
	// path queries over all label pairs of non-operator nodes, duality with the reversed graph
	labels := []string{}
	for _, n := range nodes {
		if n.NodeType() != graph.OperatorNode {
			labels = append(labels, n.Label())
		}
	}
	rows := []string{}
	for _, a := range labels {
		row := ""
		for _, b := range labels {
			p1, e1 := g.PathExists(a, b)
			p2, e2 := r.PathExists(b, a)
			if e1 != nil || e2 != nil {
				fail("PathExists fails on labels of existing nodes: "+a+" "+b, nil)
				return
			}
			if p1 != p2 {
				fail("path "+a+" -> "+b+" exists in the graph ("+B(p1)+") but "+b+" -> "+a+" in the reversed graph is "+B(p2), nil)
				return
			}
			if p1 {
				row += "1"
			} else {
				row += "0"
			}
		}
		rows = append(rows, row)
	}
	c.D.Add("corr:ppaths/"+stream, L("ppaths", canon), strings.Join(rows, ";"), input)
	// faithfulness, read off the rewrite itself (not the port): everything a relation's rewrite refers to
	// reaches the relation — a computed relation, every parent type's relation of a tuple-to-userset (each
	// restriction of the tupleset, repeated types and conditions included), every restriction of a
	// direct assignment
	hasRel := func(tn, rn string) bool {
		for _, t := range m.Types {
			if t.Name == tn {
				for _, r := range t.Rels {
					if r.Name == rn {
						return true
					}
				}
			}
		}
		return false
	}
	for _, t := range m.Types {
		restrOf := map[string][]Ref{}
		for _, r := range t.Rels {
			if !t.MetaNil && !r.NoMeta {
				restrOf[r.Name] = r.Restr
			}
		}
		for _, r := range t.Rels {
			target := t.Name + "#" + r.Name
			var walk func(u *U)
			need := func(src, why string) {
				if p, err := g.PathExists(src, target); err != nil || !p {
					fail("the graph has no path from "+src+" to "+target+" although the rewrite of "+target+" contains "+why, map[string]any{"dot": dot})
				}
			}
			walk = func(u *U) {
				if u == nil {
					return
				}
				switch u.Kind {
				case "cu":
					need(t.Name+"#"+u.Rel, "the computed relation "+u.Rel)
				case "ttu":
					for _, ref := range restrOf[u.Tupleset] {
						if hasRel(ref.Type, u.Rel) {
							need(ref.Type+"#"+u.Rel, u.Rel+" from "+u.Tupleset+" with parent type "+ref.Type)
						}
					}
				case "this":
					for _, ref := range restrOf[r.Name] {
						src := ref.Type
						if ref.Wildcard {
							src += ":*"
						} else if ref.Rel != "" {
							src += "#" + ref.Rel
						}
						need(src, "the direct restriction "+src)
					}
				}
				for _, ch := range u.Children {
					walk(ch)
				}
			}
			walk(r.Rewrite)
		}
	}
	// multiplicity: one line per occurrence. Every computed-userset leaf of every rewrite gives one rewrite/computed
	// line whose source is a relation node, and nothing else does (operators are the source of the other rewrite
	// lines, direct and tuple-to-userset lines have their own kinds); so the two counts must agree, repeated
	// operands (`a or a`, `a but not a`) included.
	{
		isRel := map[int64]bool{}
		for _, n := range nodes {
			if n.NodeType() == graph.SpecificTypeAndRelation {
				isRel[n.ID()] = true
			}
		}
		got := 0
		for _, l := range lines {
			if isRel[l.src] && (l.et == int(graph.RewriteEdge) || l.et == int(graph.ComputedEdge)) {
				got++
			}
		}
		want := 0
		var count func(u *U)
		count = func(u *U) {
			if u == nil {
				return
			}
			if u.Kind == "cu" {
				want++
			}
			for _, ch := range u.Children {
				count(ch)
			}
		}
		for _, t := range m.Types {
			for _, r := range t.Rels {
				count(r.Rewrite)
			}
		}
		if got != want {
			fail(fmt.Sprintf("the rewrites of the model contain %d computed-userset operands but the graph has %d rewrite/computed lines leaving relation nodes (one line per occurrence is what the rewrite dictates)", want, got), map[string]any{"dot": dot})
		}
	}
	// a tuple-to-userset line starts at `P#x` only for a parent type P that defines x (the theorem ttu_has_line and
	// its converse built_line_typed say so of the port): a source the model does not define is a phantom node
	{
		defined := map[string]bool{}
		for _, t := range m.Types {
			for _, r := range t.Rels {
				defined[t.Name+"#"+r.Name] = true
			}
		}
		label := map[int64]string{}
		for _, n := range nodes {
			label[n.ID()] = n.Label()
		}
		for _, l := range lines {
			if l.et == int(graph.TTUEdge) && !defined[label[l.src]] {
				fail("a tuple-to-userset line starts at "+label[l.src]+", a relation the model does not define (only parent types that define the computed relation contribute a line)", map[string]any{"dot": dot})
				break
			}
		}
	}
	// lookup: exactly the type, relation and wildcard nodes
	for _, n := range nodes {
		got, err := g.GetNodeByLabel(n.Label())
		if n.NodeType() == graph.OperatorNode {
			continue
		}
		if err != nil || got.ID() != n.ID() {
			fail("GetNodeByLabel does not find node "+n.Label(), nil)
		}
	}
	for _, l := range []string{"", "nonexistent", "union", "intersection", "exclusion", "doc#", "#x", "user:"} {
		isNode := false
		for _, n := range nodes {
			if n.NodeType() != graph.OperatorNode && n.Label() == l {
				isNode = true
			}
		}
		if _, err := g.GetNodeByLabel(l); (err == nil) != isNode {
			fail("GetNodeByLabel("+l+") does not answer exactly for the labelled nodes", nil)
		}
		if _, err := g.PathExists(l, l); (err == nil) != isNode {
			fail("PathExists on an unknown label does not fail", nil)
		}
	}
	// cycle flags
	ct, rt := cycleFlagsOf(g)
	c.D.Add("corr:pcycles/"+stream, L("pcycles", canon), L("flags", B(ct), B(rt)), input)
	// oracle: acyclic graph reports none
	acyclic := true
	for i, a := range nodes {
		for _, b := range nodes[i:] {
			ab := pathVia(lines, a.ID(), b.ID())
			ba := pathVia(lines, b.ID(), a.ID())
			if ab && ba {
				acyclic = false
			}
		}
	}
	if acyclic && (ct || rt) {
		fail("an acyclic graph reports a cycle", nil)
	}
	if pureComputedCycle(pm) && !ct {
		fail("two or more relations form a cycle of pure computed usersets but no compile-time cycle is reported", nil)
	}
}

// pathVia: is there a non-empty path from a to b?
func pathVia(lines []pline, a, b int64) bool {
	seen := map[int64]bool{}
	front := []int64{a}
	for len(front) > 0 {
		n := front[0]
		front = front[1:]
		for _, l := range lines {
			if l.src == n {
				if l.dst == b {
					return true
				}
				if !seen[l.dst] {
					seen[l.dst] = true
					front = append(front, l.dst)
				}
			}
		}
	}
	return false
}

// pureComputedCycle: independent check on the model: relations r1..rk (k>=2) of one type with
// `define r_i: r_{i+1}` (plain computed usersets) closing a cycle.
func pureComputedCycle(m *openfgav1.AuthorizationModel) bool {
	for _, td := range m.GetTypeDefinitions() {
		next := map[string]string{}
		for name, u := range td.GetRelations() {
			if cu, ok := u.GetUserset().(*openfgav1.Userset_ComputedUserset); ok {
				next[name] = cu.ComputedUserset.GetRelation()
			}
		}
		for start := range next {
			cur := start
			seen := map[string]bool{start: true}
			for {
				n, ok := next[cur]
				if !ok {
					break
				}
				if n == start && len(seen) >= 2 {
					return true
				}
				if seen[n] {
					break
				}
				seen[n] = true
				cur = n
			}
		}
	}
	return false
}

func init() {
	props["C17"] = func(c *Ctx) {
		c.R.Rule = "generated models (any rewrite shape incl. inexpressible ones, duplicate and conditioned restrictions, TTUs over several parent types, missing metadata, planted computed cycles); " +
			"correspondence: node list (id, label, type), line list in DOT order (from, to, id, type, tupleset relation) of the real graph, of its reversal and double reversal, the all-pairs reachability " +
			"matrix and the two cycle flags vs the Lean port; oracles on the real code: DOT identical over 4 builds, model unmodified, reversal flips every line and the direction and nothing else, " +
			"double reversal restores the DOT text, path duality over all label pairs, label lookup exact, acyclic => no flag, pure computed cycle => compile-time flag. non-trivial = distinct model with >= 1 line"
		rng := rand.New(rand.NewSource(c.Seed))
		n := c.Pick(800, 10000)
		for i := 0; i < n; i++ {
			m := GenGraphModel(rng)
			c17One(c, rng, m, "generated")
		}
		w := &Model{Schema: "1.1", Types: []Type{{Name: "doc", Rels: []Rel{{Name: "a", Rewrite: CU("b")}, {Name: "b", Rewrite: CU("c")}, {Name: "c", Rewrite: CU("a")}}}}}
		c17One(c, rng, w, "witness")
		c.Sample(map[string]any{"model": canonModel(w.Proto())})
	}
}
