package main

import (
	"errors"
	"fmt"
	"sort"
	"strconv"
	"strings"

	openfgav1 "github.com/openfga/api/proto/openfga/v1"
	"github.com/openfga/language/pkg/go/graph"
)

// wResult is the canonicalised outcome of one weighted build.
type wResult struct {
	Err         string                    // "" | model-cycle | tuple-cycle | invalid-model | other:<msg> | panic:<msg>
	Struct      string                    // canonical structure (nodes, edges with kinds/conditions)
	Weights     map[string]map[string]int // canonical node name -> weights
	Wild        map[string][]string       // canonical node name -> wildcards (sorted, duplicates kept)
	EdgeBad     string                    // first edge violating "edge weight = target (+1 if hop)", "" if none
	EdgeWildBad string                    // first edge whose wildcard list is not its target's (or {T} into T:*)
	Full        string                    // everything, for equality across runs
	Assign      string                    // weights and wildcards of nodes and edges in the format of the driver's `wassign` answer
	RawNodes    int
}

func errClass(err error) string {
	switch {
	case err == nil:
		return ""
	case errors.Is(err, graph.ErrModelCycle):
		return "model-cycle"
	case errors.Is(err, graph.ErrTupleCycle):
		return "tuple-cycle"
	case errors.Is(err, graph.ErrInvalidModel):
		return "invalid-model"
	}
	return "other:" + err.Error()
}

// canonical operator names T#r@k: preorder ordinal of the operator below its relation
func wOpNames(g *graph.WeightedAuthorizationModelGraph) map[string]string {
	names := map[string]string{}
	rels := []string{}
	for ul, n := range g.GetNodes() {
		if n.GetNodeType() == graph.SpecificTypeAndRelation {
			rels = append(rels, ul)
		}
	}
	sort.Strings(rels)
	for _, r := range rels {
		k := 0
		var rec func(cur string)
		rec = func(cur string) {
			for _, e := range g.GetEdges()[cur] {
				to := e.GetTo()
				if to.GetNodeType() == graph.OperatorNode {
					if _, ok := names[to.GetUniqueLabel()]; !ok {
						names[to.GetUniqueLabel()] = r + "@" + strconv.Itoa(k)
						k++
						rec(to.GetUniqueLabel())
					}
				}
			}
		}
		rec(r)
	}
	return names
}

func sortedWeights(w map[string]int) string {
	ks := sortedKeys(w)
	items := []string{}
	for _, k := range ks {
		items = append(items, L(Q(k), strconv.Itoa(w[k])))
	}
	return L(items...)
}

func dumpWGraph(g *graph.WeightedAuthorizationModelGraph, withWeights bool) wResult {
	names := wOpNames(g)
	nm := func(ul string) string {
		if c, ok := names[ul]; ok {
			return c
		}
		return ul
	}
	type nn struct {
		c string
		n *graph.WeightedAuthorizationModelNode
	}
	nodes := []nn{}
	for ul, n := range g.GetNodes() {
		nodes = append(nodes, nn{nm(ul), n})
	}
	sort.Slice(nodes, func(i, j int) bool { return nodes[i].c < nodes[j].c })
	var ns, es, ws, as strings.Builder
	qw := func(xs []string) string {
		q := []string{}
		for _, x := range xs {
			q = append(q, Q(x))
		}
		return strings.Join(q, " ")
	}
	res := wResult{Weights: map[string]map[string]int{}, Wild: map[string][]string{}, RawNodes: len(nodes)}
	for _, x := range nodes {
		fmt.Fprintf(&ns, " (%s %s %d)", Q(x.c), Q(x.n.GetLabel()), int(x.n.GetNodeType()))
		out := g.GetEdges()[x.n.GetUniqueLabel()]
		if len(out) > 0 {
			es.WriteString(" (" + Q(x.c))
			for _, e := range out {
				conds := []string{}
				for _, cd := range e.GetConditions() {
					conds = append(conds, Q(cd))
				}
				fmt.Fprintf(&es, " (%s %d %s (%s))", Q(nm(e.GetTo().GetUniqueLabel())), int(e.GetEdgeType()), Q(e.GetTuplesetRelation()), strings.Join(conds, " "))
			}
			es.WriteString(")")
		}
		if withWeights && (x.n.GetNodeType() == graph.SpecificTypeAndRelation || x.n.GetNodeType() == graph.OperatorNode) {
			w := map[string]int{}
			for k, v := range x.n.GetWeights() {
				w[k] = v
			}
			res.Weights[x.c] = w
			wc := append([]string{}, x.n.GetWildcards()...)
			sort.Strings(wc)
			res.Wild[x.c] = wc
			fmt.Fprintf(&ws, " (%s %s (%s))", Q(x.c), sortedWeights(w), strings.Join(wc, " "))
			fmt.Fprintf(&as, " (n %s %s (%s))", Q(x.c), sortedWeights(w), qw(wc))
			for i, e := range out {
				ew := map[string]int{}
				for k, v := range e.GetWeights() {
					ew[k] = v
				}
				ewc := append([]string{}, e.GetWildcards()...)
				sort.Strings(ewc)
				fmt.Fprintf(&ws, " (edge %s %d %s (%s))", Q(x.c), i, sortedWeights(ew), strings.Join(ewc, " "))
				fmt.Fprintf(&as, " (e %s %d %s (%s))", Q(x.c), i, sortedWeights(ew), qw(ewc))
				// edge rule: target's weights (+1 if hop); {T:1} into a terminal
				want := map[string]int{}
				to := e.GetTo()
				var wantWild []string
				switch to.GetNodeType() {
				case graph.SpecificType:
					want[to.GetUniqueLabel()] = 1
				case graph.SpecificTypeWildcard:
					t := strings.TrimSuffix(to.GetUniqueLabel(), ":*")
					want[t] = 1
					wantWild = []string{t}
				default:
					hop := e.GetEdgeType() == graph.DirectEdge || e.GetEdgeType() == graph.TTUEdge
					for k, v := range to.GetWeights() {
						if hop && v != graph.Infinite {
							v++
						}
						want[k] = v
					}
					wantWild = append([]string{}, to.GetWildcards()...)
					sort.Strings(wantWild)
				}
				if res.EdgeBad == "" && sortedWeights(want) != sortedWeights(ew) {
					res.EdgeBad = fmt.Sprintf("edge %d of %s (to %s): weights %s, but its target gives %s", i, x.c, nm(to.GetUniqueLabel()), sortedWeights(ew), sortedWeights(want))
				}
				if res.EdgeWildBad == "" && strings.Join(wantWild, ",") != strings.Join(ewc, ",") {
					res.EdgeWildBad = fmt.Sprintf("edge %d of %s (to %s): wildcards %v, but its target has %v", i, x.c, nm(to.GetUniqueLabel()), ewc, wantWild)
				}
			}
		}
	}
	res.Struct = "(wg (nodes" + ns.String() + ") (edges" + es.String() + "))"
	res.Full = res.Struct + " (weights" + ws.String() + ")"
	res.Assign = "(ok" + as.String() + ")"
	return res
}

// realWBuild: the public Build (depth-first start order = Go map order)
func realWBuild(m *openfgav1.AuthorizationModel) wResult {
	var g *graph.WeightedAuthorizationModelGraph
	var err error
	if p := safely(func() { g, err = wBuilder().Build(m) }); p != "" {
		return wResult{Err: "panic:" + p, Full: "panic:" + p}
	}
	if err != nil {
		return wResult{Err: errClass(err), Full: "err"}
	}
	return dumpWGraph(g, true)
}
