package main

import (
	"runtime"
	"sync"
)

// parallelFor runs f(0..n-1) on all cores.
func parallelFor(n int, f func(i int)) {
	workers := runtime.NumCPU()
	var wg sync.WaitGroup
	ch := make(chan int, 1024)
	for w := 0; w < workers; w++ {
		wg.Add(1)
		go func() {
			defer wg.Done()
			for i := range ch {
				f(i)
			}
		}()
	}
	for i := 0; i < n; i++ {
		ch <- i
	}
	close(ch)
	wg.Wait()
}
