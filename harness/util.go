package main

import (
	"github.com/openfga/language/pkg/go/graph"
	"runtime"
	"sync"
)

// parallelFor runs f(0..n-1) on all cores.
func parallelFor(n int, f func(i int)) {
	workers := runtime.NumCPU()
	var wg sync.WaitGroup
	ch := make(chan int, 1024)
	for w := 0; w < workers; w++ {
		wg.Add(1)
		go func() {
			defer wg.Done()
			for i := range ch {
				f(i)
			}
		}()
	}
	for i := 0; i < n; i++ {
		ch <- i
	}
	close(ch)
	wg.Wait()
}

// sharedWBuilder, when set (C13's race regime), is the one builder instance every goroutine uses: a
// builder must be safe to share, Build must not keep state between or across calls.
var sharedWBuilder *graph.WeightedAuthorizationModelGraphBuilder

func wBuilder() *graph.WeightedAuthorizationModelGraphBuilder {
	if sharedWBuilder != nil {
		return sharedWBuilder
	}
	return graph.NewWeightedAuthorizationModelGraphBuilder()
}
