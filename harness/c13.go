package main

import (
	"bufio"
	"crypto/sha256"
	"encoding/hex"
	"fmt"
	"math/rand"
	"os"
	"os/exec"
	"strings"
	"sync"

	openfgav1 "github.com/openfga/api/proto/openfga/v1"
	"github.com/openfga/language/pkg/go/graph"
	"github.com/openfga/language/pkg/go/transformer"
	"github.com/openfga/language/pkg/go/validation"
	"google.golang.org/protobuf/proto"
)

type c13Op struct {
	Kind  string // dsl | print | merge | pgraph | wgraph | validate
	Text  string
	Model *openfgav1.AuthorizationModel
	Names []string
	Texts []string
}

func hashOf(s string) string {
	h := sha256.Sum256([]byte(s))
	return hex.EncodeToString(h[:8])
}

// model ids: a written model carries an id, and different models may carry the same one (nothing in
// this library may key state on it); most generated models have none, as the DSL parser's have
var c13Ids = []string{"", "", "01HVMMBCMGZNT3SED4Z17ECXCA", "01HVMMBD5A8ZQXZK9CP3Q7V1XE"}

func withID(rng *rand.Rand, m *openfgav1.AuthorizationModel) *openfgav1.AuthorizationModel {
	m.Id = c13Ids[rng.Intn(len(c13Ids))]
	return m
}

// c13Ops derives the operation list from the seed alone (so that a worker process can rebuild it).
func c13Ops(seed int64, n int) []c13Op {
	rng := rand.New(rand.NewSource(seed))
	ops := []c13Op{}
	for i := 0; i < n; i++ {
		switch i % 6 {
		case 0:
			t, _ := Render(GenModel(rng, GenOpts{DSLValid: true, Conds: true, MaxDepth: 3}), rand.New(rand.NewSource(rng.Int63())))
			switch rng.Intn(4) {
			case 0:
				// a character no lexer rule accepts (token recognition error), somewhere in the text
				bad := []string{"$", "@", ";", "~", "^", "`", "\\", "€"}[rng.Intn(8)]
				k := rng.Intn(len(t) + 1)
				t = t[:k] + bad + t[k:]
			case 1:
				t = mutate(rng, t) // mostly parser-level errors
			}
			ops = append(ops, c13Op{Kind: "dsl", Text: t})
		case 1:
			// half of the printed models are arbitrary protobuf models (direct assignment in any position and
			// multiplicity, missing metadata), not only images of the DSL parser
			ops = append(ops, c13Op{Kind: "print", Model: withID(rng, GenModel(rng, GenOpts{Conds: true, Modular: rng.Intn(2) == 0, MaxDepth: 3, DSLValid: rng.Intn(2) == 0}).Proto())})
		case 2:
			ms := GenModSet(rng, rng.Intn(2))
			if rng.Intn(3) == 0 {
				// a file that is not a module among the module files (the merger's own error path, with the file name
				// as part of the returned error)
				f := rng.Intn(len(ms.Files))
				ext := false
				for _, t := range ms.Files[f].Types {
					ext = ext || t.Extend
				}
				if !ext {
					ms.Files[f].Module = ""
					ms.Files[f].Schema = "1.1"
				}
			}
			ms.Render(rng)
			ops = append(ops, c13Op{Kind: "merge", Names: ms.Names, Texts: ms.Texts})
		case 3:
			ops = append(ops, c13Op{Kind: "pgraph", Model: withID(rng, GenGraphModel(rng).Proto())})
		case 4:
			ops = append(ops, c13Op{Kind: "wgraph", Model: withID(rng, GenWModel(rng).Proto())})
		case 5:
			// strings related by the names of the validators themselves and of their parts (a result that is
			// remembered under a key built from such names must not leak between validators or strings)
			base := []string{"doc:1", "group:eng#member", "user:*", "a b", "doc:1:2", "tings:dark", "ive:q3#owner", "s:all", "up:1", "s:*", ":x", "x#y"}[rng.Intn(12)]
			pre := []string{"", "", "", "set", "object", "wildcard", "user", "userset", "type", "relation", "id", "condition"}[rng.Intn(12)]
			ops = append(ops, c13Op{Kind: "validate", Text: pre + base})
		}
	}
	return ops
}

// c13Exec runs one op on the real code and returns (canonical result, frame violation or "").
func c13Exec(op c13Op) (string, string) {
	switch op.Kind {
	case "dsl":
		out, _, _ := realParse(op.Text)
		// protojson output is deliberately unstable across binaries (detrand), so compare the JSON through its model
		j, err := transformer.TransformDSLToJSON(op.Text)
		jm := ""
		if err == nil {
			if m, e := transformer.LoadJSONStringToProto(j); e == nil {
				jm = canonModel(m)
			}
		}
		return out + "|" + jm + fmt.Sprint(err), ""
	case "print":
		before := proto.Clone(op.Model).(*openfgav1.AuthorizationModel)
		o1, _, _ := realPrint(op.Model, false)
		o2, _, _ := realPrint(op.Model, true)
		frame := ""
		if canonModel(before) != canonModel(op.Model) || !proto.Equal(before, op.Model) {
			frame = "TransformJSONProtoToDSL modified the model it was given: " + canonModel(before)
		}
		if o1b, _, _ := realPrint(op.Model, false); o1b != o1 && frame == "" {
			frame = "a second TransformJSONProtoToDSL call on the same model gives a different result: " + canonModel(before)
		}
		return o1 + "|" + o2, frame
	case "merge":
		texts := append([]string{}, op.Texts...)
		r := realMerge(op.Names, op.Texts, "1.2")
		frame := r.Frame
		for i := range texts {
			if texts[i] != op.Texts[i] {
				frame = "merge modified its input slice"
			}
		}
		return r.Out, frame
	case "pgraph":
		before := proto.Clone(op.Model).(*openfgav1.AuthorizationModel)
		g, err := graph.NewAuthorizationModelGraph(op.Model)
		res := fmt.Sprint(err)
		if err == nil {
			res = g.GetDOT()
			r, _ := g.Reversed()
			res += r.GetDOT()
		}
		frame := ""
		if !proto.Equal(before, op.Model) || canonModel(before) != canonModel(op.Model) {
			frame = "NewAuthorizationModelGraph modified the model it was given"
		}
		return res, frame
	case "wgraph":
		before := proto.Clone(op.Model).(*openfgav1.AuthorizationModel)
		r := realWBuild(op.Model)
		frame := ""
		if !proto.Equal(before, op.Model) || canonModel(before) != canonModel(op.Model) {
			frame = "WeightedAuthorizationModelGraphBuilder.Build modified the model it was given"
		}
		e := r.Err
		if e != "" {
			e = "rejected"
		}
		return e + r.Full, frame
	case "validate":
		// a different validator first on every call, so that every pair of validators meets in both orders over the run
		vs := []func(string) bool{validation.ValidateUser, validation.ValidateUserSet, validation.ValidateUserObject, validation.ValidateUserWildcard,
			validation.ValidateObject, validation.ValidateObjectID, validation.ValidateRelation, validation.ValidateType, validation.ValidateRelationshipCondition}
		out := make([]byte, len(vs))
		k := len(op.Text) % len(vs)
		for j := range vs {
			i := (j + k) % len(vs)
			if vs[i](op.Text) {
				out[i] = '1'
			} else {
				out[i] = '0'
			}
		}
		return string(out), ""
	}
	return "", ""
}

// c13Kept: a result handed back to the caller belongs to the caller: nothing a later (or concurrent) call
// does may change it.  The values returned for DSL and merge operations (models and error values) are kept,
// rendered at once, and rendered again after all other operations have run.
type c13Kept struct {
	idx       int
	kind      string
	err       error
	errText   string
	model     *openfgav1.AuthorizationModel
	modelText string
}

func c13Keep(i int, op c13Op) *c13Kept {
	k := &c13Kept{idx: i, kind: op.Kind}
	safely(func() {
		switch op.Kind {
		case "dsl":
			k.model, k.err = transformer.TransformDSLToProto(op.Text)
		case "merge":
			files := make([]transformer.ModuleFile, len(op.Names))
			for j := range op.Names {
				files[j] = transformer.ModuleFile{Name: op.Names[j], Contents: op.Texts[j]}
			}
			k.model, k.err = transformer.TransformModuleFilesToModel(files, "1.2")
		default:
			k = nil
		}
	})
	if k == nil {
		return nil
	}
	if k.err != nil {
		k.errText = c13ErrText(k.err)
	}
	if k.model != nil {
		k.modelText = canonModel(k.model)
	}
	return k
}

// c13ErrText: everything a caller can read from a returned error - the message and, for the errors of the module
// merger, file, lines and columns of every item (Error() does not print the file)
func c13ErrText(err error) string {
	s := err.Error()
	if me, ok := err.(*transformer.ModuleValidationMultipleError); ok {
		for _, e := range me.Errors {
			if x, ok := e.(*transformer.ModuleTransformationSingleError); ok {
				s += fmt.Sprintf(" {%q file %q lines %d-%d columns %d-%d}", x.Msg, x.File, x.Line.Start, x.Line.End, x.Column.Start, x.Column.End)
			} else {
				s += " {" + e.Error() + "}"
			}
		}
	}
	return s
}

// changed reports what differs now from what was returned
func (k *c13Kept) changed() string {
	if k.err != nil {
		if now := c13ErrText(k.err); now != k.errText {
			return "the error value returned by an earlier call reads differently after later calls: it was " + trunc(k.errText, 300) + " and is now " + trunc(now, 300)
		}
	}
	if k.model != nil {
		if now := canonModel(k.model); now != k.modelText {
			return "the model returned by an earlier call was changed by later calls"
		}
	}
	return ""
}

// c13Worker: runs in a child process. mode cold: the ops only; warm: after unrelated inputs;
// race: all ops concurrently from 8 goroutines (this binary is built with -race).
func c13Worker(mode string, seed int64, n int) {
	ops := c13Ops(seed, n)
	w := bufio.NewWriter(os.Stdout)
	defer w.Flush()
	switch mode {
	case "cold":
	case "warm":
		rng := rand.New(rand.NewSource(seed + 777))
		for i := 0; i < 300; i++ {
			t, _ := Render(GenModel(rng, GenOpts{DSLValid: true, Conds: true, MaxDepth: 4}), rand.New(rand.NewSource(rng.Int63())))
			_, _ = transformer.TransformDSLToProto(t)
			_, _ = transformer.TransformDSLToProto(mutate(rng, t))
			if i%3 == 0 {
				// unrelated models that happen to carry the ids the operations use
				gm := withID(rng, GenGraphModel(rng).Proto())
				_, _ = graph.NewAuthorizationModelGraph(gm)
				_, _ = graph.NewWeightedAuthorizationModelGraphBuilder().Build(gm)
				_, _ = transformer.TransformJSONProtoToDSL(gm)
			}
		}
	case "reverse":
		// the same operations, last to first: the result of a call may not depend on what ran before it
		res := make([]string, len(ops))
		for i := len(ops) - 1; i >= 0; i-- {
			r, _ := c13Exec(ops[i])
			res[i] = hashOf(r)
		}
		for i := range ops {
			fmt.Fprintf(w, "%d %s\n", i, res[i])
		}
		return
	case "race":
		results := make([][]string, 8)
		var wg sync.WaitGroup
		shared := GenModel(rand.New(rand.NewSource(seed)), GenOpts{DSLValid: true, Conds: true, Modular: true, MaxDepth: 3}).Proto()
		sharedWBuilder = graph.NewWeightedAuthorizationModelGraphBuilder() // one builder for all goroutines
		for g := 0; g < 8; g++ {
			wg.Add(1)
			go func(g int) {
				defer wg.Done()
				order := rand.New(rand.NewSource(int64(g))).Perm(len(ops))
				res := make([]string, len(ops))
				var kept []*c13Kept
				defer func() {
					// values returned earlier are read again while other goroutines are still calling
					for _, k := range kept {
						if k.changed() != "" {
							res[k.idx] = "CHANGED-AFTER-RETURN"
						}
					}
				}()
				for _, i := range order {
					if k := c13Keep(i, ops[i]); k != nil {
						kept = append(kept, k)
					}
					r, _ := c13Exec(ops[i])
					res[i] = hashOf(r)
					// one shared read-only model used by every goroutine
					_, _ = transformer.TransformJSONProtoToDSL(shared)
					_, _ = graph.NewAuthorizationModelGraph(shared)
					_, _ = sharedWBuilder.Build(shared)
				}
				results[g] = res
			}(g)
		}
		wg.Wait()
		for i := range ops {
			for g := 1; g < 8; g++ {
				if results[g][i] != results[0][i] {
					fmt.Fprintf(w, "MISMATCH %d\n", i)
				}
			}
			fmt.Fprintf(w, "%d %s\n", i, results[0][i])
		}
		return
	}
	for i, op := range ops {
		r, _ := c13Exec(op)
		fmt.Fprintf(w, "%d %s\n", i, hashOf(r))
	}
}

func init() {
	if mode := os.Getenv("C13_WORKER"); mode != "" {
		var seed int64
		var n int
		fmt.Sscan(os.Getenv("C13_SEED"), &seed)
		fmt.Sscan(os.Getenv("C13_N"), &n)
		c13Worker(mode, seed, n)
		os.Exit(0)
	}
	props["C13"] = func(c *Ctx) {
		c.R.Rule = "one operation list (DSL parse + JSON, print with/without source info on modular models, module merge, plain graph + DOT + reversal, weighted graph, validators) derived from the seed is executed " +
			"(1) sequentially in this process with the arguments compared before/after each call (proto.Equal and order-sensitive canonical form: inputs untouched), (2) in a fresh child process (cold ANTLR caches), " +
			"(3) in a child process warmed by 600 unrelated and mutated inputs and 100 unrelated models that carry the same model ids as the operations' models, (3b) in a child process last to first, (4) from 8 goroutines in a child built with -race that share ONE weighted-graph builder instance, each goroutine also printing and building graphs from one shared read-only model; " +
			"oracles: every regime gives the same result for every operation, no frame violation, no race report; correspondence of the sequential results with the Lean ports. " +
			"non-trivial = distinct operation whose result was compared in all regimes"
		n := c.Pick(300, 3000)
		ops := c13Ops(c.Seed, n)
		base := make([]string, len(ops))
		var kept []*c13Kept
		for i, op := range ops {
			c.R.Evaluations++
			if k := c13Keep(i, op); k != nil {
				kept = append(kept, k)
			}
			r, frame := c13Exec(op)
			base[i] = hashOf(r)
			c.Dist("op_" + op.Kind)
			if frame != "" {
				c.OracleFail("c13:frame", map[string]any{"op": op.Kind, "index": i}, frame, "")
			}
			switch op.Kind {
			case "dsl":
				dslCorr(c, "sequential", op.Text)
			case "print":
				cm := canonModel(op.Model)
				o, _, _ := realPrint(op.Model, false)
				c.D.Add("corr:printer/sequential", L("model2dsl", cm, "false"), o, map[string]any{"model": cm})
			case "merge":
				r := realMerge(op.Names, op.Texts, "1.2")
				c.D.Add("corr:merge/sequential", mergeOp(op.Names, op.Texts, "1.2"), r.Out, map[string]any{"names": op.Names})
			}
		}
		for _, k := range kept {
			c.Dist("kept_results_reread")
			if what := k.changed(); what != "" {
				c.OracleFail("c13:result-aliasing", map[string]any{"op": k.kind, "index": k.idx, "text": ops[k.idx].Text, "seed": c.Seed, "n": n}, what, "")
				break
			}
		}
		self, _ := os.Executable()
		run := func(bin, mode string) (map[int]string, string, error) {
			cmd := exec.Command(bin)
			cmd.Env = append(os.Environ(), "C13_WORKER="+mode, fmt.Sprintf("C13_SEED=%d", c.Seed), fmt.Sprintf("C13_N=%d", n))
			var errb strings.Builder
			cmd.Stderr = &errb
			out, err := cmd.Output()
			res := map[int]string{}
			for _, l := range strings.Split(string(out), "\n") {
				var i int
				var h string
				if strings.HasPrefix(l, "MISMATCH") {
					res[-1] = l
					continue
				}
				if _, e := fmt.Sscanf(l, "%d %s", &i, &h); e == nil {
					res[i] = h
				}
			}
			return res, errb.String(), err
		}
		regimes := []struct{ name, bin, mode string }{{"cold", self, "cold"}, {"warm", self, "warm"}, {"reverse", self, "reverse"}}
		raceBin := os.Getenv("VERIF_RACE_BIN")
		if raceBin != "" {
			if _, err := os.Stat(raceBin); err == nil {
				regimes = append(regimes, struct{ name, bin, mode string }{"race", raceBin, "race"})
			} else {
				c.Note("race binary not available: " + raceBin)
			}
		} else {
			c.Note("VERIF_RACE_BIN not set: the -race regime was skipped")
		}
		compared := map[int]int{}
		for _, rg := range regimes {
			res, stderr, err := run(rg.bin, rg.mode)
			c.Dist("regime_" + rg.name)
			if strings.Contains(stderr, "DATA RACE") {
				i := strings.Index(stderr, "DATA RACE")
				c.OracleFail("c13:race", map[string]any{"regime": rg.name, "seed": c.Seed, "n": n}, "the race detector reported a data race", trunc(stderr[i:], 1500))
				continue
			}
			if err != nil {
				c.OracleFail("c13:"+rg.name, map[string]any{"regime": rg.name}, "worker failed: "+err.Error()+" "+trunc(stderr, 500), "")
				continue
			}
			if m, ok := res[-1]; ok {
				c.OracleFail("c13:concurrent", map[string]any{"regime": rg.name, "seed": c.Seed}, "goroutines disagree on an operation: "+m, "")
			}
			for i := range ops {
				if res[i] == "" {
					c.OracleFail("c13:"+rg.name, map[string]any{"regime": rg.name, "index": i}, "no result from the worker", "")
					break
				}
				if res[i] != base[i] {
					c.OracleFail("c13:"+rg.name, map[string]any{"regime": rg.name, "index": i, "op": ops[i].Kind, "text": ops[i].Text},
						"the result of an operation differs between the "+rg.name+" regime and the sequential run in this process", "")
					break
				}
				compared[i]++
			}
		}
		for i, k := range compared {
			if k == len(regimes) {
				c.Nontrivial(fmt.Sprint(i, base[i]))
			}
		}
		c.Sample(map[string]any{"op": ops[0].Kind, "text": ops[0].Text})
	}
}
