package main

import (
	"fmt"
	"regexp"
	"strings"

	openfgav1 "github.com/openfga/api/proto/openfga/v1"
	"github.com/openfga/language/pkg/go/transformer"
)

// safely runs f and reports a panic as a string.
func safely(f func()) (panicked string) {
	defer func() {
		if r := recover(); r != nil {
			panicked = fmt.Sprint(r)
		}
	}()
	f()
	return ""
}

var reNesting = regexp.MustCompile(`^the '(.*)' relation definition under the '(.*)' type is not supported by the OpenFGA DSL syntax yet$`)
var reCondName = regexp.MustCompile(`^the '(.*)' condition has a different nested condition name \('(.*)'\)$`)
var reParamGeneric = regexp.MustCompile(`^the '(.*)' parameter of type (.*) does not have a generic type$`)

// canonPrintErr maps the printer's error to the model's canonical error term.
func canonPrintErr(err error) string {
	s := err.Error()
	if m := reNesting.FindStringSubmatch(s); m != nil {
		return L("err", "nesting", Q(m[2]), Q(m[1]))
	}
	if m := reCondName.FindStringSubmatch(s); m != nil {
		return L("err", "cond-name", Q(m[1]), Q(m[2]))
	}
	if m := reParamGeneric.FindStringSubmatch(s); m != nil {
		return L("err", "param-generic", Q(m[1]), Q(m[2]))
	}
	return L("err", "other", Q(s))
}

// realPrint runs the real printer and returns the canonical result term.
func realPrint(m *openfgav1.AuthorizationModel, src bool) (out string, text string, ok bool) {
	var s string
	var err error
	if p := safely(func() { s, err = transformer.TransformJSONProtoToDSL(m, transformer.WithIncludeSourceInformation(src)) }); p != "" {
		return L("panic", Q(p)), "", false
	}
	if err != nil {
		return canonPrintErr(err), "", false
	}
	return L("ok", Q(s)), s, true
}

func isNestingErr(out string) bool { return strings.HasPrefix(out, "(err nesting ") }
