package main

import (
	"math/rand"
	"strings"
)

// GenModuleFile generates one module file (module header, types, extensions, conditions).
func GenModuleFile(rng *rand.Rand, name string) *Model {
	m := GenModel(rng, GenOpts{DSLValid: true, Conds: true, MaxDepth: 1 + rng.Intn(3)})
	m.Module = name
	seen := map[string]bool{}
	for i := range m.Types {
		if rng.Intn(3) == 0 && len(m.Types[i].Rels) > 0 {
			m.Types[i].Extend = true
		}
		seen[m.Types[i].Name] = true
	}
	return m
}

func c03One(c *Ctx, m *Model, lay *rand.Rand, stream string) {
	c.R.Evaluations++
	text, sites := Render(m, lay)
	c.DistN("layout_choice_sites", sites)
	out := dslCorr(c, stream, text)
	want := parserImage(m)
	wantCanon := canonModelExprWS(want)
	input := map[string]any{"dsl": text, "model_written": wantCanon}
	if !strings.HasPrefix(out, "(ok ") {
		c.OracleFail("c03:"+stream, input, "a grammatical rendering is not accepted", out)
		return
	}
	_, pm, _ := realParse(text)
	// compare modulo whitespace inside condition expressions
	got := protoExprWS(pm)
	if got != wantCanon {
		input["got"] = got
		c.OracleFail("c03:"+stream, input, "parsed model differs from the model written", out)
		return
	}
	c.Nontrivial(text)
}

// c03LongLines: the same model with one physical line longer than 64 KiB (a full-line comment, a
// trailing comment, a restriction list written on one line): line length is a layout choice too.
func c03LongLines(c *Ctx, m *Model, rng *rand.Rand) {
	text, _ := Render(m, nil)
	want := canonModelExprWS(parserImage(m))
	lines := strings.Split(text, "\n")
	long := strings.Repeat("x", 66000+rng.Intn(70000))
	check := func(kind, variant string, viaLean bool) {
		c.R.Evaluations++
		c.Dist("long_line_variants")
		input := map[string]any{"kind": kind, "dsl_prefix": trunc(variant, 600), "dsl_bytes": len(variant), "model_written": want}
		var out string
		if viaLean {
			out = dslCorr(c, "long-lines", variant)
		} else {
			o, _, _ := realParse(variant)
			out = o
		}
		if !strings.HasPrefix(out, "(ok ") {
			c.OracleFail("c03:long-lines", input, "a grammatical rendering with a line longer than 64 KiB ("+kind+") is not accepted", trunc(out, 400))
			return
		}
		_, pm, _ := realParse(variant)
		if got := protoExprWS(pm); got != want {
			input["got"] = trunc(got, 2000)
			c.OracleFail("c03:long-lines", input, "parsed model differs from the model written when one line is longer than 64 KiB ("+kind+")", "")
		}
	}
	typeLines, defLines := []int{}, []int{}
	for i, l := range lines {
		if strings.HasPrefix(l, "type ") || strings.HasPrefix(l, "extend type ") {
			typeLines = append(typeLines, i)
		}
		if strings.HasPrefix(l, "    define ") && strings.Count(l, "[") == strings.Count(l, "]") {
			defLines = append(defLines, i)
		}
	}
	if len(typeLines) > 0 {
		i := typeLines[rng.Intn(len(typeLines))]
		v := append(append(append([]string{}, lines[:i]...), "# "+long), lines[i:]...)
		check("full-line comment before a type", strings.Join(v, "\n"), true)
	}
	if len(defLines) > 0 {
		i := defLines[rng.Intn(len(defLines))]
		v := append([]string{}, lines...)
		v[i] = v[i] + " # " + long
		check("trailing comment after a relation", strings.Join(v, "\n"), true)
	}
	// one relation whose direct assignment lists thousands of restrictions on one line
	big := &Model{Schema: "1.1", Types: []Type{{Name: "user", MetaNil: true}, {Name: "doc"}}}
	refs := []Ref{}
	for i := 0; i < 12000; i++ {
		refs = append(refs, Ref{Type: "user"})
	}
	big.Types[1].Rels = []Rel{{Name: "a", Rewrite: This(), Restr: []Ref{{Type: "user"}}}, {Name: "w", Rewrite: This(), Restr: refs}, {Name: "z", Rewrite: CU("a")}}
	bt, _ := Render(big, nil)
	bwant := canonModelExprWS(parserImage(big))
	c.R.Evaluations++
	c.Dist("long_line_variants")
	if o, pm, _ := realParse(bt); !strings.HasPrefix(o, "(ok ") {
		c.OracleFail("c03:long-lines", map[string]any{"kind": "restriction list of 12000 entries on one line", "dsl_bytes": len(bt)}, "a grammatical rendering with a line longer than 64 KiB is not accepted", trunc(o, 400))
	} else if protoExprWS(pm) != bwant {
		c.OracleFail("c03:long-lines", map[string]any{"kind": "restriction list of 12000 entries on one line", "dsl_bytes": len(bt)}, "parsed model differs from the model written", "")
	}
}

// c03HashInLiteral: the one class of grammatical texts the parser is known not to read as written (open
// finding KF-C03-hash-in-literal): ' #' inside a string literal of a condition expression.  Anything else
// that goes wrong on these texts is still a violation: the finding covers only "rejected, or accepted with
// exactly this condition's expression cut at the ' #'".
func c03HashInLiteral(c *Ctx, rng *rand.Rand) {
	exprs := []string{"x == \"a #b\"", "s == 'tag #1' && y", "x in [\"#1\", \" #2\"]", "x == \"a\" || y == \"b #\"", "low <= x &&\n  s != \"n #1\" &&\n  x <= high"}
	for i := 0; i < c.Pick(10, 60); i++ {
		m := GenModel(rng, GenOpts{DSLValid: true, Conds: false, MaxDepth: 2, MaxTypes: 3, MaxRels: 3})
		m.Conds = []Cond{{Name: "c", Params: []Param{{Name: "x", Type: "string"}, {Name: "y", Type: "bool"}, {Name: "s", Type: "string"}}, Expr: exprs[i%len(exprs)]}}
		text, _ := Render(m, nil)
		want := canonModelExprWS(parserImage(m))
		c.R.Evaluations++
		c.Dist("hash_in_literal_texts")
		out, pm, _ := realParse(text)
		if strings.HasPrefix(out, "(ok ") && protoExprWS(pm) == want {
			continue // read as written
		}
		explained := !strings.HasPrefix(out, "(ok ") && strings.Contains(out, "errors")
		if strings.HasPrefix(out, "(ok ") && pm != nil {
			// accepted: only the expression of `c` may differ, and only by being cut at a " #"
			got := pm.GetConditions()["c"].GetExpression()
			for _, line := range strings.Split(m.Conds[0].Expr, "\n") {
				if j := strings.Index(line, " #"); j >= 0 && strings.Contains(m.Conds[0].Expr, strings.TrimSpace(got)) {
					explained = true
				}
			}
		}
		if explained && c.Known.Open("KF-C03-hash-in-literal") {
			c.KnownHit("KF-C03-hash-in-literal", map[string]any{"dsl": text, "outcome": trunc(out, 300)})
			continue
		}
		c.OracleFail("c03:hash-in-literal", map[string]any{"dsl": text}, "a grammatical rendering with ' #' inside a string literal of a condition expression is not parsed to the model written", trunc(out, 400))
	}
}

func init() {
	props["C03"] = func(c *Ctx) {
		c.R.Rule = "generated DSL-valid models and module files x random grammatical layouts from the independent renderer (indentation none/spaces/tabs, blank lines, CRLF, " +
			"spaces around punctuation, multi-line restriction lists, full-line and trailing comments, redundant parentheses, keywords and extended identifiers as names); " +
			"oracle: the real parser accepts and returns exactly the model written (expressions modulo whitespace); correspondence: real parser vs Lean clean+walk on the real tree. " +
			"non-trivial = distinct accepted rendering"
		rng := rand.New(rand.NewSource(c.Seed))
		n := c.Pick(500, 10000)
		k := c.Pick(4, 8)
		for i := 0; i < n; i++ {
			var m *Model
			if rng.Intn(4) == 0 {
				m = GenModuleFile(rng, pick(rng, []string{"core", "wiki", "a-b", "type", "module", "_m1"}))
				c.Dist("module_files")
			} else {
				m = GenModel(rng, GenOpts{DSLValid: true, Conds: true, MaxDepth: 1 + rng.Intn(4)})
				c.Dist("model_files")
			}
			c03One(c, m, nil, "canonical")
			for j := 0; j < k; j++ {
				c03One(c, m, rand.New(rand.NewSource(rng.Int63())), "layouts")
			}
		}
		for i := 0; i < c.Pick(4, 20); i++ {
			c03LongLines(c, GenModel(rng, GenOpts{DSLValid: true, Conds: true, MaxDepth: 2}), rng)
		}
		c03HashInLiteral(c, rng)
		m := GenModel(rand.New(rand.NewSource(7)), GenOpts{DSLValid: true, Conds: true, MaxDepth: 2, MaxTypes: 2, MaxRels: 2})
		t, _ := Render(m, rand.New(rand.NewSource(3)))
		c.Sample(map[string]any{"dsl": t})
	}
}
