package main

import (
	"math/rand"
	"strings"
)

// GenModuleFile generates one module file (module header, types, extensions, conditions).
func GenModuleFile(rng *rand.Rand, name string) *Model {
	m := GenModel(rng, GenOpts{DSLValid: true, Conds: true, MaxDepth: 1 + rng.Intn(3)})
	m.Module = name
	seen := map[string]bool{}
	for i := range m.Types {
		if rng.Intn(3) == 0 && len(m.Types[i].Rels) > 0 {
			m.Types[i].Extend = true
		}
		seen[m.Types[i].Name] = true
	}
	return m
}

func c03One(c *Ctx, m *Model, lay *rand.Rand, stream string) {
	c.R.Evaluations++
	text, sites := Render(m, lay)
	c.DistN("layout_choice_sites", sites)
	out := dslCorr(c, stream, text)
	want := parserImage(m)
	wantCanon := canonModelExprWS(want)
	input := map[string]any{"dsl": text, "model_written": wantCanon}
	if !strings.HasPrefix(out, "(ok ") {
		c.OracleFail("c03:"+stream, input, "a grammatical rendering is not accepted", out)
		return
	}
	_, pm, _ := realParse(text)
	// compare modulo whitespace inside condition expressions
	got := protoExprWS(pm)
	if got != wantCanon {
		input["got"] = got
		c.OracleFail("c03:"+stream, input, "parsed model differs from the model written", out)
		return
	}
	c.Nontrivial(text)
}

func init() {
	props["C03"] = func(c *Ctx) {
		c.R.Rule = "generated DSL-valid models and module files x random grammatical layouts from the independent renderer (indentation none/spaces/tabs, blank lines, CRLF, " +
			"spaces around punctuation, multi-line restriction lists, full-line and trailing comments, redundant parentheses, keywords and extended identifiers as names); " +
			"oracle: the real parser accepts and returns exactly the model written (expressions modulo whitespace); correspondence: real parser vs Lean clean+walk on the real tree. " +
			"non-trivial = distinct accepted rendering"
		rng := rand.New(rand.NewSource(c.Seed))
		n := c.Pick(500, 10000)
		k := c.Pick(4, 8)
		for i := 0; i < n; i++ {
			var m *Model
			if rng.Intn(4) == 0 {
				m = GenModuleFile(rng, pick(rng, []string{"core", "wiki", "a-b", "type", "module", "_m1"}))
				c.Dist("module_files")
			} else {
				m = GenModel(rng, GenOpts{DSLValid: true, Conds: true, MaxDepth: 1 + rng.Intn(4)})
				c.Dist("model_files")
			}
			c03One(c, m, nil, "canonical")
			for j := 0; j < k; j++ {
				c03One(c, m, rand.New(rand.NewSource(rng.Int63())), "layouts")
			}
		}
		m := GenModel(rand.New(rand.NewSource(7)), GenOpts{DSLValid: true, Conds: true, MaxDepth: 2, MaxTypes: 2, MaxRels: 2})
		t, _ := Render(m, rand.New(rand.NewSource(3)))
		c.Sample(map[string]any{"dsl": t})
	}
}
