package main

import (
	"bufio"
	"fmt"
	"os"
	"os/exec"
	"path/filepath"
	"strings"
)

// Driver batches protocol lines for the Lean model driver together with the canonical
// result the real code produced, runs the driver and compares line by line.
type Driver struct {
	c      *Ctx
	ops    []string
	expect []string
	stream []string
	inputs []any
	onDiff []func(lean string) bool // optional: return true if the difference is explained (e.g. known finding)
	batch  int
}

func NewDriver(c *Ctx) *Driver { return &Driver{c: c} }

// Add queues one operation. expected is the canonical output derived from the real code.
func (d *Driver) Add(stream, op, expected string, input any) {
	d.AddF(stream, op, expected, input, nil)
}

func (d *Driver) AddF(stream, op, expected string, input any, onDiff func(lean string) bool) {
	if strings.ContainsAny(op, "\n") {
		panic("protocol line contains a newline: " + op)
	}
	d.ops = append(d.ops, op)
	d.expect = append(d.expect, expected)
	d.stream = append(d.stream, stream)
	d.inputs = append(d.inputs, input)
	d.onDiff = append(d.onDiff, onDiff)
	if len(d.ops) >= 50000 {
		d.Flush()
	}
}

// Ask runs ops through the driver right now and returns its answers (used when the harness
// needs the model's output as an oracle, e.g. a Spec function).
func (d *Driver) Ask(ops []string) ([]string, error) {
	d.batch++
	in := filepath.Join(d.c.WorkDir, fmt.Sprintf("%s-ask-%d.ops", d.c.Prop, d.batch))
	f, err := os.Create(in)
	if err != nil {
		return nil, err
	}
	w := bufio.NewWriterSize(f, 1<<20)
	for _, op := range ops {
		w.WriteString(op)
		w.WriteByte('\n')
	}
	w.Flush()
	f.Close()
	defer os.Remove(in)
	cmd := exec.Command(d.c.Driver)
	fin, _ := os.Open(in)
	defer fin.Close()
	cmd.Stdin = fin
	cmd.Stderr = os.Stderr
	outb, err := cmd.Output()
	if err != nil {
		return nil, fmt.Errorf("driver failed: %w", err)
	}
	lines := strings.Split(strings.TrimRight(string(outb), "\n"), "\n")
	if len(ops) == 0 {
		lines = nil
	}
	if len(lines) != len(ops) {
		return lines, fmt.Errorf("driver returned %d lines for %d ops", len(lines), len(ops))
	}
	return lines, nil
}

func (d *Driver) Flush() {
	if len(d.ops) == 0 {
		return
	}
	lines, err := d.Ask(d.ops)
	r := d.c.R
	if err != nil {
		r.Disagreements = append(r.Disagreements, Case{Stream: "driver", Kind: "correspondence", Detail: err.Error()})
	}
	for i := range d.ops {
		r.Programs++
		got := "<no output>"
		if i < len(lines) {
			got = lines[i]
		}
		if got == "unmodelled" {
			r.Unmodelled++
			continue
		}
		r.DisagreementsChecked++
		if got != d.expect[i] {
			if d.onDiff[i] != nil && d.onDiff[i](got) {
				continue
			}
			if len(r.Disagreements) < 50 {
				r.Disagreements = append(r.Disagreements, Case{Stream: d.stream[i], Kind: "correspondence",
					Input: d.inputs[i], Go: d.expect[i], Lean: got, Op: d.ops[i]})
			} else {
				r.Distribution["disagreements_not_listed"]++
			}
		}
	}
	d.ops, d.expect, d.stream, d.inputs, d.onDiff = nil, nil, nil, nil, nil
}
