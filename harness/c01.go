package main

import (
	"math/rand"
	"strconv"
	"strings"

	openfgav1 "github.com/openfga/api/proto/openfga/v1"
	"github.com/openfga/language/pkg/go/transformer"
	"google.golang.org/protobuf/proto"
)

// parserImage turns a generated DSL-valid IR model into the exact model the parser must
// return for any rendering of it.
func parserImage(m *Model) *Model {
	e := &Model{Schema: m.Schema}
	if m.Module != "" {
		e.Schema = ""
	}
	for _, t := range m.Types {
		nt := Type{Name: t.Name, MetaNil: len(t.Rels) == 0 && m.Module == "", Module: m.Module}
		for _, r := range t.Rels {
			nr := Rel{Name: r.Name, Rewrite: r.Rewrite, Restr: r.Restr}
			if r.Rewrite.CountThis() == 0 {
				nr.Restr = nil
			}
			if t.Extend {
				nr.Module = m.Module
			}
			nt.Rels = append(nt.Rels, nr)
		}
		e.Types = append(e.Types, nt)
	}
	for _, c := range m.Conds {
		e.Conds = append(e.Conds, Cond{Name: c.Name, Expr: c.Expr, Params: c.Params, NoMeta: m.Module == "", Module: m.Module})
	}
	return e
}

func stripWS(s string) string {
	return strings.Map(func(r rune) rune {
		if r == ' ' || r == '\t' || r == '\n' || r == '\r' || r == '\f' {
			return -1
		}
		return r
	}, s)
}

// canonModelModWS: canonical model with condition expressions compared modulo whitespace
func canonModelExprWS(m *Model) string {
	c := *m
	c.Conds = append([]Cond{}, m.Conds...)
	for i := range c.Conds {
		c.Conds[i].Expr = stripWS(c.Conds[i].Expr)
	}
	return canonModel(c.Proto())
}

// dslCorr queues the parser correspondence op for text and returns the real outcome.
func dslCorr(c *Ctx, stream, text string) (out string) {
	cleaned := harnessClean(text)
	r := parseFull(cleaned)
	tree, errs := r.Tree, r.Errs
	out, _, _ = realParse(text)
	c.D.Add("corr:parser/"+stream, L("dsl2model", Q(text), Q(cleaned), tree, canonErrs(errs)), out, map[string]any{"dsl": text})
	grammarConform(c, stream, text, tree, len(errs))
	frontCorr(c, stream, text, cleaned, r)
	fullCorr(c, stream, text, out, len(errs))
	return out
}

// grammarConform: a parse tree for which ANTLR reported no error must be a derivation by the grammar
// (OpenFGAParser.g4, translated to Lean on every run): every rule node's children are a word of the
// rule's body, labels where the body puts them. A tree that is not means the generated Go parser does
// something the grammar does not say; the input is the replay.
func grammarConform(c *Ctx, stream, text, tree string, nErrs int) {
	if nErrs > 0 {
		return
	}
	if len(tree) > 400000 {
		// the conformance matcher is quadratic in the number of children of one rule node; documents with
		// thousands of entries in one list are covered by the listener correspondence and the oracles only
		c.Dist("grammar_conformance_skipped_large_tree")
		return
	}
	// hypothesis of Props/C03.real_declaration_denotes: every relation declaration of the real tree is,
	// positions erased, the embedding of a well-formed CST (counted; a declaration outside it stays
	// covered by the differential walk, not by the theorem)
	c.D.AddF("hyp:embedding/"+stream, L("embeddings", tree), "", map[string]any{"dsl": text}, func(lean string) bool {
		x := parseSX(lean)
		if x.Head() != "embeddings" || len(x.List) != 3 {
			return false
		}
		a, _ := strconv.Atoi(x.List[1].Atom)
		b, _ := strconv.Atoi(x.List[2].Atom)
		c.DistN("relation_declarations_in_real_trees", b)
		c.DistN("of_which_embeddings_of_a_cst", a)
		if a != b {
			c.Dist("hypothesis_embedding_false")
			if c.R.Distribution["hypothesis_embedding_false"] <= 3 {
				c.Note("a relation declaration of a real parse tree is not the embedding of a CST: " + trunc(text, 300))
			}
		}
		return true
	})
	c.Dist("grammar_conformance_checked")
	c.D.AddF("grammar:conform/"+stream, L("conform", tree), "(conform true)", map[string]any{"dsl": text}, func(lean string) bool {
		if strings.HasPrefix(lean, "(conform false") {
			c.OracleFail("grammar:conform/"+stream, map[string]any{"dsl": text, "rule": lean},
				"the Go parser accepted this text without a syntax error, but its parse tree is not a derivation by OpenFGAParser.g4 (a rule node whose children the rule's body does not match)", lean)
			return true
		}
		return false
	})
}

// fullCorr: the whole DSL -> model pipeline inside the Lean model (comment pre-pass, lexer automaton
// interpreter, grammar interpreter, listener walk) against the real TransformModularDSLToProto: the same
// model, or the same listener errors; a text ANTLR reports a syntax error for must be rejected by the model
// pipeline too (class only: ANTLR's messages and recovered trees are not modelled).
func fullCorr(c *Ctx, stream, text, realOut string, nAntlrErrs int) {
	if len(text) > 20000 {
		return
	}
	want := realOut
	if nAntlrErrs > 0 {
		want = "(syntax-errors)"
	}
	c.D.Add("corr:pipeline/"+stream, L("dsl2model-full", Q(text)), want, map[string]any{"dsl": text})
	c.Dist("whole_pipeline_texts_compared")
}

// dslCorrScoped: as dslCorr, and asks the Lean driver whether the real parse tree meets the hypothesis
// (`wellScoped`) of the no-panic theorem of Props/C08.lean. A tree outside it is not a disagreement
// (the differential check still covers it); it is counted, with a sample, in the evidence.
func dslCorrScoped(c *Ctx, stream, text string) {
	cleaned := harnessClean(text)
	r := parseFull(cleaned)
	tree, errs := r.Tree, r.Errs
	out, _, _ := realParse(text)
	c.D.Add("corr:parser/"+stream, L("dsl2model", Q(text), Q(cleaned), tree, canonErrs(errs)), out, map[string]any{"dsl": text})
	grammarConform(c, stream, text, tree, len(errs))
	frontCorr(c, stream, text, cleaned, r)
	fullCorr(c, stream, text, out, len(errs))
	kind := "error_free_trees"
	if len(errs) > 0 {
		kind = "error_recovered_trees"
	}
	c.D.AddF("hyp:scoped/"+stream, L("scoped", tree), "(scoped true)", map[string]any{"dsl": text}, func(lean string) bool {
		if lean == "(scoped false)" {
			c.Dist("hypothesis_scoped_false:" + kind)
			if c.R.Distribution["hypothesis_scoped_false:"+kind] <= 3 {
				c.Note("tree outside the hypothesis of walk_no_panic (" + kind + "): " + trunc(text, 300))
			}
			return true
		}
		return false
	})
	c.Dist("hypothesis_scoped_evaluated:" + kind)
}

// canonical model with condition expressions compared modulo surrounding whitespace
func canonModelTrimExpr(m *openfgav1.AuthorizationModel) string {
	c := proto.Clone(m).(*openfgav1.AuthorizationModel)
	for _, cd := range c.GetConditions() {
		cd.Expression = strings.TrimSpace(cd.Expression)
	}
	return canonModel(c)
}

func init() {
	props["C01"] = func(c *Ctx) {
		c.R.Rule = "generated DSL-valid models (all rewrite shapes, keywords and extended identifiers as names, restrictions with wildcards/usersets/conditions, conditions) " +
			"rendered by the independent renderer in a random grammatical layout; oracle on the real code: d -> m1 -> d2 -> m2 -> d3 with m1 == m2 (conditions modulo surrounding whitespace) and d2 == d3, " +
			"through the JSON string API and through the direct proto path; correspondence: real parser vs Lean (clean + listener walk on the real parse tree), real printer vs Lean printer. " +
			"non-trivial = distinct model with at least one relation with a direct assignment or operator"
		rng := rand.New(rand.NewSource(c.Seed))
		n := c.Pick(1200, 30000)
		for i := 0; i < n; i++ {
			o := GenOpts{DSLValid: true, Conds: true, MaxDepth: 1 + rng.Intn(5)}
			if c.Thorough() && rng.Intn(10) == 0 {
				o.MaxDepth = 8
			}
			m := GenModel(rng, o)
			var lay *rand.Rand
			if rng.Intn(4) > 0 {
				lay = rand.New(rand.NewSource(rng.Int63()))
			}
			d, _ := Render(m, lay)
			c01One(c, d, "generated")
		}
		// documents whose SOURCE lines are short but whose PRINTED form has a line longer than any line buffer (64 KiB):
		// a relation with thousands of type restrictions written one per line (the printer puts them on one line),
		// followed by further relations, types and a condition that must survive the round trip
		for i := 0; i < c.Pick(2, 8); i++ {
			var sb strings.Builder
			sb.WriteString("model\n  schema 1.1\n\ntype user\n\ntype group\n  relations\n    define member: [user]\n\ntype doc\n  relations\n    define big: [\n")
			k := 7000 + rng.Intn(1000)
			for j := 0; j < k; j++ {
				sb.WriteString([]string{"      user", "      group#member", "      user:*", "      user with c1"}[(i+j)%4])
				if j+1 < k {
					sb.WriteString(",")
				}
				sb.WriteString("\n")
			}
			sb.WriteString("    ] or owner\n    define owner: [user]\n    define zlast: big and owner\n\ntype zzz\n  relations\n    define r: [user]\n\ncondition c1(x: int) {\n  x > 0\n}\n")
			c.Dist("long_printed_line_documents")
			c01One(c, sb.String(), "long-printed-line")
		}
		// deeply nested definitions (six families x three operators): the JSON of such a model nests two messages per
		// parenthesised group, and every depth the parser accepts must come back through both printing paths
		deep := []int{6, 10, 13, 14, 15, 16, 17, 24, 31, 32, 33, 48}
		if c.Thorough() {
			deep = append(deep, 64, 65, 100, 128)
		}
		for _, d := range deepDocs(deep) {
			if strings.HasPrefix(d, "module") {
				continue // a module file is not a full model (no model/schema header): outside this property
			}
			c.Dist("deep_nesting_documents")
			c01One(c, d, "deep-nesting")
		}
		c.Sample(map[string]any{"dsl": "model\n  schema 1.1\ntype user\ntype doc\n  relations\n    define v: [user] or (a and b from p)"})
	}
}

func c01One(c *Ctx, d string, stream string) {
	c.R.Evaluations++
	fail := func(detail string, extra map[string]any) {
		in := map[string]any{"dsl": d}
		for k, v := range extra {
			in[k] = v
		}
		c.OracleFail("c01:"+stream, in, detail, "")
	}
	out1 := dslCorr(c, stream, d)
	m1, err := transformer.TransformDSLToProto(d)
	if err != nil {
		// not accepted: outside C01's quantifier (C03 demands acceptance of renderings)
		c.Dist("rejected_input")
		return
	}
	if strings.Contains(canonModel(m1), "(union") || strings.Contains(canonModel(m1), "this") || strings.Contains(canonModel(m1), "(diff") {
		c.Nontrivial(canonModel(m1))
	}
	_ = out1
	// direct proto path
	cm1 := canonModel(m1)
	pout, d2, ok := realPrint(m1, false)
	c.D.Add("corr:printer/"+stream, L("model2dsl", cm1, "false"), pout, map[string]any{"model": cm1})
	if !ok {
		fail("rendering the parsed model back to DSL fails (direct proto path): "+pout, nil)
		return
	}
	m2, err := transformer.TransformDSLToProto(d2)
	if err != nil {
		fail("the rendering of the parsed model does not parse: "+err.Error(), map[string]any{"d2": d2})
		return
	}
	dslCorr(c, stream+"/second", d2)
	if canonModelTrimExpr(m2) != canonModelTrimExpr(m1) {
		fail("model after print+parse differs from the first model", map[string]any{"d2": d2, "m1": cm1, "m2": canonModel(m2)})
		return
	}
	_, d3, ok := realPrint(m2, false)
	if !ok || d3 != d2 {
		fail("third rendering is not byte-identical to the second", map[string]any{"d2": d2, "d3": d3})
		return
	}
	// JSON string API path
	j1, err := transformer.TransformDSLToJSON(d)
	if err != nil {
		fail("TransformDSLToJSON fails on an accepted document: "+err.Error(), nil)
		return
	}
	pd2, err := transformer.TransformJSONStringToDSL(j1)
	if err != nil {
		fail("TransformJSONStringToDSL fails on the JSON of an accepted document: "+err.Error(), nil)
		return
	}
	if *pd2 != d2 {
		fail("JSON string path and direct proto path render different DSL", map[string]any{"d2": d2, "d2_json": *pd2})
		return
	}
	j2, err := transformer.TransformDSLToJSON(*pd2)
	if err != nil {
		fail("second TransformDSLToJSON fails: "+err.Error(), nil)
		return
	}
	mj1, e1 := transformer.LoadJSONStringToProto(j1)
	mj2, e2 := transformer.LoadJSONStringToProto(j2)
	if e1 != nil || e2 != nil || canonModel(mj1) != canonModel(mj2) {
		fail("JSON after the round trip differs", map[string]any{"j1": j1, "j2": j2})
	}
}

func protoExprWS(m *openfgav1.AuthorizationModel) string {
	c := proto.Clone(m).(*openfgav1.AuthorizationModel)
	for _, cd := range c.GetConditions() {
		cd.Expression = stripWS(cd.Expression)
	}
	return canonModel(c)
}
