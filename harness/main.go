// Command harness runs the real openfga/language code (from /repo's working tree) on generated
// inputs, sends the same inputs to the Lean model driver over a line protocol, compares the
// two output streams (correspondence) and evaluates the property oracles on the real outputs
// (search for a failing input).  It writes a machine-readable result that ./run turns into
// the verdict and the evidence file.
package main

import (
	"encoding/json"
	"flag"
	"fmt"
	"os"
	"sort"
	"time"
)

type Case struct {
	Stream  string `json:"stream"`            // which correspondence stream / oracle produced it
	Kind    string `json:"kind"`              // "correspondence" | "oracle"
	Input   any    `json:"input"`             // the replayable input
	Go      string `json:"go,omitempty"`      // what the real code returned (canonical)
	Lean    string `json:"lean,omitempty"`    // what the model returned (canonical)
	Detail  string `json:"detail,omitempty"`  // which clause failed
	Finding string `json:"finding,omitempty"` // id of the known finding that explains it, if any
	Op      string `json:"op,omitempty"`      // the protocol line (replay on the driver)
}

type Result struct {
	Property             string         `json:"property"`
	Tier                 string         `json:"tier"`
	Seed                 int64          `json:"seed"`
	Evaluations          int            `json:"evaluations"`
	DistinctNontrivial   int            `json:"distinct_nontrivial"`
	Rule                 string         `json:"rule"`
	Samples              []any          `json:"samples"`
	Programs             int            `json:"programs"`
	DisagreementsChecked int            `json:"disagreements_checked"`
	Disagreements        []Case         `json:"disagreements"`
	OracleFailures       []Case         `json:"oracle_failures"`
	KnownFindingHits     map[string]int `json:"known_finding_hits"`
	KnownFindingSamples  map[string]any `json:"known_finding_samples"`
	Distribution         map[string]int `json:"distribution"`
	Exhaustive           bool           `json:"exhaustive"`
	Notes                []string       `json:"notes"`
	Unmodelled           int            `json:"unmodelled"`
	WallS                float64        `json:"wall_s"`
}

type Ctx struct {
	Prop    string
	Tier    string
	Seed    int64
	Driver  string
	WorkDir string
	Replay  string
	R       *Result
	D       *Driver
	nontriv map[string]bool
	Known   *KnownFindings
}

func (c *Ctx) Thorough() bool { return c.Tier == "thorough" }

// Pick returns q in the quick tier and t in the thorough tier.
func (c *Ctx) Pick(q, t int) int {
	if c.Thorough() {
		return t
	}
	return q
}

func (c *Ctx) Dist(key string)         { c.R.Distribution[key]++ }
func (c *Ctx) DistN(key string, n int) { c.R.Distribution[key] += n }
func (c *Ctx) Note(s string)           { c.R.Notes = append(c.R.Notes, s) }

// Nontrivial counts a distinct non-trivial case by its canonical key.
func (c *Ctx) Nontrivial(key string) {
	if !c.nontriv[key] {
		c.nontriv[key] = true
	}
}

func (c *Ctx) Sample(v any) {
	if len(c.R.Samples) < 8 {
		c.R.Samples = append(c.R.Samples, v)
	}
}

// OracleFail records a property violation observed on the real code (or attributes it to a
// listed known finding when its signature and expected behaviour match).
func (c *Ctx) OracleFail(stream string, input any, detail string, goOut string) {
	cs := Case{Stream: stream, Kind: "oracle", Input: input, Detail: detail, Go: goOut}
	if len(c.R.OracleFailures) < 50 {
		c.R.OracleFailures = append(c.R.OracleFailures, cs)
	} else {
		c.Dist("oracle_failures_not_listed")
	}
}

// KnownHit records that an input fell into a listed known finding and behaved as recorded.
func (c *Ctx) KnownHit(id string, sample any) {
	c.R.KnownFindingHits[id]++
	if _, ok := c.R.KnownFindingSamples[id]; !ok {
		c.R.KnownFindingSamples[id] = sample
	}
}

type propFn func(c *Ctx)

var props = map[string]propFn{}

func main() {
	if len(os.Args) < 3 || os.Args[1] != "run" {
		fmt.Fprintln(os.Stderr, "usage: harness run <ID> [-tier quick|thorough] [-seed N] [-driver PATH] [-out FILE] [-workdir DIR] [-replay FILE]")
		os.Exit(2)
	}
	id := os.Args[2]
	fs := flag.NewFlagSet("run", flag.ExitOnError)
	tier := fs.String("tier", "quick", "")
	seed := fs.Int64("seed", 1, "")
	driver := fs.String("driver", "/verif/lean/.lake/build/bin/driver", "")
	out := fs.String("out", "", "")
	workdir := fs.String("workdir", "/verif/.work", "")
	replay := fs.String("replay", "", "")
	known := fs.String("known", "/verif/known_findings.json", "")
	_ = fs.Parse(os.Args[3:])

	fn, ok := props[id]
	if !ok {
		fmt.Fprintf(os.Stderr, "unknown property %s\n", id)
		ids := []string{}
		for k := range props {
			ids = append(ids, k)
		}
		sort.Strings(ids)
		fmt.Fprintln(os.Stderr, "known:", ids)
		os.Exit(2)
	}
	_ = os.MkdirAll(*workdir, 0o755)
	r := &Result{Property: id, Tier: *tier, Seed: *seed, Distribution: map[string]int{},
		KnownFindingHits: map[string]int{}, KnownFindingSamples: map[string]any{},
		Disagreements: []Case{}, OracleFailures: []Case{}, Samples: []any{}, Notes: []string{}}
	c := &Ctx{Prop: id, Tier: *tier, Seed: *seed, Driver: *driver, WorkDir: *workdir, Replay: *replay, R: r, nontriv: map[string]bool{}}
	c.Known = LoadKnown(*known)
	c.D = NewDriver(c)
	start := time.Now()
	fn(c)
	c.D.Flush()
	r.DistinctNontrivial = len(c.nontriv)
	r.WallS = time.Since(start).Seconds()
	b, _ := json.MarshalIndent(r, "", " ")
	if *out != "" {
		if err := os.WriteFile(*out, b, 0o644); err != nil {
			fmt.Fprintln(os.Stderr, err)
			os.Exit(2)
		}
	} else {
		fmt.Println(string(b))
	}
}
