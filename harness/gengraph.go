package main

import "math/rand"

// GenGraphModel: graph-biased models: few types, relations referring to each other, planted
// tuple cycles, rewrite-only cycles, TTUs over tuplesets with several parent types, wildcards,
// intersections/exclusions on and next to cycles.
func GenGraphModel(rng *rand.Rand) *Model {
	ntypes := 1 + rng.Intn(3)
	tnames := []string{"user", "doc", "folder", "org"}[:ntypes+1]
	m := &Model{Schema: "1.1"}
	relNames := []string{"a", "b", "c", "p", "v"}
	if rng.Intn(3) == 0 {
		// relation names that differ only in letter case, and mixed case (orderings must be by byte value)
		relNames = []string{"a", "A", "b", "B", "Va"}
	}
	conds := []string{"", "", "", "c1", "c2"}
	// which relations each type defines
	defs := map[string][]string{}
	for _, tn := range tnames[1:] {
		k := 1 + rng.Intn(len(relNames))
		perm := rng.Perm(len(relNames))[:k]
		for _, i := range perm {
			defs[tn] = append(defs[tn], relNames[i])
		}
	}
	if rng.Intn(3) == 0 {
		defs["user"] = []string{relNames[rng.Intn(len(relNames))]}
	}
	genRef := func() Ref {
		t := tnames[rng.Intn(len(tnames))]
		r := Ref{Type: t, Cond: conds[rng.Intn(len(conds))]}
		switch rng.Intn(5) {
		case 0:
			r.Wildcard = true
		case 1, 2:
			if len(defs[t]) > 0 && rng.Intn(6) > 0 {
				r.Rel = defs[t][rng.Intn(len(defs[t]))]
			} else if rng.Intn(3) == 0 {
				r.Rel = relNames[rng.Intn(len(relNames))]
			}
		}
		return r
	}
	var tree func(tn string, depth int, allowThis bool) *U
	tree = func(tn string, depth int, allowThis bool) *U {
		own := defs[tn]
		leaf := func() *U {
			switch rng.Intn(5) {
			case 0, 1:
				if allowThis {
					return This()
				}
				return CU(own[rng.Intn(len(own))])
			case 2:
				return TTU(own[rng.Intn(len(own))], relNames[rng.Intn(len(relNames))])
			default:
				if rng.Intn(12) == 0 {
					return CU(relNames[rng.Intn(len(relNames))])
				}
				return CU(own[rng.Intn(len(own))])
			}
		}
		if depth <= 0 || rng.Intn(2) == 0 {
			return leaf()
		}
		switch rng.Intn(4) {
		case 0, 1:
			n := 2 + rng.Intn(2)
			cs := []*U{}
			for i := 0; i < n; i++ {
				cs = append(cs, tree(tn, depth-1, allowThis && i == 0))
			}
			return Union(cs...)
		case 2:
			return Inter(tree(tn, depth-1, allowThis), tree(tn, depth-1, false))
		default:
			return Diff(tree(tn, depth-1, allowThis), tree(tn, depth-1, false))
		}
	}
	for _, tn := range tnames {
		t := Type{Name: tn}
		for _, rn := range defs[tn] {
			r := Rel{Name: rn}
			r.Rewrite = tree(tn, rng.Intn(3), true)
			if r.Rewrite.CountThis() > 0 || rng.Intn(8) == 0 {
				n := 1 + rng.Intn(3)
				for i := 0; i < n; i++ {
					r.Restr = append(r.Restr, genRef())
				}
			}
			t.Rels = append(t.Rels, r)
		}
		t.MetaNil = len(t.Rels) == 0
		m.Types = append(m.Types, t)
	}
	rng.Shuffle(len(m.Types), func(i, j int) { m.Types[i], m.Types[j] = m.Types[j], m.Types[i] })
	return emptyRelSometimes(rng, m, 8)
}

// GenWModel: models for the weighted graph: mostly well-formed TTUs and usersets so that many are
// accepted, with tuple cycles (recursive usersets and TTUs, interlocking), rewrite-only cycles,
// wildcards in and behind cycles, intersections and exclusions on and next to cycles.
func GenWModel(rng *rand.Rand) *Model {
	objTypes := []string{"doc", "folder", "org"}[:1+rng.Intn(3)]
	terms := []string{"user", "employee", "team", "dept", "org2"}[:1+rng.Intn(5)]
	relPool := []string{"a", "b", "c", "d"}
	m := &Model{Schema: "1.1"}
	defs := map[string][]string{}
	for _, t := range objTypes {
		k := 1 + rng.Intn(len(relPool))
		for _, i := range rng.Perm(len(relPool))[:k] {
			defs[t] = append(defs[t], relPool[i])
		}
	}
	conds := []string{"", "", "", "c1"}
	for _, t := range terms {
		m.Types = append(m.Types, Type{Name: t, MetaNil: true})
	}
	for _, t := range objTypes {
		ty := Type{Name: t}
		// parent-style tupleset relations
		parents := map[string][]string{}
		np := rng.Intn(3)
		for i := 0; i < np; i++ {
			pn := []string{"p", "q"}[i]
			k := 1 + rng.Intn(2)
			if rng.Intn(4) == 0 {
				k = 3 + rng.Intn(2) // repeated parent types (conditioned twins) followed by other types
			}
			for j := 0; j < k; j++ {
				parents[pn] = append(parents[pn], objTypes[rng.Intn(len(objTypes))])
			}
			if rng.Intn(15) == 0 {
				parents[pn] = append(parents[pn], terms[0])
			}
		}
		genThis := func() []Ref {
			n := 1 + rng.Intn(3)
			if rng.Intn(5) == 0 {
				n = 3 + rng.Intn(3)
			}
			out := []Ref{}
			for i := 0; i < n; i++ {
				switch rng.Intn(6) {
				case 0, 5:
					out = append(out, Ref{Type: terms[rng.Intn(len(terms))], Wildcard: true, Cond: conds[rng.Intn(len(conds))]})
				case 1, 2:
					ot := objTypes[rng.Intn(len(objTypes))]
					r := defs[ot][rng.Intn(len(defs[ot]))]
					if rng.Intn(25) == 0 {
						r = "zz"
					}
					out = append(out, Ref{Type: ot, Rel: r, Cond: conds[rng.Intn(len(conds))]})
				default:
					out = append(out, Ref{Type: terms[rng.Intn(len(terms))], Cond: conds[rng.Intn(len(conds))]})
				}
			}
			return out
		}
		var tree func(depth int, first bool) *U
		curIdx := 0
		// computed usersets mostly point to an earlier relation (acyclic), sometimes anywhere
		cuPick := func() *U {
			if rng.Intn(8) == 0 {
				return CU(defs[t][rng.Intn(len(defs[t]))])
			}
			if curIdx == 0 {
				if len(parents) > 0 && rng.Intn(2) == 0 {
					return CU(sortedKeys(parents)[0])
				}
				return This()
			}
			return CU(defs[t][rng.Intn(curIdx)])
		}
		leaf := func(first bool) *U {
			switch rng.Intn(6) {
			case 0, 1:
				if first {
					return This()
				}
				return cuPick()
			case 2:
				if len(parents) > 0 {
					pns := sortedKeys(parents)
					pn := pns[rng.Intn(len(pns))]
					// a relation every parent type defines, if any
					cands := []string{}
					for _, r := range relPool {
						ok := true
						for _, pt := range parents[pn] {
							found := false
							for _, d := range defs[pt] {
								if d == r {
									found = true
								}
							}
							if !found {
								ok = false
							}
						}
						if ok {
							cands = append(cands, r)
						}
					}
					if len(cands) > 0 && rng.Intn(20) > 0 {
						return TTU(pn, cands[rng.Intn(len(cands))])
					}
					return TTU(pn, relPool[rng.Intn(len(relPool))])
				}
				return cuPick()
			default:
				return cuPick()
			}
		}
		tree = func(depth int, first bool) *U {
			if depth <= 0 || rng.Intn(5) < 2 {
				return leaf(first)
			}
			switch rng.Intn(6) {
			case 0:
				n := 2 + rng.Intn(2)
				cs := []*U{}
				for i := 0; i < n; i++ {
					cs = append(cs, tree(depth-1, first && i == 0))
				}
				return Inter(cs...)
			case 1:
				return Diff(tree(depth-1, first), tree(depth-1, false))
			default:
				n := 2 + rng.Intn(2)
				cs := []*U{}
				for i := 0; i < n; i++ {
					cs = append(cs, tree(depth-1, first && i == 0))
				}
				return Union(cs...)
			}
		}
		for _, pn := range sortedKeys(parents) {
			r := Rel{Name: pn, Rewrite: This()}
			for _, pt := range parents[pn] {
				r.Restr = append(r.Restr, Ref{Type: pt, Cond: conds[rng.Intn(len(conds))]})
			}
			if rng.Intn(12) == 0 {
				// a tupleset relation without type restrictions (a plain rewrite): every TTU over it is invalid
				r = Rel{Name: pn, Rewrite: CU(defs[t][0])}
			}
			ty.Rels = append(ty.Rels, r)
		}
		for ri, rn := range defs[t] {
			curIdx = ri
			r := Rel{Name: rn}
			d := rng.Intn(3)
			if rng.Intn(3) == 0 {
				r.Rewrite = This()
			} else {
				r.Rewrite = tree(d, true)
			}
			if r.Rewrite.CountThis() > 0 {
				r.Restr = genThis()
			}
			ty.Rels = append(ty.Rels, r)
		}
		m.Types = append(m.Types, ty)
	}
	rng.Shuffle(len(m.Types), func(i, j int) { m.Types[i], m.Types[j] = m.Types[j], m.Types[i] })
	return emptyRelSometimes(rng, m, 8)
}

// GenWildModel: wildcard-heavy shapes: a shared relation with several public types (optionally on a
// tuple cycle), several relations that each combine it with one more public type, and a second layer
// on top - the shapes in which wildcard lists are merged, extended and shared.
func GenWildModel(rng *rand.Rand) *Model {
	terms := []string{"user", "group", "team", "org", "dept", "bot"}
	rng.Shuffle(len(terms), func(i, j int) { terms[i], terms[j] = terms[j], terms[i] })
	nt := 3 + rng.Intn(4)
	terms = terms[:nt]
	m := &Model{Schema: "1.1"}
	for _, t := range terms {
		m.Types = append(m.Types, Type{Name: t, MetaNil: true})
	}
	doc := Type{Name: "doc"}
	ns := 1 + rng.Intn(nt-1)
	shared := Rel{Name: "s", Rewrite: This()}
	for i := 0; i < ns; i++ {
		shared.Restr = append(shared.Restr, Ref{Type: terms[i], Wildcard: true})
	}
	if rng.Intn(3) == 0 {
		shared.Restr = append(shared.Restr, Ref{Type: "doc", Rel: "s"})
	}
	if rng.Intn(3) == 0 {
		shared.Restr = append(shared.Restr, Ref{Type: terms[rng.Intn(nt)]})
	}
	doc.Rels = append(doc.Rels, shared)
	np := 2 + rng.Intn(3)
	layer := []string{}
	for i := 0; i < np; i++ {
		xn := "x" + itoa(i)
		x := Rel{Name: xn, Rewrite: This(), Restr: []Ref{{Type: terms[rng.Intn(nt)], Wildcard: true}}}
		if rng.Intn(2) == 0 {
			x.Restr = append(x.Restr, Ref{Type: terms[rng.Intn(nt)], Wildcard: rng.Intn(2) == 0})
		}
		if rng.Intn(3) == 0 {
			x.Restr = append(x.Restr, Ref{Type: terms[rng.Intn(min(ns+1, nt))], Wildcard: rng.Intn(3) == 0})
		}
		doc.Rels = append(doc.Rels, x)
		pn := "p" + itoa(i)
		ops := []*U{CU("s"), CU(xn)}
		if rng.Intn(2) == 0 {
			ops[0], ops[1] = ops[1], ops[0]
		}
		var rw *U
		switch rng.Intn(9) {
		case 0:
			rw = Diff(ops[0], ops[1])
		case 1:
			rw = Union(This(), ops[0], ops[1])
		case 2, 3:
			// an intersection over relations with public restrictions: a public type whose type does not
			// survive the intersection is still reachable from it
			rw = Inter(ops...)
		case 4:
			if i > 0 {
				rw = Inter(ops[0], ops[1], CU("x"+itoa(rng.Intn(i))))
			} else {
				rw = Inter(ops[1], ops[0])
			}
		default:
			rw = Union(ops...)
		}
		p := Rel{Name: pn, Rewrite: rw}
		if rw.CountThis() > 0 {
			p.Restr = []Ref{{Type: terms[rng.Intn(nt)], Wildcard: rng.Intn(2) == 0}}
		}
		doc.Rels = append(doc.Rels, p)
		layer = append(layer, pn)
	}
	// second layer
	for i := 0; i+1 < len(layer) && i < 2; i++ {
		doc.Rels = append(doc.Rels, Rel{Name: "q" + itoa(i), Rewrite: Union(CU(layer[i]), CU(layer[i+1]))})
	}
	m.Types = append(m.Types, doc)
	rng.Shuffle(len(m.Types), func(i, j int) { m.Types[i], m.Types[j] = m.Types[j], m.Types[i] })
	return emptyRelSometimes(rng, m, 8)
}

// GenCycleWeb: a small web of tuple cycles — 3 to 6 relations of one type, each a direct assignment
// over usersets of the others (sometimes behind a union with a computed relation or a TTU), with
// 0-2 terminal types. Nested cycles that share nodes, in every order of the restrictions, are the
// shapes on which cycle resolution depends on the traversal and on Go's map iteration order.
func GenCycleWeb(rng *rand.Rand) *Model {
	n := 3 + rng.Intn(4)
	names := []string{"a", "b", "m", "n", "x", "y"}[:n]
	if rng.Intn(3) == 0 {
		// names that are prefixes of one another (placeholders and node ids are compared as strings)
		pool := []string{"viewer", "viewer_all", "view", "member", "members", "v"}
		rng.Shuffle(len(pool), func(a, b int) { pool[a], pool[b] = pool[b], pool[a] })
		names = pool[:n]
	}
	terms := []string{"user", "employee"}
	m := &Model{Schema: "1.1"}
	for _, t := range terms {
		m.Types = append(m.Types, Type{Name: t, MetaNil: true})
	}
	ty := Type{Name: "doc"}
	ty.Rels = append(ty.Rels, Rel{Name: "p", Rewrite: This(), Restr: []Ref{{Type: "doc"}}})
	for i, r := range names {
		refs := []Ref{}
		k := 1 + rng.Intn(3)
		for j := 0; j < k; j++ {
			refs = append(refs, Ref{Type: "doc", Rel: names[rng.Intn(n)]})
		}
		if rng.Intn(3) != 0 || i == 0 {
			refs = append(refs, Ref{Type: terms[rng.Intn(2)], Wildcard: rng.Intn(6) == 0})
		}
		rng.Shuffle(len(refs), func(a, b int) { refs[a], refs[b] = refs[b], refs[a] })
		var u *U
		switch rng.Intn(6) {
		case 0:
			u = Union(This(), CU(names[rng.Intn(n)]))
		case 1:
			u = Union(This(), TTU("p", names[rng.Intn(n)]))
		default:
			u = This()
		}
		ty.Rels = append(ty.Rels, Rel{Name: r, Rewrite: u, Restr: refs})
	}
	m.Types = append(m.Types, ty)
	return m
}

// GenNestedOps: operators of one kind nested three to four levels deep, the nested operand in every
// position (first, middle, last) — shapes in which the identity of operator nodes and the order of
// construction matter. Leaves are computed relations over one or two user types, so that most
// intersections are accepted.
func GenNestedOps(rng *rand.Rand) *Model {
	m := &Model{Schema: "1.1", Types: []Type{{Name: "user", MetaNil: true}, {Name: "employee", MetaNil: true}}}
	doc := Type{Name: "doc"}
	base := []string{"a", "b", "c", "d", "e"}
	for _, b := range base {
		rs := []Ref{{Type: "user"}}
		if rng.Intn(3) == 0 {
			rs = append(rs, Ref{Type: "employee"})
		}
		doc.Rels = append(doc.Rels, Rel{Name: b, Rewrite: This(), Restr: rs})
	}
	var tree func(kind string, depth int) *U
	tree = func(kind string, depth int) *U {
		if depth == 0 {
			return CU(base[rng.Intn(len(base))])
		}
		k := kind
		if rng.Intn(6) == 0 { // now and then another kind in between
			k = []string{"union", "inter"}[rng.Intn(2)]
		}
		n := 2 + rng.Intn(2)
		nested := rng.Intn(n)
		cs := []*U{}
		for i := 0; i < n; i++ {
			if i == nested || rng.Intn(4) == 0 {
				cs = append(cs, tree(kind, depth-1))
			} else {
				cs = append(cs, CU(base[rng.Intn(len(base))]))
			}
		}
		if k == "union" {
			return Union(cs...)
		}
		return Inter(cs...)
	}
	for i := 0; i < 1+rng.Intn(3); i++ {
		kind := []string{"union", "inter"}[rng.Intn(2)]
		doc.Rels = append(doc.Rels, Rel{Name: "x" + itoa(i), Rewrite: tree(kind, 3+rng.Intn(2))})
	}
	m.Types = append(m.Types, doc)
	return m
}

// GenSharedTarget: shapes in which two edges of one operator node end in the same node, or a node is the
// only way to a terminal type for one operand — what tells "the operand at this position" from "the edge to
// this node" — and isolated tuple cycles through an operator that reach no terminal type at all.
func GenSharedTarget(rng *rand.Rand) *Model {
	m := &Model{Schema: "1.1"}
	users := []string{"user", "employee", "service", "device"}
	nu := 2 + rng.Intn(3)
	for _, u := range users[:nu] {
		m.Types = append(m.Types, Type{Name: u})
	}
	pickUsers := func(k int) []Ref {
		out := []Ref{}
		for _, i := range rng.Perm(nu)[:k] {
			r := Ref{Type: users[i]}
			if rng.Intn(5) == 0 {
				r.Wildcard = true
			}
			out = append(out, r)
		}
		return out
	}
	op := func(kind int, a, b *U) *U {
		switch kind {
		case 0:
			return Diff(a, b)
		case 1:
			return Inter(a, b)
		case 2:
			return Diff(a, Union(b, b))
		default:
			return Inter(b, a)
		}
	}
	g := Type{Name: "group"}
	// member: several terminal types, the relation both a restriction of the base and the other operand refer to
	g.Rels = append(g.Rels, Rel{Name: "member", Rewrite: This(), Restr: pickUsers(1 + rng.Intn(nu))})
	g.Rels = append(g.Rels, Rel{Name: "other", Rewrite: This(), Restr: pickUsers(1 + rng.Intn(nu))})
	for i := 0; i < 1+rng.Intn(3); i++ {
		// [T, group#member, ...] <op> member   (a base edge and the other operand's edge end in group#member)
		restr := append(pickUsers(1+rng.Intn(2)), Ref{Type: "group", Rel: "member"})
		if rng.Intn(2) == 0 {
			restr = append(restr, Ref{Type: "group", Rel: "other"})
		}
		rng.Shuffle(len(restr), func(a, b int) { restr[a], restr[b] = restr[b], restr[a] })
		second := []string{"member", "member", "other"}[rng.Intn(3)]
		var rw *U
		switch k := rng.Intn(7); {
		case k < 4:
			rw = op(k, This(), CU(second))
		case k == 4:
			rw = Union(This(), CU(second)) // the direct edge to group#member and the rewrite edge to it under one union
		case k == 5:
			rw = Union(CU(second), This(), CU("other"))
		default:
			rw = Inter(CU(second), This())
		}
		g.Rels = append(g.Rels, Rel{Name: "x" + string(rune('0'+i)), Rewrite: rw, Restr: restr})
	}
	// an intersection whose only common type reaches one operand through a LATER entry of the base list of an exclusion
	if nu >= 2 {
		perm := rng.Perm(nu)
		a, b := users[perm[0]], users[perm[1]]
		g.Rels = append(g.Rels, Rel{Name: "blocked", Rewrite: This(), Restr: []Ref{{Type: a}}})
		base := []Ref{{Type: a}, {Type: b}}
		if rng.Intn(2) == 0 {
			base = []Ref{{Type: a}, {Type: "group", Rel: "other"}, {Type: b}}
		}
		g.Rels = append(g.Rels, Rel{Name: "allowed", Rewrite: Diff(This(), CU("blocked")), Restr: base})
		g.Rels = append(g.Rels, Rel{Name: "staff", Rewrite: This(), Restr: []Ref{{Type: b}}})
		if rng.Intn(2) == 0 {
			g.Rels = append(g.Rels, Rel{Name: "both", Rewrite: Inter(CU("allowed"), CU("staff"))})
		} else {
			g.Rels = append(g.Rels, Rel{Name: "both", Rewrite: Inter(CU("staff"), Union(CU("allowed"), CU("allowed")))})
		}
	}
	m.Types = append(m.Types, g)
	// TTUs over several parent types against a TTU over one of them
	fo := Type{Name: "folder", Rels: []Rel{{Name: "viewer", Rewrite: This(), Restr: pickUsers(1 + rng.Intn(nu))}}}
	or := Type{Name: "org", Rels: []Rel{{Name: "viewer", Rewrite: This(), Restr: pickUsers(1 + rng.Intn(nu))}}}
	d := Type{Name: "doc"}
	d.Rels = append(d.Rels, Rel{Name: "parent", Rewrite: This(), Restr: []Ref{{Type: "folder"}, {Type: "org"}}})
	d.Rels = append(d.Rels, Rel{Name: "owner", Rewrite: This(), Restr: []Ref{{Type: []string{"org", "folder"}[rng.Intn(2)]}}})
	d.Rels = append(d.Rels, Rel{Name: "can", Rewrite: op(rng.Intn(4), TTU("parent", "viewer"), TTU("owner", "viewer"))})
	if rng.Intn(2) == 0 {
		d.Rels = append(d.Rels, Rel{Name: "can2", Rewrite: op(rng.Intn(4), Union(TTU("parent", "viewer"), CU("can")), TTU("owner", "viewer"))})
	}
	// isolated tuple cycles through an operator that reach no terminal type (nothing else refers to them)
	for i := 0; i < rng.Intn(3); i++ {
		n := "loop" + string(rune('0'+i))
		switch rng.Intn(4) {
		case 0:
			d.Rels = append(d.Rels, Rel{Name: n, Rewrite: Union(This(), TTU("self", n)), Restr: []Ref{{Type: "doc", Rel: n}}})
		case 1:
			d.Rels = append(d.Rels, Rel{Name: n, Rewrite: Union(TTU("self", n), This()), Restr: []Ref{{Type: "doc", Rel: n}, {Type: "doc", Rel: n, Cond: "c1"}}})
		case 2:
			o := n + "b"
			d.Rels = append(d.Rels, Rel{Name: n, Rewrite: Union(This(), CU(o)), Restr: []Ref{{Type: "doc", Rel: o}}})
			d.Rels = append(d.Rels, Rel{Name: o, Rewrite: Union(This(), TTU("self", n)), Restr: []Ref{{Type: "doc", Rel: n}}})
		default:
			// the same with one terminal type: accepted, weights Infinite
			d.Rels = append(d.Rels, Rel{Name: n, Rewrite: Union(This(), TTU("self", n)), Restr: append([]Ref{{Type: "doc", Rel: n}}, pickUsers(1)...)})
		}
	}
	d.Rels = append(d.Rels, Rel{Name: "self", Rewrite: This(), Restr: []Ref{{Type: "doc"}}})
	m.Types = append(m.Types, fo, or, d)
	m.Conds = []Cond{{Name: "c1", Params: []Param{{Name: "x", Type: "int"}}, Expr: "x > 0"}}
	return m
}
