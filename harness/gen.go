package main

import (
	"fmt"
	"math/rand"
	"sort"
	"strings"
)

// ---------- name pools ----------

var typePool = []string{"user", "group", "doc", "folder", "org", "team", "employee", "type", "model", "schema", "relation", "module", "extend",
	"a.b", "x/y", "p-q", "t_1", "_t", "Doc2", "doc2", "ns/sub.item-1", "self"}
var relPool = []string{"viewer", "editor", "owner", "member", "parent", "admin", "viewer_all", "view", "can_view", "type", "model", "schema",
	"relation", "module", "extend", "r.s", "u/v", "w-x", "_r", "R9", "define_x", "from_y", "organ", "andy", "butter",
	// names that differ only in letter case, and a name that is a prefix of another continued by a digit or '-'
	"Viewer", "VIEWER", "Owner", "view2", "view-all"}
var condPool = []string{"c", "cc", "cond", "is_valid", "in_range", "non_expired", "C-1", "_c", "Cond", "isOwner", "isowner", "c2", "c-1"}
var paramPool = []string{"x", "y", "ip", "ts", "user_ip", "n", "allowed", "P1", "_p", "x1", "x-1", "ip2", "IP", "p1", "N"}
var paramTypes = []string{"bool", "string", "int", "uint", "double", "duration", "timestamp", "ipaddress"}
var exprPool = []string{
	"x < 100", "x == y", "x != \"a b\" && y", "ip.in_cidr(\"10.0.0.0/8\")", "ts + duration(\"1h\") >= now || !(x)", "n in [1, 2, 3]",
	"allowed[\"k\"] == 'v'", "x > 1.5e3 ? true : false", "size(x) % 2 == 0u", "x.y.z == null", "a-b <= -1", "x*y/2 - 0x1F > 0",
	"type == model", "x  ==  y", "b\"ab\" != r'c'",
	"low <= x &&\n  x <= high", "n in [\n    1,\n    2,\n  3]", "x == 1 ||\n\n      y == 2 ||\nz",
	// quotes that do not pair up naively, '#' inside literals (never preceded by a blank: that is a comment
	// to the pre-pass, see KF-C03-hash-in-literal)
	"x == \"a\\\"b\"", "x == '\"'", "\"\"\"a\"b\"\"\" != x", "x != \"#\" && y == '#'", "x == \"a#b\"", "x == r\"\\\"", "x == 'it\\'s' || x == \"\\\\\"",
	// the condition grammar admits an empty body
	"",
}

func pick(rng *rand.Rand, xs []string) string { return xs[rng.Intn(len(xs))] }

type GenOpts struct {
	DSLValid bool // only models in the image of the DSL parser (one `this`, first position, restrictions iff this, …)
	Modular  bool // module/file attribution on the merged model (JSON side), not a module *file*
	MaxTypes int
	MaxRels  int
	MaxDepth int
	Conds    bool
	Plain    bool // simple names only
	Large    bool // some types with 13-45 relations and up to 30 types (sort implementations switch algorithm with size)
}

var relPoolLarge, typePoolLarge = func() ([]string, []string) {
	rs := append([]string{}, relPool...)
	ts := append([]string{}, typePool...)
	for i := 0; i < 50; i++ {
		rs = append(rs, fmt.Sprintf("%c%c%d", 'a'+i%7, 'k'+(i*5)%11, i%10), fmt.Sprintf("R%02d", (i*37)%100))
		ts = append(ts, fmt.Sprintf("%c%ct%d", 'b'+i%5, 'o'+(i*3)%7, i%10))
	}
	dedup := func(xs []string) []string {
		seen := map[string]bool{}
		out := []string{}
		for _, x := range xs {
			if !seen[x] {
				seen[x] = true
				out = append(out, x)
			}
		}
		return out
	}
	return dedup(rs), dedup(ts)
}()

func genNames(rng *rand.Rand, pool []string, n int, plain bool) []string {
	seen := map[string]bool{}
	out := []string{}
	for len(out) < n {
		var s string
		if plain {
			s = pool[rng.Intn(min(8, len(pool)))]
		} else {
			s = pick(rng, pool)
		}
		if !seen[s] {
			seen[s] = true
			out = append(out, s)
		}
	}
	return out
}

// genLeafND: computed or TTU
func genLeafND(rng *rand.Rand, rels []string) *U {
	if rng.Intn(3) == 0 {
		return TTU(pick(rng, rels), pick(rng, relPool[:8]))
	}
	return CU(pick(rng, rels))
}

// genTreeAny: arbitrary rewrite tree; `this` anywhere, any multiplicity
func genTreeAny(rng *rand.Rand, rels []string, depth int) *U {
	if depth <= 0 || rng.Intn(3) == 0 {
		switch rng.Intn(4) {
		case 0:
			return This()
		default:
			return genLeafND(rng, rels)
		}
	}
	switch rng.Intn(3) {
	case 0:
		n := 1 + rng.Intn(3)
		if rng.Intn(5) > 0 && n == 1 {
			n = 2
		}
		cs := make([]*U, n)
		for i := range cs {
			cs[i] = genTreeAny(rng, rels, depth-1)
		}
		return Union(cs...)
	case 1:
		n := 1 + rng.Intn(3)
		if rng.Intn(5) > 0 && n == 1 {
			n = 2
		}
		cs := make([]*U, n)
		for i := range cs {
			cs[i] = genTreeAny(rng, rels, depth-1)
		}
		return Inter(cs...)
	default:
		return Diff(genTreeAny(rng, rels, depth-1), genTreeAny(rng, rels, depth-1))
	}
}

// genTreeDSL: a tree in the image of the parser: operators have >= 2 operands, at most one `this`
// and only in "first position" (first operand / base, recursively from the root).
func genTreeDSL(rng *rand.Rand, rels []string, depth int, allowThis bool) *U {
	if depth <= 0 || rng.Intn(3) == 0 {
		if allowThis && rng.Intn(2) == 0 {
			return This()
		}
		return genLeafND(rng, rels)
	}
	first := genTreeDSL(rng, rels, depth-1, allowThis)
	switch rng.Intn(3) {
	case 0, 1:
		n := 1 + rng.Intn(3)
		cs := []*U{first}
		for i := 0; i < n; i++ {
			cs = append(cs, genTreeDSL(rng, rels, depth-1, false))
		}
		if rng.Intn(3) == 0 {
			return Inter(cs...)
		}
		return Union(cs...)
	default:
		return Diff(first, genTreeDSL(rng, rels, depth-1, false))
	}
}

func genRestr(rng *rand.Rand, types []string, conds []string, plain bool) []Ref {
	n := 1 + rng.Intn(4)
	out := []Ref{}
	for i := 0; i < n; i++ {
		r := Ref{Type: pick(rng, types)}
		switch rng.Intn(4) {
		case 0:
			r.Wildcard = true
		case 1:
			if plain {
				r.Rel = pick(rng, relPool[:8])
			} else {
				r.Rel = pick(rng, relPool)
			}
		}
		if len(conds) > 0 && rng.Intn(3) == 0 {
			r.Cond = pick(rng, conds)
		}
		out = append(out, r)
		if rng.Intn(6) == 0 { // duplicate / conditioned twin
			d := r
			if len(conds) > 0 && rng.Intn(2) == 0 {
				d.Cond = pick(rng, conds)
			}
			out = append(out, d)
		}
	}
	return out
}

func genConds(rng *rand.Rand, n int) []Cond {
	pool := condPool
	if n > len(condPool) {
		pool = append(append([]string{}, condPool...), "k1", "k2", "k3", "k4", "k5", "K6", "k_7", "k-8", "zz", "Zz")
	}
	names := genNames(rng, pool, n, false)
	out := []Cond{}
	for _, nm := range names {
		c := Cond{Name: nm, Expr: pick(rng, exprPool)}
		np := 1 + rng.Intn(3)
		if n > len(condPool) && rng.Intn(3) == 0 {
			np = 13 + rng.Intn(3) // more than a dozen parameters
		}
		pn := genNames(rng, paramPool, np, false)
		for _, p := range pn {
			pr := Param{Name: p, Type: pick(rng, paramTypes)}
			if rng.Intn(4) == 0 {
				pr.Type = []string{"list", "map"}[rng.Intn(2)]
				pr.Generic = pick(rng, paramTypes)
			}
			c.Params = append(c.Params, pr)
		}
		c.NoMeta = true
		out = append(out, c)
	}
	return out
}

// GenModel generates one model.
func GenModel(rng *rand.Rand, o GenOpts) *Model {
	if o.MaxTypes == 0 {
		o.MaxTypes = 5
	}
	if o.MaxRels == 0 {
		o.MaxRels = 5
	}
	if o.MaxDepth == 0 {
		o.MaxDepth = 4
	}
	m := &Model{Schema: []string{"1.1", "1.1", "1.2", "1.0", "2.10"}[rng.Intn(5)]}
	types := genNames(rng, typePool, 1+rng.Intn(o.MaxTypes), o.Plain)
	if o.Large && rng.Intn(2) == 0 {
		types = genNames(rng, typePoolLarge, 13+rng.Intn(18), false)
	}
	// degenerate outline: a model without any type definition (header only, or header and conditions)
	noTypes := !o.Large && rng.Intn(25) == 0
	if noTypes {
		types = nil
	}
	var condNames []string
	if noTypes && o.Conds && rng.Intn(4) != 0 {
		m.Conds = genConds(rng, 1+rng.Intn(3))
	} else if o.Conds && o.Large && rng.Intn(3) == 0 {
		m.Conds = genConds(rng, 14+rng.Intn(6)) // more than a dozen conditions
		for _, c := range m.Conds {
			condNames = append(condNames, c.Name)
		}
	} else if o.Conds && rng.Intn(2) == 0 {
		m.Conds = genConds(rng, 1+rng.Intn(2))
		for _, c := range m.Conds {
			condNames = append(condNames, c.Name)
		}
	}
	modules := []string{"core", "billing", "wiki"}
	for _, tn := range types {
		t := Type{Name: tn}
		nrel := rng.Intn(o.MaxRels + 1)
		rels := genNames(rng, relPool, max(nrel, 1), o.Plain)
		if o.Large && rng.Intn(3) == 0 {
			nrel = 13 + rng.Intn(33)
			rels = genNames(rng, relPoolLarge, nrel, false)
		}
		if nrel == 0 {
			rels = rels[:0]
		}
		relsForRefs := rels
		if len(relsForRefs) == 0 {
			relsForRefs = relPool[:4]
		}
		for _, rn := range rels {
			r := Rel{Name: rn}
			if o.DSLValid {
				r.Rewrite = genTreeDSL(rng, relsForRefs, rng.Intn(o.MaxDepth+1), true)
				if r.Rewrite.CountThis() > 0 {
					r.Restr = genRestr(rng, types, condNames, o.Plain)
				}
			} else {
				r.Rewrite = genTreeAny(rng, relsForRefs, rng.Intn(o.MaxDepth+1))
				switch {
				case r.Rewrite.CountThis() > 0 || rng.Intn(4) == 0:
					r.Restr = genRestr(rng, types, condNames, o.Plain)
				case rng.Intn(4) == 0:
					r.NoMeta = true
				}
			}
			if o.Large && rng.Intn(6) == 0 {
				// an operator with more than a dozen operands (sort and hoist routines change behaviour with size);
				// the direct assignment stands anywhere unless the model must be a parser image
				n := 13 + rng.Intn(15)
				cs := []*U{}
				for k := 0; k < n; k++ {
					cs = append(cs, genLeafND(rng, relsForRefs))
				}
				if rng.Intn(4) != 0 {
					pos := 0
					if !o.DSLValid {
						pos = rng.Intn(n)
					}
					cs[pos] = This()
				}
				if rng.Intn(2) == 0 {
					r.Rewrite = Union(cs...)
				} else {
					r.Rewrite = Inter(cs...)
				}
				r.Restr, r.NoMeta = nil, false
				if r.Rewrite.CountThis() > 0 {
					r.Restr = genRestr(rng, types, condNames, o.Plain)
				}
			}
			t.Rels = append(t.Rels, r)
		}
		if o.DSLValid {
			// parser image: metadata nil iff no relations (non-modular)
			t.MetaNil = len(t.Rels) == 0 && !o.Modular
		} else if rng.Intn(5) == 0 {
			t.MetaNil = true
		}
		if o.Modular {
			// module, file and name are drawn independently (their orders need not agree); a file may be
			// missing although a module is set, and the other way round
			// (a '%' in a file name: the name is text, never a format string)
			files := []string{"", "a.fga", "b.fga", "m/x.fga", "z.fga", "core/f.fga", "p%d/q%s.fga"}
			t.Module = pick(rng, modules)
			t.File = pick(rng, files)
			if rng.Intn(8) == 0 {
				t.Module = ""
			}
			t.MetaNil = false
			if !o.DSLValid && rng.Intn(4) == 0 {
				// a type without any metadata object inside a modular model (legal in hand-written / API JSON)
				t.MetaNil = true
				t.Module, t.File = "", ""
			}
			for i := range t.Rels {
				if t.MetaNil {
					break
				}
				if rng.Intn(2) == 0 { // relation contributed by an extension
					t.Rels[i].Module = pick(rng, modules)
					t.Rels[i].File = pick(rng, files)
					if rng.Intn(8) == 0 {
						t.Rels[i].Module = ""
					}
					t.Rels[i].NoMeta = false
				}
			}
		}
		m.Types = append(m.Types, t)
	}
	if o.Modular {
		for i := range m.Conds {
			m.Conds[i].NoMeta = false
			m.Conds[i].Module = pick(rng, modules)
			m.Conds[i].File = pick(rng, []string{"", "a.fga", "b.fga", "z.fga"})
			if rng.Intn(8) == 0 {
				m.Conds[i].Module = ""
			}
		}
	}
	if !o.DSLValid {
		emptyRelSometimes(rng, m, 6)
	}
	return m
}

// ---------- exhaustive rewrite trees ----------

// EnumTrees returns all rewrite trees with exactly n nodes over the given leaves, with
// binary/ternary union and intersection and binary difference.
func EnumTrees(n int, leaves []*U, memo map[int][]*U) []*U {
	if v, ok := memo[n]; ok {
		return v
	}
	var out []*U
	if n == 1 {
		out = leaves
	} else {
		// binary
		for a := 1; a <= n-2; a++ {
			b := n - 1 - a
			if b < 1 {
				continue
			}
			for _, x := range EnumTrees(a, leaves, memo) {
				for _, y := range EnumTrees(b, leaves, memo) {
					out = append(out, Union(x, y), Inter(x, y), Diff(x, y))
				}
			}
		}
		// ternary
		for a := 1; a <= n-3; a++ {
			for b := 1; a+b <= n-2; b++ {
				c := n - 1 - a - b
				if c < 1 {
					continue
				}
				for _, x := range EnumTrees(a, leaves, memo) {
					for _, y := range EnumTrees(b, leaves, memo) {
						for _, z := range EnumTrees(c, leaves, memo) {
							out = append(out, Union(x, y, z), Inter(x, y, z))
						}
					}
				}
			}
		}
	}
	memo[n] = out
	return out
}

// ---------- independent expressibility predicate and normal form (C02) ----------

// Expressible: no `this`, or exactly one and every step from the root to it is
// "first child / base" — or it is a direct child of a union/intersection (it is hoisted).
func Expressible(u *U) bool {
	switch u.CountThis() {
	case 0:
		return allOpsNonEmpty(u)
	case 1:
		return allOpsNonEmpty(u) && firstPos(u)
	}
	return false
}

func allOpsNonEmpty(u *U) bool {
	if u == nil || u.Kind == "nil" {
		return false
	}
	if (u.Kind == "union" || u.Kind == "inter") && len(u.Children) == 0 {
		return false
	}
	for _, c := range u.Children {
		if !allOpsNonEmpty(c) {
			return false
		}
	}
	return true
}

func firstPos(u *U) bool {
	switch u.Kind {
	case "this":
		return true
	case "diff":
		return firstPos(u.Children[0])
	case "union", "inter":
		for _, c := range u.Children {
			if c.Kind == "this" {
				return true
			}
		}
		return firstPos(u.Children[0])
	}
	return false
}

// Normalize: hoist the direct assignment inside its union/intersection and collapse
// single-child unions/intersections (what a DSL round trip is allowed to change).
func Normalize(u *U) *U {
	if u == nil {
		return nil
	}
	c := &U{Kind: u.Kind, Rel: u.Rel, Tupleset: u.Tupleset}
	for _, ch := range u.Children {
		c.Children = append(c.Children, Normalize(ch))
	}
	if c.Kind == "union" || c.Kind == "inter" {
		for i, ch := range c.Children {
			if ch.Kind == "this" {
				if i > 0 {
					rest := append([]*U{}, c.Children[:i]...)
					rest = append(rest, c.Children[i+1:]...)
					c.Children = append([]*U{ch}, rest...)
				}
				break
			}
		}
		if len(c.Children) == 1 {
			return c.Children[0]
		}
	}
	return c
}

func (u *U) String() string {
	if u == nil {
		return "nil"
	}
	switch u.Kind {
	case "this":
		return "this"
	case "cu":
		return u.Rel
	case "ttu":
		return u.Rel + " from " + u.Tupleset
	case "nil":
		return "nil"
	}
	parts := []string{}
	for _, c := range u.Children {
		parts = append(parts, c.String())
	}
	return u.Kind + "(" + strings.Join(parts, ", ") + ")"
}

func (u *U) Equal(v *U) bool {
	if u == nil || v == nil {
		return u == v
	}
	if u.Kind != v.Kind || u.Rel != v.Rel || u.Tupleset != v.Tupleset || len(u.Children) != len(v.Children) {
		return false
	}
	for i := range u.Children {
		if !u.Children[i].Equal(v.Children[i]) {
			return false
		}
	}
	return true
}

var _ = fmt.Sprintf
var _ = sort.Strings
