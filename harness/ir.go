package main

import (
	"math/rand"
	"sort"
	"strings"

	openfgav1 "github.com/openfga/api/proto/openfga/v1"
)

// A small IR mirroring the Lean Ast; generators produce it, then it is turned into protobuf
// (for the real code) and rendered as DSL by the independent renderer.

type U struct {
	Kind     string // this | cu | ttu | union | inter | diff | nil
	Rel      string // cu: relation; ttu: computed relation
	Tupleset string
	Children []*U // union/inter: operands; diff: [base, subtract]
}

type Ref struct {
	Type     string
	Rel      string
	Wildcard bool
	Cond     string
	EmptyRel bool // the relation oneof case is present but empty (what `"relation": ""` in JSON gives): a direct type
}

// emptyRelSometimes turns a few plain type restrictions into the present-but-empty relation form.
func emptyRelSometimes(rng *rand.Rand, m *Model, oneIn int) *Model {
	if rng.Intn(oneIn) != 0 {
		return m
	}
	for ti := range m.Types {
		for ri := range m.Types[ti].Rels {
			rs := m.Types[ti].Rels[ri].Restr
			for k := range rs {
				if rs[k].Rel == "" && !rs[k].Wildcard && rng.Intn(3) == 0 {
					rs[k].EmptyRel = true
				}
			}
		}
	}
	return m
}

type Rel struct {
	Raw     string // if set, the renderer writes this text as the relation definition (violation injection)
	Name    string
	Rewrite *U
	Restr   []Ref
	NoMeta  bool // no RelationMetadata entry at all
	Module  string
	File    string
}

type Type struct {
	Name    string
	Rels    []Rel
	Module  string
	File    string
	MetaNil bool // Metadata == nil
	Extend  bool // module files: `extend type`
}

type Param struct {
	Name    string
	Type    string // lower-case DSL name
	Generic string
}

type Cond struct {
	Name   string
	Key    string // map key (normally == Name)
	Expr   string
	Params []Param
	Module string
	File   string
	NoMeta bool
}

type Model struct {
	RawHeader string // if set, written instead of the model/module header (violation injection)
	Schema    string
	Types     []Type
	Conds     []Cond
	Module    string // module files: `module <name>` header instead of model/schema
}

func This() *U            { return &U{Kind: "this"} }
func CU(r string) *U      { return &U{Kind: "cu", Rel: r} }
func TTU(ts, c string) *U { return &U{Kind: "ttu", Tupleset: ts, Rel: c} }
func Union(cs ...*U) *U   { return &U{Kind: "union", Children: cs} }
func Inter(cs ...*U) *U   { return &U{Kind: "inter", Children: cs} }
func Diff(b, s *U) *U     { return &U{Kind: "diff", Children: []*U{b, s}} }

func (u *U) Clone() *U {
	if u == nil {
		return nil
	}
	c := *u
	c.Children = make([]*U, len(u.Children))
	for i, ch := range u.Children {
		c.Children[i] = ch.Clone()
	}
	return &c
}

func (u *U) CountThis() int {
	if u == nil {
		return 0
	}
	if u.Kind == "this" {
		return 1
	}
	n := 0
	for _, c := range u.Children {
		n += c.CountThis()
	}
	return n
}

func (u *U) Size() int {
	if u == nil {
		return 1
	}
	n := 1
	for _, c := range u.Children {
		n += c.Size()
	}
	return n
}

func (u *U) Depth() int {
	if u == nil {
		return 0
	}
	d := 0
	for _, c := range u.Children {
		if x := c.Depth(); x > d {
			d = x
		}
	}
	return d + 1
}

func (u *U) Proto() *openfgav1.Userset {
	if u == nil {
		return nil
	}
	switch u.Kind {
	case "this":
		return &openfgav1.Userset{Userset: &openfgav1.Userset_This{This: &openfgav1.DirectUserset{}}}
	case "this-nopayload":
		return &openfgav1.Userset{Userset: &openfgav1.Userset_This{}}
	case "cu":
		return &openfgav1.Userset{Userset: &openfgav1.Userset_ComputedUserset{ComputedUserset: &openfgav1.ObjectRelation{Relation: u.Rel}}}
	case "ttu":
		return &openfgav1.Userset{Userset: &openfgav1.Userset_TupleToUserset{TupleToUserset: &openfgav1.TupleToUserset{
			Tupleset: &openfgav1.ObjectRelation{Relation: u.Tupleset}, ComputedUserset: &openfgav1.ObjectRelation{Relation: u.Rel}}}}
	case "union", "inter":
		cs := make([]*openfgav1.Userset, len(u.Children))
		for i, c := range u.Children {
			cs[i] = c.Proto()
		}
		if u.Kind == "union" {
			return &openfgav1.Userset{Userset: &openfgav1.Userset_Union{Union: &openfgav1.Usersets{Child: cs}}}
		}
		return &openfgav1.Userset{Userset: &openfgav1.Userset_Intersection{Intersection: &openfgav1.Usersets{Child: cs}}}
	case "diff":
		return &openfgav1.Userset{Userset: &openfgav1.Userset_Difference{Difference: &openfgav1.Difference{Base: u.Children[0].Proto(), Subtract: u.Children[1].Proto()}}}
	case "nil":
		return &openfgav1.Userset{}
	}
	return nil
}

func paramTypeEnum(s string) openfgav1.ConditionParamTypeRef_TypeName {
	v, ok := openfgav1.ConditionParamTypeRef_TypeName_value["TYPE_NAME_"+strings.ToUpper(s)]
	if !ok {
		return openfgav1.ConditionParamTypeRef_TYPE_NAME_UNSPECIFIED
	}
	return openfgav1.ConditionParamTypeRef_TypeName(v)
}

func (r Ref) Proto() *openfgav1.RelationReference {
	p := &openfgav1.RelationReference{Type: r.Type, Condition: r.Cond}
	if r.Wildcard {
		p.RelationOrWildcard = &openfgav1.RelationReference_Wildcard{Wildcard: &openfgav1.Wildcard{}}
	} else if r.Rel != "" || r.EmptyRel {
		p.RelationOrWildcard = &openfgav1.RelationReference_Relation{Relation: r.Rel}
	}
	return p
}

func (m *Model) Proto() *openfgav1.AuthorizationModel {
	out := &openfgav1.AuthorizationModel{SchemaVersion: m.Schema}
	for _, t := range m.Types {
		td := &openfgav1.TypeDefinition{Type: t.Name}
		if len(t.Rels) > 0 {
			td.Relations = map[string]*openfgav1.Userset{}
		}
		if !t.MetaNil {
			td.Metadata = &openfgav1.Metadata{Module: t.Module}
			if t.File != "" {
				td.Metadata.SourceInfo = &openfgav1.SourceInfo{File: t.File}
			}
		}
		for _, r := range t.Rels {
			td.Relations[r.Name] = r.Rewrite.Proto()
			if !t.MetaNil && !r.NoMeta {
				if td.Metadata.Relations == nil {
					td.Metadata.Relations = map[string]*openfgav1.RelationMetadata{}
				}
				rm := &openfgav1.RelationMetadata{Module: r.Module}
				if r.File != "" {
					rm.SourceInfo = &openfgav1.SourceInfo{File: r.File}
				}
				rm.DirectlyRelatedUserTypes = []*openfgav1.RelationReference{}
				for _, ref := range r.Restr {
					rm.DirectlyRelatedUserTypes = append(rm.DirectlyRelatedUserTypes, ref.Proto())
				}
				td.Metadata.Relations[r.Name] = rm
			}
		}
		out.TypeDefinitions = append(out.TypeDefinitions, td)
	}
	if len(m.Conds) > 0 {
		out.Conditions = map[string]*openfgav1.Condition{}
	}
	for _, c := range m.Conds {
		pc := &openfgav1.Condition{Name: c.Name, Expression: c.Expr, Parameters: map[string]*openfgav1.ConditionParamTypeRef{}}
		for _, p := range c.Params {
			ref := &openfgav1.ConditionParamTypeRef{TypeName: paramTypeEnum(p.Type)}
			if p.Generic != "" {
				ref.GenericTypes = []*openfgav1.ConditionParamTypeRef{{TypeName: paramTypeEnum(p.Generic)}}
			}
			pc.Parameters[p.Name] = ref
		}
		if !c.NoMeta {
			pc.Metadata = &openfgav1.ConditionMetadata{Module: c.Module}
			if c.File != "" {
				pc.Metadata.SourceInfo = &openfgav1.SourceInfo{File: c.File}
			}
		}
		key := c.Key
		if key == "" {
			key = c.Name
		}
		out.Conditions[key] = pc
	}
	return out
}

// ---------- canonical S-expression of a protobuf model (shared format with Lean Codec) ----------

func canonUserset(u *openfgav1.Userset) string {
	if u == nil {
		return "nil"
	}
	switch x := u.GetUserset().(type) {
	case *openfgav1.Userset_This:
		return "this"
	case *openfgav1.Userset_ComputedUserset:
		return L("cu", Q(x.ComputedUserset.GetRelation()))
	case *openfgav1.Userset_TupleToUserset:
		return L("ttu", Q(x.TupleToUserset.GetTupleset().GetRelation()), Q(x.TupleToUserset.GetComputedUserset().GetRelation()))
	case *openfgav1.Userset_Union:
		items := []string{"union"}
		for _, c := range x.Union.GetChild() {
			items = append(items, canonUserset(c))
		}
		return L(items...)
	case *openfgav1.Userset_Intersection:
		items := []string{"inter"}
		for _, c := range x.Intersection.GetChild() {
			items = append(items, canonUserset(c))
		}
		return L(items...)
	case *openfgav1.Userset_Difference:
		return L("diff", canonUserset(x.Difference.GetBase()), canonUserset(x.Difference.GetSubtract()))
	}
	return "nil"
}

func paramTypeName(t openfgav1.ConditionParamTypeRef_TypeName) string {
	return strings.ToLower(strings.ReplaceAll(t.String(), "TYPE_NAME_", ""))
}

func sortedKeys[V any](m map[string]V) []string {
	ks := make([]string, 0, len(m))
	for k := range m {
		ks = append(ks, k)
	}
	sort.Strings(ks)
	return ks
}

func canonRef(r *openfgav1.RelationReference) string {
	return L(Q(r.GetType()), Q(r.GetRelation()), B(r.GetWildcard() != nil), Q(r.GetCondition()))
}

func canonType(td *openfgav1.TypeDefinition) string {
	rels := []string{}
	for _, k := range sortedKeys(td.GetRelations()) {
		rels = append(rels, L(Q(k), canonUserset(td.GetRelations()[k])))
	}
	md := "nometa"
	if td.GetMetadata() != nil {
		rms := []string{}
		for _, k := range sortedKeys(td.GetMetadata().GetRelations()) {
			rm := td.GetMetadata().GetRelations()[k]
			refs := []string{}
			for _, r := range rm.GetDirectlyRelatedUserTypes() {
				refs = append(refs, canonRef(r))
			}
			rms = append(rms, L(Q(k), Q(rm.GetModule()), Q(rm.GetSourceInfo().GetFile()), L(refs...)))
		}
		md = L("meta", Q(td.GetMetadata().GetModule()), Q(td.GetMetadata().GetSourceInfo().GetFile()), L(rms...))
	}
	return L("type", Q(td.GetType()), L(rels...), md)
}

func canonCond(key string, c *openfgav1.Condition) string {
	ps := []string{}
	for _, k := range sortedKeys(c.GetParameters()) {
		p := c.GetParameters()[k]
		gs := []string{}
		for _, g := range p.GetGenericTypes() {
			gs = append(gs, Q(paramTypeName(g.GetTypeName())))
		}
		ps = append(ps, L(Q(k), Q(paramTypeName(p.GetTypeName())), L(gs...)))
	}
	md := "nometa"
	if c.GetMetadata() != nil {
		md = L("meta", Q(c.GetMetadata().GetModule()), Q(c.GetMetadata().GetSourceInfo().GetFile()))
	}
	return L(Q(key), Q(c.GetName()), Q(c.GetExpression()), L(ps...), md)
}

func canonModel(m *openfgav1.AuthorizationModel) string {
	if m == nil {
		return "nil"
	}
	ts := []string{}
	for _, td := range m.GetTypeDefinitions() {
		ts = append(ts, canonType(td))
	}
	cs := []string{}
	for _, k := range sortedKeys(m.GetConditions()) {
		cs = append(cs, canonCond(k, m.GetConditions()[k]))
	}
	return L("model", Q(m.GetSchemaVersion()), L(ts...), L(cs...))
}
