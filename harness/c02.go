package main

import (
	"math/rand"
	"strings"

	openfgav1 "github.com/openfga/api/proto/openfga/v1"
	"github.com/openfga/language/pkg/go/transformer"
	"github.com/openfga/language/pkg/go/utils"
	"google.golang.org/protobuf/proto"
)

// expectedAfterRoundTrip is what parsing the printed DSL must give back for model m, per C02:
// direct assignment hoisted, single-child union/intersection collapsed, restrictions of
// relations without `this` dropped, metadata as the parser produces it (absent vs empty).
func expectedAfterRoundTrip(m *Model) *Model {
	e := &Model{Schema: m.Schema}
	modular := false
	for _, t := range m.Types {
		if !t.MetaNil && t.Module != "" {
			modular = true
		}
	}
	types := append([]Type{}, m.Types...)
	if modular {
		stableSortTypes(types)
	}
	for _, t := range types {
		nt := Type{Name: t.Name, MetaNil: len(t.Rels) == 0}
		for _, r := range t.Rels {
			nr := Rel{Name: r.Name, Rewrite: Normalize(r.Rewrite)}
			if r.Rewrite.CountThis() > 0 && !t.MetaNil && !r.NoMeta {
				nr.Restr = r.Restr
			}
			nt.Rels = append(nt.Rels, nr)
		}
		e.Types = append(e.Types, nt)
	}
	for _, c := range m.Conds {
		e.Conds = append(e.Conds, Cond{Name: c.Name, Expr: strings.TrimSpace(c.Expr), Params: c.Params, NoMeta: true})
	}
	return e
}

func sortByModuleCmp(aName, bName, aMod, bMod, aFile, bFile string) int {
	switch {
	case aMod == "" && bMod == "":
		return strings.Compare(aName, bName)
	case aMod == "":
		return -1
	case bMod == "":
		return 1
	case aMod != bMod:
		return strings.Compare(aMod, bMod)
	case aFile != bFile:
		return strings.Compare(aFile, bFile)
	}
	return strings.Compare(aName, bName)
}

func stableSortTypes(ts []Type) {
	// insertion sort (stable), independent of the repository's code
	for i := 1; i < len(ts); i++ {
		for j := i; j > 0; j-- {
			a, b := ts[j-1], ts[j]
			am, af, bm, bf := a.Module, a.File, b.Module, b.File
			if a.MetaNil {
				am, af = "", ""
			}
			if b.MetaNil {
				bm, bf = "", ""
			}
			if sortByModuleCmp(a.Name, b.Name, am, bm, af, bf) > 0 {
				ts[j-1], ts[j] = ts[j], ts[j-1]
			} else {
				break
			}
		}
	}
}

func modelExpressible(m *Model) bool {
	for _, t := range m.Types {
		for _, r := range t.Rels {
			if !Expressible(r.Rewrite) {
				return false
			}
		}
	}
	return true
}

// a relation with a direct assignment but no type restriction at all (prints "[]")
func modelHasUnrestrictedThis(m *Model) bool {
	for _, t := range m.Types {
		for _, r := range t.Rels {
			if r.Rewrite.CountThis() > 0 && (t.MetaNil || r.NoMeta || len(r.Restr) == 0) {
				return true
			}
		}
	}
	return false
}

// c02Check runs the printer correspondence and the C02 oracles for one model.
func c02Check(c *Ctx, m *Model, stream string) {
	c.R.Evaluations++
	pm := m.Proto()
	canon := canonModel(pm)
	out, text, ok := realPrint(pm, false)
	c.D.Add("corr:printer/"+stream, L("model2dsl", canon, "false"), out, map[string]any{"model": canon})
	input := map[string]any{"model": canon, "printed": text}
	fail := func(detail string) { c.OracleFail("c02:"+stream, input, detail, out) }
	if strings.HasPrefix(out, "(panic") {
		fail("printer panicked")
		return
	}
	condsOK := true
	for _, cd := range m.Conds {
		if cd.Key != "" && cd.Key != cd.Name {
			condsOK = false
		}
		for _, p := range cd.Params {
			if (p.Type == "list" || p.Type == "map") && p.Generic == "" {
				condsOK = false
			}
		}
	}
	expr := modelExpressible(m)
	if condsOK {
		if ok != expr {
			fail("printer success (" + B(ok) + ") differs from DSL-expressibility (" + B(expr) + ")")
			return
		}
		if !ok && !isNestingErr(out) {
			fail("inexpressible model is not reported with the unsupported-nesting error")
			return
		}
	}
	if !ok {
		return
	}
	if strings.Contains(text, "[") {
		c.Nontrivial(canon)
	}
	// IsRelationAssignable must agree with the presence of a [..] restriction in the output
	for _, t := range m.Types {
		for _, r := range t.Rels {
			assignable := utils.IsRelationAssignable(r.Rewrite.Proto())
			line := ""
			for _, l := range strings.Split(text, "\n") {
				if strings.HasPrefix(l, "    define "+r.Name+": ") {
					line = l
				}
			}
			// only unambiguous when the type is the only one defining r.Name
			n := 0
			for _, t2 := range m.Types {
				for _, r2 := range t2.Rels {
					if r2.Name == r.Name {
						n++
					}
				}
			}
			if n == 1 && assignable != strings.Contains(line, "[") {
				fail("IsRelationAssignable(" + t.Name + "#" + r.Name + ")=" + B(assignable) + " but printed relation is " + line)
			}
		}
	}
	// loses nothing: parse(print m) == normalize m
	var perr error
	parsed, perr := transformer.TransformDSLToProto(text)
	if perr != nil && modelHasUnrestrictedThis(m) && strings.Contains(text, "[]") && c.Known.Open("KF-C02-empty-restrictions") {
		c.KnownHit("KF-C02-empty-restrictions", input)
		return
	}
	if perr != nil {
		fail("printed DSL does not parse: " + perr.Error())
		return
	}
	want := canonModel(expectedAfterRoundTrip(m).Proto())
	got := canonModel(parsed)
	if want != got {
		c.OracleFail("c02:"+stream, map[string]any{"model": canon, "printed": text, "want": want, "got": got},
			"parsing the printed DSL does not give back the model up to the allowed normalisations", out)
	}
}

// stripThisPayload turns every `this` of the rewrite into the bare oneof case
func stripThisPayload(u *openfgav1.Userset) {
	switch x := u.GetUserset().(type) {
	case *openfgav1.Userset_This:
		x.This = nil
	case *openfgav1.Userset_Union:
		for _, c := range x.Union.GetChild() {
			stripThisPayload(c)
		}
	case *openfgav1.Userset_Intersection:
		for _, c := range x.Intersection.GetChild() {
			stripThisPayload(c)
		}
	case *openfgav1.Userset_Difference:
		stripThisPayload(x.Difference.GetBase())
		stripThisPayload(x.Difference.GetSubtract())
	}
}

func c02TreeModel(u *U) *Model {
	return &Model{Schema: "1.1", Types: []Type{
		{Name: "user", MetaNil: true},
		{Name: "doc", Rels: []Rel{
			{Name: "a", Rewrite: This(), Restr: []Ref{{Type: "user"}}},
			{Name: "p", Rewrite: This(), Restr: []Ref{{Type: "doc"}}},
			{Name: "r", Rewrite: u, Restr: []Ref{{Type: "user"}, {Type: "doc", Rel: "a"}}},
		}},
	}}
}

func init() {
	props["C02"] = func(c *Ctx) {
		c.R.Rule = "(a) every rewrite tree with <= N nodes over leaves {this, computed, ttu} and binary/ternary union, intersection, difference " +
			"(exhaustive: every position and multiplicity of the direct assignment); (b) random deep models with conditions, modular metadata, " +
			"missing metadata, single-child operators; (c) degenerate trees. Each goes through the real printer and the Lean port (correspondence); oracles: " +
			"success <=> independent path-based expressibility, error is unsupported-nesting, parse(print m) = normalize m, IsRelationAssignable <=> '[' printed. " +
			"non-trivial = distinct model printed successfully with a direct assignment"
		leaves := []*U{This(), CU("a"), TTU("p", "a")}
		memo := map[int][]*U{}
		maxN := c.Pick(7, 8)
		total := 0
		for n := 1; n <= maxN; n++ {
			for _, u := range EnumTrees(n, leaves, memo) {
				c02Check(c, c02TreeModel(u), "trees")
				total++
				// the DSL parser writes a direct assignment as the bare oneof case (no DirectUserset payload), JSON
				// loading with the payload: the same model either way, so the printer must say the same in every
				// position of the tree
				if u.CountThis() > 0 {
					with := c02TreeModel(u).Proto()
					bare := proto.Clone(with).(*openfgav1.AuthorizationModel)
					for _, td := range bare.GetTypeDefinitions() {
						for _, rw := range td.GetRelations() {
							stripThisPayload(rw)
						}
					}
					o1, _, _ := realPrint(with, false)
					o2, _, _ := realPrint(bare, false)
					c.Dist("trees_printed_without_payload")
					if o1 != o2 {
						c.OracleFail("c02:payload", map[string]any{"model": canonModel(with), "tree": u.String()},
							"the printer treats a direct assignment without DirectUserset payload (the DSL parser's form) differently from one with it", "with payload: "+trunc(o1, 300)+" | without: "+trunc(o2, 300))
					}
				}
			}
		}
		c.DistN("exhaustive_trees", total)
		c.DistN("exhaustive_trees_max_nodes", maxN)
		c.R.Exhaustive = false
		rng := rand.New(rand.NewSource(c.Seed))
		n := c.Pick(1500, 40000)
		for i := 0; i < n; i++ {
			o := GenOpts{Conds: true, Modular: rng.Intn(3) == 0, MaxDepth: 2 + rng.Intn(5), DSLValid: rng.Intn(3) == 0}
			if i%10 == 9 {
				o.Large, o.MaxDepth = true, 1
				c.Dist("large_models")
			}
			m := GenModel(rng, o)
			c02Check(c, m, "random")
			c.Dist("random_models")
		}
		// (c) degenerate
		for _, u := range []*U{Union(), Inter(), Union(This()), Inter(CU("a")), Union(Union(This())), Diff(Union(), CU("a")), Union(CU("a"), Inter()),
			{Kind: "nil"}, Union(CU("a"), &U{Kind: "nil"}), Diff(&U{Kind: "nil"}, This()), Union(&U{Kind: "this-nopayload"}, CU("a"))} {
			if u.Kind == "union" && len(u.Children) == 2 && u.Children[0].Kind == "this-nopayload" {
				// the parser's own shape of `this` (no payload): must print like a payload-carrying one
				m := c02TreeModel(Union(This(), CU("a")))
				pm := m.Proto()
				pm.TypeDefinitions[1].Relations["r"] = u.Proto()
				out, _, ok := realPrint(pm, false)
				if !ok {
					c.OracleFail("c02:degenerate", map[string]any{"model": "this without payload or a"}, "direct assignment without payload is not printed", out)
				}
				continue
			}
			c02Check(c, c02TreeModel(u), "degenerate")
			c.Dist("degenerate")
		}
		c.Sample(map[string]any{"tree": Union(CU("a"), This(), Diff(TTU("p", "a"), CU("a"))).String(), "expressible": Expressible(Union(CU("a"), This(), Diff(TTU("p", "a"), CU("a"))))})
		c.Sample(map[string]any{"tree": Diff(CU("a"), This()).String(), "expressible": Expressible(Diff(CU("a"), This()))})
	}
}
