package main

import (
	"math/rand"
	"sort"
	"strings"

	openfgav1 "github.com/openfga/api/proto/openfga/v1"
	"google.golang.org/protobuf/proto"
)

func canonModelSortedTypes(m *openfgav1.AuthorizationModel) string {
	c := proto.Clone(m).(*openfgav1.AuthorizationModel)
	sort.SliceStable(c.TypeDefinitions, func(i, j int) bool { return c.TypeDefinitions[i].GetType() < c.TypeDefinitions[j].GetType() })
	return canonModel(c)
}

func permutations(n int, limit int, rng *rand.Rand) [][]int {
	if n <= 4 {
		var out [][]int
		var rec func(cur []int, used []bool)
		rec = func(cur []int, used []bool) {
			if len(cur) == n {
				out = append(out, append([]int{}, cur...))
				return
			}
			for i := 0; i < n; i++ {
				if !used[i] {
					used[i] = true
					rec(append(cur, i), used)
					used[i] = false
				}
			}
		}
		rec(nil, make([]bool, n))
		if len(out) > limit {
			rng.Shuffle(len(out), func(i, j int) { out[i], out[j] = out[j], out[i] })
			out = out[:limit]
		}
		return out
	}
	out := [][]int{}
	for i := 0; i < limit; i++ {
		out = append(out, rng.Perm(n))
	}
	return out
}

func init() {
	props["C12"] = func(c *Ctx) {
		c.R.Rule = "module sets as in C07, biased to several extending files and 2-3 simultaneous conflicts; each set is merged k times (Go map iteration varies between calls) and under " +
			"permutations of the file list (all permutations for <= 4 files in the thorough tier); oracles on the real merger: identical outcome (model, or error list with messages, files, " +
			"positions, order) across repetitions; verdict invariant under permutation; on success the models agree up to the order of type definitions; correspondence: real vs Lean port for every " +
			"permutation. non-trivial = distinct set with >= 2 files that yields >= 2 errors or has >= 2 extending files"
		rng := rand.New(rand.NewSource(c.Seed))
		ModSetDupNames = true
		defer func() { ModSetDupNames = false }()
		n := c.Pick(500, 8000)
		reps := c.Pick(5, 20)
		maxPerms := c.Pick(6, 24)
		for i := 0; i < n; i++ {
			nc := 0
			if rng.Intn(3) > 0 {
				nc = 1 + rng.Intn(3) // a single conflict too: were it missed, the merge would succeed and the orders could differ
			}
			ms := GenModSet(rng, nc)
			ms.Render(rng)
			c.R.Evaluations++
			input := map[string]any{"files": filesInput(ms)}
			first := realMerge(ms.Names, ms.Texts, "1.2")
			if first.Frame != "" {
				c.OracleFail("c12:frame", map[string]any{"files": filesInput(ms)}, first.Frame+" (the same list handed in again is then another list)", "")
			}
			c.D.Add("corr:merge/repeat", mergeOp(ms.Names, ms.Texts, "1.2"), first.Out, input)
			c.D.Add("hyp:FilesWF/repeat", mergeWFOp(ms.Names, ms.Texts), "(wf true)", input)
			extFiles := 0
			for _, f := range ms.Files {
				for _, t := range f.Types {
					if t.Extend {
						extFiles++
						break
					}
				}
			}
			if len(ms.Files) >= 2 && (len(first.Errs) >= 2 || extFiles >= 2) {
				c.Nontrivial(first.Out)
			}
			bad := false
			for r := 0; r < reps; r++ {
				again := realMerge(ms.Names, ms.Texts, "1.2")
				if again.Out != first.Out {
					c.OracleFail("c12:repeat", input, "two invocations on the same list of files give different outcomes", first.Out+"  VS  "+again.Out)
					bad = true
					break
				}
			}
			if bad || len(ms.Files) < 2 {
				continue
			}
			for _, p := range permutations(len(ms.Files), maxPerms, rng) {
				names := make([]string, len(p))
				texts := make([]string, len(p))
				for j, k := range p {
					names[j], texts[j] = ms.Names[k], ms.Texts[k]
				}
				pr := realMerge(names, texts, "1.2")
				c.D.Add("corr:merge/permuted", mergeOp(names, texts, "1.2"), pr.Out, map[string]any{"names": names})
				c.Dist("permutations")
				if (pr.Model != nil) != (first.Model != nil) {
					c.OracleFail("c12:permute", map[string]any{"files": filesInput(ms), "permutation": p}, "permuting the file list changes whether the merge succeeds", first.Out[:min(200, len(first.Out))]+"  VS  "+pr.Out[:min(200, len(pr.Out))])
					break
				}
				if pr.Model != nil && canonModelSortedTypes(pr.Model) != canonModelSortedTypes(first.Model) {
					c.OracleFail("c12:permute", map[string]any{"files": filesInput(ms), "permutation": p}, "permuting the file list changes the merged model beyond the order of type definitions", "")
					break
				}
			}
		}
		c.Sample(map[string]any{"note": "see C07 sample for the shape of a module set"})
		_ = strings.Join
	}
}
