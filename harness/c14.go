package main

import (
	"bytes"
	"encoding/json"
	"math/rand"
	"regexp"
	"sort"
	"strings"

	openfgav1 "github.com/openfga/api/proto/openfga/v1"
	"github.com/openfga/language/pkg/go/transformer"
	"google.golang.org/protobuf/encoding/protojson"
	"google.golang.org/protobuf/proto"
)

// shuffledJSON re-serialises a JSON document with object keys in random order.
func shuffledJSON(rng *rand.Rand, v any, buf *bytes.Buffer) {
	switch x := v.(type) {
	case map[string]any:
		keys := make([]string, 0, len(x))
		for k := range x {
			keys = append(keys, k)
		}
		// sort first (map order is random but not seeded), then shuffle with the seeded rng
		sortStrings(keys)
		rng.Shuffle(len(keys), func(i, j int) { keys[i], keys[j] = keys[j], keys[i] })
		buf.WriteByte('{')
		for i, k := range keys {
			if i > 0 {
				buf.WriteByte(',')
			}
			kb, _ := json.Marshal(k)
			buf.Write(kb)
			buf.WriteByte(':')
			shuffledJSON(rng, x[k], buf)
		}
		buf.WriteByte('}')
	case []any:
		buf.WriteByte('[')
		for i, e := range x {
			if i > 0 {
				buf.WriteByte(',')
			}
			shuffledJSON(rng, e, buf)
		}
		buf.WriteByte(']')
	default:
		b, _ := json.Marshal(x)
		buf.Write(b)
	}
}

func sortStrings(a []string) {
	for i := 1; i < len(a); i++ {
		for j := i; j > 0 && a[j-1] > a[j]; j-- {
			a[j-1], a[j] = a[j], a[j-1]
		}
	}
}

// stripComments cuts every line at its first " #" and right-trims it.
func stripComments(s string) string {
	lines := strings.Split(s, "\n")
	for i, l := range lines {
		// only a line that carries a comment is cut (a line of blanks, e.g. the body of a condition with an
		// empty expression, is content and stays as it is)
		if j := strings.Index(l, " #"); j >= 0 {
			l = strings.TrimRight(l[:j], " ")
		}
		lines[i] = l
	}
	return strings.Join(lines, "\n")
}

var c14CondLine = regexp.MustCompile(`^condition ([^\s(]+)\((.*)\) \{$`)

// c14DocumentedOrder checks the orderings the property documents on the printed text itself.
func c14DocumentedOrder(dsl string, modular bool, fail func(string)) {
	sortedStrs := func(xs []string) bool { return sort.StringsAreSorted(xs) }
	var rels, conds []string
	flushRels := func() {
		if !modular && !sortedStrs(rels) {
			fail("relations of a type are not printed in name order: " + strings.Join(rels, ", "))
		}
		rels = nil
	}
	for _, line := range strings.Split(dsl, "\n") {
		if strings.HasPrefix(line, "type ") {
			flushRels()
		}
		if strings.HasPrefix(line, "    define ") {
			rest := strings.TrimPrefix(line, "    define ")
			if i := strings.Index(rest, ":"); i > 0 {
				rels = append(rels, rest[:i])
			}
		}
		if mm := c14CondLine.FindStringSubmatch(line); mm != nil {
			flushRels()
			conds = append(conds, mm[1])
			names := []string{}
			if mm[2] != "" {
				for _, p := range strings.Split(mm[2], ", ") {
					if i := strings.Index(p, ": "); i > 0 {
						names = append(names, p[:i])
					}
				}
			}
			if !sortedStrs(names) {
				fail("condition parameters are not printed in name order: " + strings.Join(names, ", "))
			}
		}
	}
	flushRels()
	if !modular && !sortedStrs(conds) {
		fail("conditions are not printed in name order: " + strings.Join(conds, ", "))
	}
}

// c14ModularRelationOrder: in a modular model the relations of a type are printed by (module, file,
// name) with unattributed ones first. The expected order is computed from the generator's own record
// of each relation's attribution with an insertion sort and the comparator written from the property's
// text (sortByModuleCmp), not from the repository's code or the Lean port.
func c14ModularRelationOrder(m *Model, dsl string, fail func(string)) {
	modular := false
	for _, t := range m.Types {
		if !t.MetaNil && t.Module != "" {
			modular = true
		}
	}
	if !modular {
		return
	}
	printed := map[string][]string{}
	cur := ""
	for _, line := range strings.Split(dsl, "\n") {
		switch {
		case strings.HasPrefix(line, "type "):
			if f := strings.Fields(line); len(f) >= 2 {
				cur = f[1]
			}
		case strings.HasPrefix(line, "condition "):
			cur = ""
		case strings.HasPrefix(line, "    define ") && cur != "":
			rest := strings.TrimPrefix(line, "    define ")
			if i := strings.Index(rest, ":"); i > 0 {
				printed[cur] = append(printed[cur], rest[:i])
			}
		}
	}
	type rk struct{ name, mod, file string }
	for _, t := range m.Types {
		ks := []rk{}
		for _, r := range t.Rels {
			k := rk{r.Name, r.Module, r.File}
			if t.MetaNil || r.NoMeta {
				k.mod, k.file = "", ""
			}
			ks = append(ks, k)
		}
		for i := 1; i < len(ks); i++ {
			for j := i; j > 0 && sortByModuleCmp(ks[j-1].name, ks[j].name, ks[j-1].mod, ks[j].mod, ks[j-1].file, ks[j].file) > 0; j-- {
				ks[j-1], ks[j] = ks[j], ks[j-1]
			}
		}
		want := []string{}
		for _, k := range ks {
			want = append(want, k.name)
		}
		got := printed[t.Name]
		if len(got) == len(want) && strings.Join(got, ",") != strings.Join(want, ",") {
			fail("relations of the modular type " + t.Name + " are not printed by module, file, name (unattributed first): printed " +
				strings.Join(got, ", ") + "; documented order " + strings.Join(want, ", "))
			return
		}
	}
}

func c14One(c *Ctx, rng *rand.Rand, m *Model, stream string) {
	c.R.Evaluations++
	pm := m.Proto()
	canon := canonModel(pm)
	input := map[string]any{"model": canon}
	fail := func(detail string, extra map[string]any) {
		in := map[string]any{"model": canon}
		for k, v := range extra {
			in[k] = v
		}
		c.OracleFail("c14:"+stream, in, detail, "")
	}
	outPlain, plain, ok := realPrint(pm, false)
	c.D.Add("corr:printer/"+stream, L("model2dsl", canon, "false"), outPlain, input)
	outSrc, src, okSrc := realPrint(pm, true)
	c.D.Add("corr:printer-srcinfo/"+stream, L("model2dsl", canon, "true"), outSrc, input)
	if ok != okSrc {
		fail("printing with and without source information disagree on success", nil)
		return
	}
	if !ok {
		c.Dist("inexpressible")
		return
	}
	modular := strings.Contains(src, "# module:") || strings.Contains(src, " module: ")
	if modular {
		c.Nontrivial(canon)
	}
	// documented order, read off the real output independently of the port: condition parameters by
	// name; relations of a plain (non-modular) type by name; conditions of a plain model by name
	c14DocumentedOrder(plain, modular, func(detail string) { fail(detail, map[string]any{"dsl": plain}) })
	c14ModularRelationOrder(m, plain, func(detail string) { fail(detail, map[string]any{"dsl": plain}) })
	// repeated calls
	for i := 0; i < 2; i++ {
		_, again, _ := realPrint(pm, false)
		_, againSrc, _ := realPrint(pm, true)
		if again != plain || againSrc != src {
			fail("repeated call gives different DSL", map[string]any{"first": plain, "again": again})
			return
		}
	}
	// JSON key order
	jb, err := protojson.Marshal(pm)
	if err == nil {
		var generic any
		if json.Unmarshal(jb, &generic) == nil {
			for i := 0; i < 3; i++ {
				var buf bytes.Buffer
				shuffledJSON(rng, generic, &buf)
				d, err := transformer.TransformJSONStringToDSL(buf.String())
				if err != nil || *d != plain {
					got := ""
					if d != nil {
						got = *d
					}
					fail("a JSON encoding with different key order prints differently", map[string]any{"json": buf.String(), "plain": plain, "got": got})
					return
				}
			}
		}
	}
	// type definition order (modular models only; otherwise declaration order is kept by design)
	isModular := false
	for _, t := range pm.GetTypeDefinitions() {
		if t.GetMetadata().GetModule() != "" {
			isModular = true
		}
	}
	names := map[string]bool{}
	distinct := true
	for _, t := range pm.GetTypeDefinitions() {
		if names[t.GetType()] {
			distinct = false
		}
		names[t.GetType()] = true
	}
	if isModular && distinct {
		for i := 0; i < 3; i++ {
			sh := proto.Clone(pm).(*openfgav1.AuthorizationModel)
			rng.Shuffle(len(sh.TypeDefinitions), func(i, j int) {
				sh.TypeDefinitions[i], sh.TypeDefinitions[j] = sh.TypeDefinitions[j], sh.TypeDefinitions[i]
			})
			_, d, _ := realPrint(sh, false)
			if d != plain {
				fail("a modular model prints differently under a permutation of its type definitions", map[string]any{"plain": plain, "got": d})
				return
			}
		}
	}
	// source-information comments are inert
	newlineInName := false
	for _, t := range m.Types {
		if strings.ContainsAny(t.Module+t.File, "\n\r") {
			newlineInName = true
		}
		for _, r := range t.Rels {
			if strings.ContainsAny(r.Module+r.File, "\n\r") {
				newlineInName = true
			}
		}
	}
	for _, cd := range m.Conds {
		if strings.ContainsAny(cd.Module+cd.File, "\n\r") {
			newlineInName = true
		}
	}
	if stripComments(src) != plain {
		if newlineInName && c.Known.Open("KF-C14-newline-in-source-name") {
			c.KnownHit("KF-C14-newline-in-source-name", map[string]any{"model": canon, "with_source_info": src})
			return
		}
		fail("stripping the comments of the source-information output does not give the plain output", map[string]any{"plain": plain, "src": src})
		return
	}
	m1, e1 := transformer.TransformDSLToProto(plain)
	m2, e2 := transformer.TransformDSLToProto(src)
	if (e1 == nil) != (e2 == nil) || (e1 == nil && canonModel(m1) != canonModel(m2)) {
		fail("plain and source-information outputs do not parse to the same model", map[string]any{"plain": plain, "src": src})
	}
}

func init() {
	props["C14"] = func(c *Ctx) {
		c.R.Rule = "generated models (plain and modular with module/file attribution on types, extension relations and conditions) printed with both values of " +
			"WithIncludeSourceInformation; oracles on the real printer: byte equality across repeated calls, across 3 JSON encodings with shuffled object keys, across 3 permutations of the " +
			"type definitions (modular, distinct names); strip(source-info output) == plain output and both parse to the same model; correspondence with the Lean printer for both " +
			"options (this is what pins the documented order). non-trivial = distinct modular model printed with source comments"
		rng := rand.New(rand.NewSource(c.Seed))
		n := c.Pick(800, 10000)
		for i := 0; i < n; i++ {
			o := GenOpts{Conds: true, Modular: rng.Intn(3) > 0, MaxDepth: 1 + rng.Intn(4), DSLValid: rng.Intn(4) > 0}
			if i%8 == 7 {
				// large: more than a dozen relations per type / types per model (sort routines change algorithm with size)
				o.Large, o.MaxDepth = true, 1
			}
			m := GenModel(rng, o)
			c14One(c, rng, m, "generated")
			if o.Large {
				c.Dist("large_models")
			}
		}
		// the excluded point of srcinfo_inert: a module / file name containing a newline
		w := &Model{Schema: "1.2", Types: []Type{{Name: "user", Module: "core", File: "a\ntype injected"}, {Name: "doc", Module: "core", File: "core.fga",
			Rels: []Rel{{Name: "v", Rewrite: This(), Restr: []Ref{{Type: "user"}}}}}}}
		c14One(c, rng, w, "newline-in-name")
		c.Sample(map[string]any{"model": canonModel(w.Proto())})
	}
}
