package main

import (
	"fmt"
	"math/rand"
	"strings"

	"github.com/openfga/language/pkg/go/transformer"
)

// nestND wraps a violating relationDefNoDirect text at the given depth on the right of operators.
func nestND(rng *rand.Rand, inner string, depth int) string {
	s := inner
	for i := 0; i < depth; i++ {
		op := []string{"or", "and", "but not"}[rng.Intn(3)]
		s = fmt.Sprintf("x %s (%s)", op, s)
	}
	return s
}

type violation struct {
	kind  string
	apply func(rng *rand.Rand, m *Model) bool // false if there is no site in this model
}

func pickRelSite(rng *rand.Rand, m *Model) (ti, ri int, ok bool) {
	cands := [][2]int{}
	for i, t := range m.Types {
		for j := range t.Rels {
			cands = append(cands, [2]int{i, j})
		}
	}
	if len(cands) == 0 {
		return 0, 0, false
	}
	c := cands[rng.Intn(len(cands))]
	return c[0], c[1], true
}

func rawRel(kindf func(rng *rand.Rand, depth int) string) func(rng *rand.Rand, m *Model) bool {
	return func(rng *rand.Rand, m *Model) bool {
		ti, ri, ok := pickRelSite(rng, m)
		if !ok {
			return false
		}
		m.Types[ti].Rels[ri].Raw = kindf(rng, rng.Intn(4))
		return true
	}
}

var c09Catalogue = []violation{
	{"mixed-operators", rawRel(func(rng *rand.Rand, d int) string {
		ops := [][2]string{{"or", "and"}, {"and", "or"}, {"or", "but not"}, {"but not", "or"}, {"and", "but not"}, {"but not", "and"}, {"but not", "but not"}}
		o := ops[rng.Intn(len(ops))]
		inner := fmt.Sprintf("a %s b %s c", o[0], o[1])
		if rng.Intn(2) == 0 {
			inner = fmt.Sprintf("a %s b %s c %s d from e", o[0], o[0], o[1])
		}
		if d == 0 && rng.Intn(2) == 0 {
			inner = "[user] " + o[0] + " b " + o[1] + " c"
		}
		return nestND(rng, inner, d)
	})},
	{"direct-not-first", rawRel(func(rng *rand.Rand, d int) string {
		inner := []string{"a or [user]", "a and [user]", "a but not [user]", "a or b or [user, group#member]", "a or ([user] or b)", "a or (b or [user])", "a from b or [user]"}[rng.Intn(7)]
		return nestND(rng, inner, d)
	})},
	{"empty-restriction", rawRel(func(rng *rand.Rand, d int) string {
		inner := []string{"[]", "[ ]", "[] or a", "[,]", "[user,]", "[,user]", "[user,,group]", "[\n    ]", "[\n      user,\n    ]", "[\n      ,\n      user\n    ]"}[rng.Intn(10)]
		if d > 0 {
			return "(" + strings.Repeat("(", d-1) + inner + strings.Repeat(")", d-1) + ") or a"
		}
		return inner
	})},
	{"wildcard-and-relation", rawRel(func(rng *rand.Rand, d int) string {
		lists := []string{"[user:*#member]", "[user#member:*]", "[group, user:*#member]", "[user:*#member with c]", "[user:*:*]", "[user#a#b]",
			// one restriction per line, the offending one alone on its line, first, in the middle and last
			"[\n      user:*#member\n    ]", "[\n      user,\n      group:*#member\n    ]", "[\n      group:*#member,\n      user\n    ]",
			"[\n      user,\n      group:*#member with c\n    ]", "[ user,\n      group#member:*\n    ]", "[\n      user, group:*#member\n    ]"}
		return lists[rng.Intn(len(lists))] + []string{"", " or a", " and b from c"}[rng.Intn(3)]
	})},
	{"duplicate-relation", func(rng *rand.Rand, m *Model) bool {
		ti, ri, ok := pickRelSite(rng, m)
		if !ok {
			return false
		}
		t := &m.Types[ti]
		dup := t.Rels[ri]
		dup.Rewrite = CU("z")
		dup.Restr = nil
		pos := rng.Intn(len(t.Rels) + 1)
		t.Rels = append(t.Rels[:pos], append([]Rel{dup}, t.Rels[pos:]...)...)
		return true
	}},
	{"duplicate-condition", func(rng *rand.Rand, m *Model) bool {
		if len(m.Conds) == 0 {
			m.Conds = genConds(rng, 1)
		}
		dup := m.Conds[rng.Intn(len(m.Conds))]
		dup.Expr = []string{"1 == 1", "1 == 1", ""}[rng.Intn(3)]
		pos := rng.Intn(len(m.Conds) + 1)
		m.Conds = append(m.Conds[:pos], append([]Cond{dup}, m.Conds[pos:]...)...)
		return true
	}},
	{"duplicate-parameter", func(rng *rand.Rand, m *Model) bool {
		if len(m.Conds) == 0 {
			m.Conds = genConds(rng, 1)
		}
		c := &m.Conds[rng.Intn(len(m.Conds))]
		dup := c.Params[rng.Intn(len(c.Params))]
		dup.Type = "int"
		dup.Generic = ""
		pos := rng.Intn(len(c.Params) + 1)
		c.Params = append(c.Params[:pos], append([]Param{dup}, c.Params[pos:]...)...)
		return true
	}},
	{"extend-in-model", func(rng *rand.Rand, m *Model) bool {
		if m.Module != "" || len(m.Types) == 0 {
			return false
		}
		m.Types[rng.Intn(len(m.Types))].Extend = true
		return true
	}},
	{"extend-twice", func(rng *rand.Rand, m *Model) bool {
		if m.Module == "" || len(m.Types) == 0 {
			return false
		}
		i := rng.Intn(len(m.Types))
		m.Types[i].Extend = true
		dup := m.Types[i]
		dup.Rels = []Rel{{Name: "zz", Rewrite: CU("y")}}
		pos := rng.Intn(len(m.Types) + 1)
		m.Types = append(m.Types[:pos], append([]Type{dup}, m.Types[pos:]...)...)
		return true
	}},
	{"no-header-nothing-else", func(rng *rand.Rand, m *Model) bool {
		// neither header, at its degenerate site: a document that declares nothing at all (empty, blank lines,
		// comments only) - the only error there is to report stands at the very first position
		m.Types, m.Conds = nil, nil
		m.RawHeader = []string{" ", "\n", "\n\n  \n", "# only a comment", "  # a comment\n\n# another", "\t", "\r\n"}[rng.Intn(7)]
		return true
	}},
	{"bad-headers", func(rng *rand.Rand, m *Model) bool {
		m.RawHeader = []string{"model\n  schema 1.1\nmodule core", "module core\nmodel\n  schema 1.1", "type first", "model", "schema 1.1",
			"model\n  schema 1.1\nmodel\n  schema 1.1", "module a\nmodule b", "model\n  schema", "module", "model schema 1.1"}[rng.Intn(10)]
		return true
	}},
	{"container-param", func(rng *rand.Rand, m *Model) bool {
		if len(m.Conds) == 0 {
			m.Conds = genConds(rng, 1)
		}
		c := &m.Conds[rng.Intn(len(m.Conds))]
		p := &c.Params[rng.Intn(len(c.Params))]
		p.Generic = ""
		p.Type = []string{"list", "map", "list<list<int>>", "map<map<string>>", "list<map<int>>", "list<>", "int<string>", "list<int", "map<list>"}[rng.Intn(9)]
		return true
	}},
}

func init() {
	props["C09"] = func(c *Ctx) {
		c.R.Rule = "valid generated models (model files and module files) x one injected structural violation from an 12-kind catalogue x random injection site " +
			"(type, relation, operand position, nesting depth 0-3) x random layout; oracle on the real parser: non-nil error and nil model from TransformDSLToProto and " +
			"TransformModularDSLToProto; correspondence: real parser vs Lean clean+walk (listener-raised errors with positions). non-trivial = distinct rejected text per kind"
		rng := rand.New(rand.NewSource(c.Seed))
		n := c.Pick(180, 700)
		sites := c.Pick(3, 8)
		for i := 0; i < n; i++ {
			for _, v := range c09Catalogue {
				for s := 0; s < sites; s++ {
					var m *Model
					if v.kind == "extend-twice" || (v.kind != "extend-in-model" && rng.Intn(4) == 0) {
						m = GenModuleFile(rng, "core")
					} else {
						m = GenModel(rng, GenOpts{DSLValid: true, Conds: rng.Intn(2) == 0, MaxDepth: 1 + rng.Intn(3)})
					}
					if !v.apply(rng, m) {
						c.Dist("no_site:" + v.kind)
						continue
					}
					var lay *rand.Rand
					if rng.Intn(2) == 0 {
						lay = rand.New(rand.NewSource(rng.Int63()))
					}
					text, _ := Render(m, lay)
					c.R.Evaluations++
					c.Dist("kind:" + v.kind)
					out := dslCorr(c, v.kind, text)
					m1, e1 := transformer.TransformDSLToProto(text)
					m2, _, e2 := transformer.TransformModularDSLToProto(text)
					if e1 == nil || m1 != nil || e2 == nil || m2 != nil {
						c.OracleFail("c09:"+v.kind, map[string]any{"dsl": text, "violation": v.kind}, "structurally invalid document is not rejected with an error and a nil model", out)
						continue
					}
					c.Nontrivial(v.kind + "|" + text)
					if i == 0 && s == 0 {
						c.Sample(map[string]any{"kind": v.kind, "dsl": text, "result": out})
					}
				}
			}
		}
	}
}
