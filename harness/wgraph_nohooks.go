//go:build !verif

package main

import (
	openfgav1 "github.com/openfga/api/proto/openfga/v1"
	"github.com/openfga/language/pkg/go/graph"
)

const hooksAvailable = false

func hookWBuild(m *openfgav1.AuthorizationModel, order []string) (wResult, []string) {
	return wResult{Err: "hooks-unavailable"}, nil
}

// without the hook the structure is only observable on accepted models
func realWStruct(m *openfgav1.AuthorizationModel) (string, string) {
	var g *graph.WeightedAuthorizationModelGraph
	var err error
	if p := safely(func() { g, err = wBuilder().Build(m) }); p != "" {
		return "", "panic:" + p
	}
	if err != nil {
		return "", "hooks-unavailable"
	}
	return dumpWGraph(g, false).Struct, ""
}
