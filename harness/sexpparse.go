package main

import (
	"strconv"
	"strings"
)

// SX is a parsed S-expression (driver output).
type SX struct {
	Atom  string
	IsStr bool
	List  []*SX
	IsLst bool
}

func parseSX(s string) *SX {
	p := &sxParser{s: []rune(s)}
	return p.read()
}

type sxParser struct {
	s []rune
	i int
}

func (p *sxParser) ws() {
	for p.i < len(p.s) && (p.s[p.i] == ' ' || p.s[p.i] == '\n' || p.s[p.i] == '\t') {
		p.i++
	}
}

func (p *sxParser) read() *SX {
	p.ws()
	if p.i >= len(p.s) {
		return nil
	}
	switch p.s[p.i] {
	case '(':
		p.i++
		x := &SX{IsLst: true}
		for {
			p.ws()
			if p.i >= len(p.s) {
				return x
			}
			if p.s[p.i] == ')' {
				p.i++
				return x
			}
			x.List = append(x.List, p.read())
		}
	case '"':
		p.i++
		var b strings.Builder
		for p.i < len(p.s) && p.s[p.i] != '"' {
			if p.s[p.i] == '\\' && p.i+1 < len(p.s) {
				p.i++
				switch p.s[p.i] {
				case 'n':
					b.WriteRune('\n')
				case 'r':
					b.WriteRune('\r')
				case 't':
					b.WriteRune('\t')
				case 'u':
					j := p.i + 2
					k := j
					for k < len(p.s) && p.s[k] != '}' {
						k++
					}
					v, _ := strconv.ParseInt(string(p.s[j:k]), 16, 32)
					b.WriteRune(rune(v))
					p.i = k
				default:
					b.WriteRune(p.s[p.i])
				}
				p.i++
				continue
			}
			b.WriteRune(p.s[p.i])
			p.i++
		}
		p.i++
		return &SX{Atom: b.String(), IsStr: true}
	default:
		j := p.i
		for p.i < len(p.s) && !strings.ContainsRune(" ()\"\n\t", p.s[p.i]) {
			p.i++
		}
		return &SX{Atom: string(p.s[j:p.i])}
	}
}

func (x *SX) Head() string {
	if x != nil && x.IsLst && len(x.List) > 0 && !x.List[0].IsLst {
		return x.List[0].Atom
	}
	return ""
}
