package main

import (
	"fmt"
	"math/rand"
	"os"
	"path/filepath"
	"sort"
	"strings"
	"time"

	openfgav1 "github.com/openfga/api/proto/openfga/v1"
	"github.com/openfga/language/pkg/go/graph"
	"github.com/openfga/language/pkg/go/transformer"
	"github.com/openfga/language/pkg/go/utils"
	"gopkg.in/yaml.v3"
)

// timed runs f under recover with a watchdog; returns (panic message, elapsed, timedOut).
func timed(limit time.Duration, f func()) (string, time.Duration, bool) {
	done := make(chan string, 1)
	start := time.Now()
	go func() { done <- safely(f) }()
	select {
	case p := <-done:
		return p, time.Since(start), false
	case <-time.After(limit):
		return "", time.Since(start), true
	}
}

func corpusSeeds() (dsl []string, jsn []string, mods []string) {
	_ = filepath.Walk("/repo/tests/data", func(path string, info os.FileInfo, err error) error {
		if err != nil || info.IsDir() {
			return nil
		}
		b, err := os.ReadFile(path)
		if err != nil || len(b) > 6000 {
			return nil
		}
		switch {
		case strings.HasSuffix(path, ".fga"):
			dsl = append(dsl, string(b))
		case strings.HasSuffix(path, ".json"):
			jsn = append(jsn, string(b))
		}
		return nil
	})
	// DSL snippets and mod files embedded in the YAML case files
	for _, f := range []string{"dsl-syntax-validation-cases.yaml", "fga-mod-transformer-cases.yaml"} {
		b, err := os.ReadFile("/repo/tests/data/" + f)
		if err != nil {
			continue
		}
		var cases []map[string]any
		if yaml.Unmarshal(b, &cases) != nil {
			continue
		}
		for _, cs := range cases {
			if s, ok := cs["dsl"].(string); ok && len(s) < 4000 {
				dsl = append(dsl, s)
			}
			if s, ok := cs["modFile"].(string); ok {
				mods = append(mods, s)
			}
		}
	}
	mods = append(mods, "schema: '1.2'\ncontents:\n  - a.fga\n  - b/c.fga\n")
	return
}

var fuzzTokens = []string{"model", "schema", "1.1", "type", "relations", "define", "extend", "module", "condition", "[", "]", "(", ")", "{", "}", ":", ",", "#", "*", " or ", " and ",
	" but not ", " from ", " with ", "\n", "\n  ", "\n    ", " ", "\t", "\r\n", "\f", "<", ">", "list", "map", "string", "int", "'", "\"", "\\", "//", "==", "&&", "\x00", "é", "%", "-", "- ", ": ", "!!str ", "&a ", "*a", "|", "'1.2'"}

func mutate(rng *rand.Rand, s string) string {
	b := []byte(s)
	n := 1 + rng.Intn(4)
	for i := 0; i < n; i++ {
		if len(b) == 0 {
			b = []byte(fuzzTokens[rng.Intn(len(fuzzTokens))])
			continue
		}
		p := rng.Intn(len(b))
		switch rng.Intn(9) {
		case 0: // delete a chunk
			q := min(len(b), p+1+rng.Intn(12))
			b = append(b[:p], b[q:]...)
		case 1: // insert a token
			t := fuzzTokens[rng.Intn(len(fuzzTokens))]
			b = append(b[:p], append([]byte(t), b[p:]...)...)
		case 2: // replace a byte
			b[p] = byte(rng.Intn(256))
		case 3: // duplicate a chunk
			q := min(len(b), p+1+rng.Intn(40))
			chunk := append([]byte{}, b[p:q]...)
			b = append(b[:q], append(chunk, b[q:]...)...)
		case 4: // truncate
			b = b[:p]
		case 5: // swap two lines
			lines := strings.Split(string(b), "\n")
			if len(lines) > 1 {
				i, j := rng.Intn(len(lines)), rng.Intn(len(lines))
				lines[i], lines[j] = lines[j], lines[i]
				b = []byte(strings.Join(lines, "\n"))
			}
		case 6: // delete a line
			lines := strings.Split(string(b), "\n")
			if len(lines) > 1 {
				i := rng.Intn(len(lines))
				lines = append(lines[:i], lines[i+1:]...)
				b = []byte(strings.Join(lines, "\n"))
			}
		case 7: // repeat a token a few times (bounded: long whitespace runs are the subject of the scaling probe)
			t := fuzzTokens[rng.Intn(len(fuzzTokens))]
			b = append(b[:p], append([]byte(strings.Repeat(t, 2+rng.Intn(12))), b[p:]...)...)
		case 8: // nest parentheses
			b = append(b[:p], append([]byte(strings.Repeat("(", 1+rng.Intn(6))), b[p:]...)...)
		}
	}
	if len(b) > 5000 {
		b = b[:5000]
	}
	return string(b)
}

const c08Limit = 20 * time.Second

func c08Report(c *Ctx, entry, input, p string, el time.Duration, to bool) bool {
	if p != "" {
		c.OracleFail("c08:panic/"+entry, map[string]any{"entry_point": entry, "input": input}, "panic: "+p, "")
		return true
	}
	if to {
		c.OracleFail("c08:hang/"+entry, map[string]any{"entry_point": entry, "input": input, "bytes": len(input)}, fmt.Sprintf("no result after %v for %d bytes", el, len(input)), "")
		return true
	}
	return false
}

func exerciseModel(c *Ctx, m *openfgav1.AuthorizationModel, input string) {
	p, el, to := timed(c08Limit, func() {
		_, _ = transformer.TransformJSONProtoToDSL(m)
		_, _ = transformer.TransformJSONProtoToDSL(m, transformer.WithIncludeSourceInformation(true))
	})
	c08Report(c, "TransformJSONProtoToDSL", input, p, el, to)
	p, el, to = timed(c08Limit, func() {
		g, err := graph.NewAuthorizationModelGraph(m)
		if err == nil && g != nil {
			_ = g.GetDOT()
			_ = g.GetCycles()
			r, err := g.Reversed()
			if err == nil {
				_ = r.GetDOT()
			}
			for _, td := range m.GetTypeDefinitions() {
				_, _ = g.PathExists(td.GetType(), td.GetType())
				_, _ = g.GetNodeByLabel(td.GetType())
			}
		}
	})
	c08Report(c, "NewAuthorizationModelGraph", input, p, el, to)
	p, el, to = timed(c08Limit, func() { _, _ = graph.NewWeightedAuthorizationModelGraphBuilder().Build(m) })
	c08Report(c, "WeightedAuthorizationModelGraphBuilder.Build", input, p, el, to)
	p, el, to = timed(c08Limit, func() {
		for _, td := range m.GetTypeDefinitions() {
			for rel, u := range td.GetRelations() {
				_ = utils.IsRelationAssignable(u)
				_, _ = utils.GetModuleForObjectTypeRelation(td, rel)
			}
			_, _ = utils.GetModuleForObjectTypeRelation(td, "nope")
		}
	})
	c08Report(c, "utils", input, p, el, to)
}

// degenerateModel: structurally valid protobuf with optional parts missing
func degenerateModel(rng *rand.Rand) *openfgav1.AuthorizationModel {
	m := GenModel(rng, GenOpts{Conds: true, Modular: rng.Intn(2) == 0, MaxDepth: 3}).Proto()
	for k := 0; k < 1+rng.Intn(4); k++ {
		if len(m.TypeDefinitions) == 0 {
			break
		}
		td := m.TypeDefinitions[rng.Intn(len(m.TypeDefinitions))]
		if td == nil {
			continue
		}
		switch rng.Intn(16) {
		case 14, 15:
			// operators all of whose operands are direct assignments of a relation without directly related user
			// types (no metadata at all, or an empty list): the operator node has no outgoing edge whatsoever
			this := func() *openfgav1.Userset { return &openfgav1.Userset{Userset: &openfgav1.Userset_This{}} }
			var u *openfgav1.Userset
			switch rng.Intn(4) {
			case 0:
				u = &openfgav1.Userset{Userset: &openfgav1.Userset_Difference{Difference: &openfgav1.Difference{Base: this(), Subtract: this()}}}
			case 1:
				u = &openfgav1.Userset{Userset: &openfgav1.Userset_Intersection{Intersection: &openfgav1.Usersets{Child: []*openfgav1.Userset{this(), this()}}}}
			case 2:
				u = &openfgav1.Userset{Userset: &openfgav1.Userset_Union{Union: &openfgav1.Usersets{Child: []*openfgav1.Userset{this(), this()}}}}
			default:
				inner := &openfgav1.Userset{Userset: &openfgav1.Userset_Difference{Difference: &openfgav1.Difference{Base: this(), Subtract: this()}}}
				u = &openfgav1.Userset{Userset: &openfgav1.Userset_Union{Union: &openfgav1.Usersets{Child: []*openfgav1.Userset{inner, this()}}}}
			}
			if td.Relations == nil {
				td.Relations = map[string]*openfgav1.Userset{}
			}
			name := "bare"
			for r := range td.Relations {
				name = r
				break
			}
			td.Relations[name] = u
			if rng.Intn(2) == 0 {
				td.Metadata = nil
			} else if td.Metadata != nil && td.Metadata.Relations != nil {
				td.Metadata.Relations[name] = &openfgav1.RelationMetadata{DirectlyRelatedUserTypes: []*openfgav1.RelationReference{}}
			}
		case 0:
			td.Metadata = nil
		case 1:
			if td.Metadata != nil {
				td.Metadata.Relations = nil
			}
		case 2:
			for r := range td.Relations {
				td.Relations[r] = nil
				break
			}
		case 3:
			for r := range td.Relations {
				td.Relations[r] = &openfgav1.Userset{}
				break
			}
		case 4:
			for r := range td.Relations {
				td.Relations[r] = &openfgav1.Userset{Userset: &openfgav1.Userset_Difference{Difference: &openfgav1.Difference{}}}
				break
			}
		case 5:
			for r := range td.Relations {
				td.Relations[r] = &openfgav1.Userset{Userset: &openfgav1.Userset_Union{}}
				break
			}
		case 6:
			for r := range td.Relations {
				td.Relations[r] = &openfgav1.Userset{Userset: &openfgav1.Userset_Intersection{Intersection: &openfgav1.Usersets{Child: []*openfgav1.Userset{nil, {}}}}}
				break
			}
		case 7:
			for r := range td.Relations {
				td.Relations[r] = &openfgav1.Userset{Userset: &openfgav1.Userset_TupleToUserset{}}
				break
			}
		case 8:
			for r := range td.Relations {
				td.Relations[r] = &openfgav1.Userset{Userset: &openfgav1.Userset_ComputedUserset{}}
				break
			}
		case 9:
			if td.Metadata != nil {
				for r := range td.Metadata.Relations {
					td.Metadata.Relations[r] = nil
					break
				}
			}
		case 10:
			if td.Metadata != nil {
				// restrictions that name no type - a nil entry, an empty reference, one with only a condition or only
				// a relation - first, in the middle or last in the list
				for _, rm := range td.Metadata.Relations {
					if rm == nil || rng.Intn(3) == 0 {
						continue
					}
					var untyped *openfgav1.RelationReference
					switch rng.Intn(4) {
					case 0:
						untyped = nil
					case 1:
						untyped = &openfgav1.RelationReference{}
					case 2:
						untyped = &openfgav1.RelationReference{Condition: "c1"}
					default:
						untyped = &openfgav1.RelationReference{RelationOrWildcard: &openfgav1.RelationReference_Relation{Relation: "member"}}
					}
					k := 0
					if n := len(rm.DirectlyRelatedUserTypes); n > 0 && rng.Intn(2) == 0 {
						k = rng.Intn(n + 1)
					}
					list := append([]*openfgav1.RelationReference{}, rm.DirectlyRelatedUserTypes[:k]...)
					list = append(list, untyped)
					rm.DirectlyRelatedUserTypes = append(list, rm.DirectlyRelatedUserTypes[k:]...)
				}
			}
		case 11:
			m.TypeDefinitions = append(m.TypeDefinitions, nil, &openfgav1.TypeDefinition{})
		case 12, 13:
			// oneof cases that are present but empty: relation "" (what `"relation": ""` in JSON gives) or a
			// nil wildcard, in the first or a later position of a restriction list
			if td.Metadata != nil {
				for _, rm := range td.Metadata.Relations {
					if rm != nil {
						ref := &openfgav1.RelationReference{Type: td.GetType(), RelationOrWildcard: &openfgav1.RelationReference_Relation{Relation: ""}}
						if rng.Intn(4) == 0 {
							ref.RelationOrWildcard = &openfgav1.RelationReference_Wildcard{}
						}
						if rng.Intn(2) == 0 {
							rm.DirectlyRelatedUserTypes = append([]*openfgav1.RelationReference{ref}, rm.DirectlyRelatedUserTypes...)
						} else {
							rm.DirectlyRelatedUserTypes = append(rm.DirectlyRelatedUserTypes, ref)
						}
					}
				}
			}
		}
	}
	for name, cd := range m.Conditions {
		if cd == nil {
			continue
		}
		switch rng.Intn(6) {
		case 0:
			m.Conditions[name] = nil
		case 1:
			cd.Parameters = nil
		case 2:
			for p := range cd.Parameters {
				cd.Parameters[p] = nil
				break
			}
		case 3:
			for _, pr := range cd.Parameters {
				if pr == nil {
					continue
				}
				pr.TypeName = openfgav1.ConditionParamTypeRef_TYPE_NAME_LIST
				pr.GenericTypes = nil
				break
			}
		case 4:
			for _, pr := range cd.Parameters {
				if pr == nil {
					continue
				}
				pr.TypeName = openfgav1.ConditionParamTypeRef_TYPE_NAME_MAP
				pr.GenericTypes = []*openfgav1.ConditionParamTypeRef{nil}
				break
			}
		case 5:
			cd.Metadata = nil
		}
		if rng.Intn(4) == 0 {
			// containers of containers, with and without an element type one level down (the DSL has one level only)
			for _, pr := range cd.Parameters {
				if pr == nil {
					continue
				}
				inner := &openfgav1.ConditionParamTypeRef{TypeName: []openfgav1.ConditionParamTypeRef_TypeName{openfgav1.ConditionParamTypeRef_TYPE_NAME_LIST, openfgav1.ConditionParamTypeRef_TYPE_NAME_MAP}[rng.Intn(2)]}
				switch rng.Intn(3) {
				case 0:
					inner.GenericTypes = []*openfgav1.ConditionParamTypeRef{{TypeName: openfgav1.ConditionParamTypeRef_TYPE_NAME_STRING}}
				case 1:
					inner.GenericTypes = []*openfgav1.ConditionParamTypeRef{{TypeName: openfgav1.ConditionParamTypeRef_TYPE_NAME_LIST}}
				}
				pr.TypeName = []openfgav1.ConditionParamTypeRef_TypeName{openfgav1.ConditionParamTypeRef_TYPE_NAME_LIST, openfgav1.ConditionParamTypeRef_TYPE_NAME_MAP}[rng.Intn(2)]
				pr.GenericTypes = []*openfgav1.ConditionParamTypeRef{inner}
				break
			}
		}
	}
	return m
}

func init() {
	props["C08"] = func(c *Ctx) {
		c.R.Rule = "(a) mutation fuzzing (byte, token, line mutations, bounded repetitions) seeded from tests/data (.fga, .json, the DSL snippets and fga.mod files of the YAML case files) and generated DSL, " +
			"each input sent to every public entry point under recover() and a watchdog; oracles: no panic, a result within the watchdog limit, and an input for which ANTLR reported an error is rejected " +
			"through the returned error; correspondence: the listener port walks the real (error-recovered) parse tree and must agree on panic / error list; (b) degenerate protobuf models (nil children, " +
			"nil/empty metadata, nil map values, list parameter without element type) through printer, both graph builders and utils; (c) scaling probe on fixed pathological families (search only). " +
			"non-trivial = distinct input for which ANTLR reported at least one error (error-recovered tree)"
		rng := rand.New(rand.NewSource(c.Seed))
		dsl, jsn, mods := corpusSeeds()
		for i := 0; i < 40; i++ {
			t, _ := Render(GenModel(rng, GenOpts{DSLValid: true, Conds: true, MaxDepth: 3}), rand.New(rand.NewSource(rng.Int63())))
			dsl = append(dsl, t)
			t2, _ := Render(GenModuleFile(rng, "core"), nil)
			dsl = append(dsl, t2)
		}
		c.DistN("seeds_dsl", len(dsl))
		c.DistN("seeds_json", len(jsn))
		c.DistN("seeds_modfile", len(mods))
		budget := time.Duration(c.Pick(30, 600)) * time.Second
		start := time.Now()
		maxIter := c.Pick(8000, 400000)
		for it := 0; it < maxIter && time.Since(start) < budget; it++ {
			c.R.Evaluations++
			switch it % 4 {
			case 0, 1: // DSL
				c08ExerciseDSL(c, mutate(rng, dsl[rng.Intn(len(dsl))]), dsl[rng.Intn(len(dsl))], "fuzz")
			case 2: // JSON
				in := mutate(rng, jsn[rng.Intn(len(jsn))])
				p, el, to := timed(c08Limit, func() { _, _ = transformer.TransformJSONStringToDSL(in) })
				c08Report(c, "TransformJSONStringToDSL", in, p, el, to)
				if m, err := transformer.LoadJSONStringToProto(in); err == nil {
					c.Dist("json_loaded")
					exerciseModel(c, m, in)
				}
			case 3: // fga.mod
				in := mutate(rng, mods[rng.Intn(len(mods))])
				if rng.Intn(2) == 0 {
					// structured: quoted entries built from path / percent-escape fragments, also ones that
					// decode to fewer characters than they are written with
					frag := []string{"%", "%4", "%41", "%2e", "%2E", "%2f", "%5c", "%25", "%7E", "%00", "%zz", ".", "..", "/", "\\", ":", "a", "C:", ".fga", "é", " ", ""}
					in = "schema: '1.2'\ncontents:\n"
					for k := 0; k < 1+rng.Intn(5); k++ {
						e := ""
						for j := 0; j < rng.Intn(4); j++ {
							e += frag[rng.Intn(len(frag))]
						}
						q := "\""
						if rng.Intn(2) == 0 && !strings.Contains(e, "'") {
							q = "'"
							e = strings.ReplaceAll(e, "\\\\", "\\")
						}
						in += "  - " + q + e + q + "\n"
					}
					c.Dist("structured_modfiles")
				}
				p, el, to := timed(c08Limit, func() { _, _ = transformer.TransformModFile(in) })
				c08Report(c, "TransformModFile", in, p, el, to)
			}
		}
		c.DistN("fuzz_seconds", int(time.Since(start).Seconds()))
		// (b) degenerate protos
		nd := c.Pick(800, 20000)
		for i := 0; i < nd; i++ {
			c.R.Evaluations++
			m := degenerateModel(rng)
			exerciseModel(c, m, "degenerate proto: "+m.String())
			c.Dist("degenerate_protos")
		}
		// (c) scaling probe (search only; ANTLR timing depends on its caches, so only a persistent
		// cubic signal above one second is reported, and the two known families are listed findings)
		c08DeepNesting(c, rng)
		c08Scaling(c)
		c08ModelScaling(c)
		c.Sample(map[string]any{"mutated_dsl": mutate(rand.New(rand.NewSource(1)), dsl[0])})
	}
}

// c08ExerciseDSL sends one DSL text through every DSL entry point (and, when it is accepted, the
// resulting model through printer, graph builders and utils).
func c08ExerciseDSL(c *Ctx, in, other, stream string) {
	var err1 error
	var m1 *openfgav1.AuthorizationModel
	p, el, to := timed(c08Limit, func() { m1, err1 = transformer.TransformDSLToProto(in) })
	if c08Report(c, "TransformDSLToProto", in, p, el, to) {
		return
	}
	p, el, to = timed(c08Limit, func() { _, _ = transformer.TransformDSLToJSON(in) })
	c08Report(c, "TransformDSLToJSON", in, p, el, to)
	p, el, to = timed(c08Limit, func() { _, _, _ = transformer.TransformModularDSLToProto(in) })
	c08Report(c, "TransformModularDSLToProto", in, p, el, to)
	p, el, to = timed(c08Limit, func() {
		_, _ = transformer.TransformModuleFilesToModel([]transformer.ModuleFile{{Name: "a.fga", Contents: in}, {Name: "b.fga", Contents: other}}, "1.2")
	})
	c08Report(c, "TransformModuleFilesToModel", in+"\n----\n"+other, p, el, to)
	// a syntax error is always reported through the returned error
	cleaned := harnessClean(in)
	var antlrErrs []synErr
	p, _, to = timed(c08Limit, func() { _, _, antlrErrs = parseTree(cleaned) })
	if p == "" && !to {
		if len(antlrErrs) > 0 {
			c.Nontrivial(in)
			c.Dist("inputs_with_syntax_errors")
			if err1 == nil {
				c.OracleFail("c08:error-reporting", map[string]any{"input": in, "antlr_error": antlrErrs[0].Msg}, "ANTLR reported a syntax error but the transform returned no error", "")
			}
		} else {
			c.Dist("inputs_without_syntax_errors")
		}
		if len(in) < 3000 {
			dslCorrScoped(c, stream, in)
		}
	}
	if err1 == nil && m1 != nil {
		exerciseModel(c, m1, in)
	}
}

// c08DeepNesting: rewrites nested to depths no fixture and no random generator reaches (limits, counters and
// stacks in the listener, the printer and the graph builders only show beyond them), as DSL in several
// nesting shapes and as protobuf values.
// deepKit: the operators, the document head and the six families of deeply nested relation definitions (shared by
// C08, which pushes them through every entry point, and C01, which round-trips them)
func deepKit() (ops []string, head func(modular bool) string, shapes map[string]func(d int, op string) string) {
	ops = []string{"or", "and", "but not"}
	head = func(modular bool) string {
		if modular {
			return "module deep\n\ntype user\n\ntype doc\n  relations\n    define a: [user]\n    define b: [user]\n    define p: [doc]\n"
		}
		return "model\n  schema 1.1\n\ntype user\n\ntype doc\n  relations\n    define a: [user]\n    define b: [user]\n    define p: [doc]\n"
	}
	leaf := []string{"a", "b", "a from p"}
	shapes = map[string]func(d int, op string) string{
		// x op (x op (x op ( ... )))
		"right": func(d int, op string) string {
			s := leaf[d%3]
			for i := 0; i < d; i++ {
				s = leaf[i%3] + " " + op + " (" + s + ")"
			}
			return s
		},
		// (((x op y) op y) op y)
		"left": func(d int, op string) string {
			s := leaf[d%3]
			for i := 0; i < d; i++ {
				s = "(" + s + " " + op + " " + leaf[i%3] + ")"
			}
			return s + " " + op + " b"
		},
		// ((((x))))  redundant parentheses around the whole definition
		"redundant": func(d int, op string) string {
			return strings.Repeat("(", d) + "a " + op + " b" + strings.Repeat(")", d)
		},
		// x op ((((y)))) redundant parentheses behind an operator
		"redundant-operand": func(d int, op string) string {
			return "a " + op + " " + strings.Repeat("(", d) + "b" + strings.Repeat(")", d)
		},
		// [user] op (x op ([...] is not allowed deeper, so only the head is direct)
		"direct-head": func(d int, op string) string {
			s := "b"
			for i := 0; i < d; i++ {
				s = "a " + ops[i%2] + " (" + s + ")"
			}
			return "[user] " + op + " (" + s + ")"
		},
		// alternating operators on the way down
		"alternating": func(d int, op string) string {
			s := "a"
			for i := 0; i < d; i++ {
				s = "(" + s + ") " + ops[i%3] + " (" + leaf[i%3] + ")"
				if i+1 < d {
					s = "(" + s + ")"
				}
			}
			return s
		},
	}
	return
}

// deepDocs: one document per depth, family and operator (one operator per family beyond depth 40)
func deepDocs(depths []int) []string {
	ops, head, shapes := deepKit()
	names := sortedKeys(shapes)
	out := []string{}
	for _, d := range depths {
		for _, sh := range names {
			for oi, op := range ops {
				if d > 40 && (oi+d)%3 != 0 {
					continue
				}
				out = append(out, head((d+oi)%4 == 0)+"    define deep: "+shapes[sh](d, op)+"\n")
			}
		}
	}
	return out
}

func c08DeepNesting(c *Ctx, rng *rand.Rand) {
	ops, head, shapes := deepKit()
	depths := []int{1, 2, 3, 5, 8, 12, 16, 20, 24, 25, 26, 27, 31, 32, 33, 40, 48, 63, 64, 65}
	if c.Thorough() {
		depths = append(depths, 80, 100, 127, 128, 129, 160, 200)
	}
	names := make([]string, 0, len(shapes))
	for k := range shapes {
		names = append(names, k)
	}
	sort.Strings(names)
	for _, d := range depths {
		for _, sh := range names {
			for oi, op := range ops {
				if d > 40 && (oi+d)%3 != 0 {
					continue // one operator per shape for the very deep ones
				}
				modular := (d+oi)%4 == 0
				in := head(modular) + "    define deep: " + shapes[sh](d, op) + "\n"
				c.R.Evaluations++
				c.Dist("deep_nesting_dsl")
				c08ExerciseDSL(c, in, head(true), "deep")
			}
		}
	}
	// protobuf side: the same depths through printer, plain and weighted graph builders and utils
	mk := func(d int, kind int) *openfgav1.Userset {
		var u *openfgav1.Userset = &openfgav1.Userset{Userset: &openfgav1.Userset_ComputedUserset{ComputedUserset: &openfgav1.ObjectRelation{Relation: "a"}}}
		comp := func(r string) *openfgav1.Userset {
			return &openfgav1.Userset{Userset: &openfgav1.Userset_ComputedUserset{ComputedUserset: &openfgav1.ObjectRelation{Relation: r}}}
		}
		for i := 0; i < d; i++ {
			k := kind
			if kind == 3 {
				k = i % 3
			}
			switch k {
			case 0:
				u = &openfgav1.Userset{Userset: &openfgav1.Userset_Union{Union: &openfgav1.Usersets{Child: []*openfgav1.Userset{comp("b"), u}}}}
			case 1:
				u = &openfgav1.Userset{Userset: &openfgav1.Userset_Intersection{Intersection: &openfgav1.Usersets{Child: []*openfgav1.Userset{u, comp("b")}}}}
			default:
				u = &openfgav1.Userset{Userset: &openfgav1.Userset_Difference{Difference: &openfgav1.Difference{Base: u, Subtract: comp("b")}}}
			}
		}
		return u
	}
	for _, d := range depths {
		for kind := 0; kind < 4; kind++ {
			direct := func() *openfgav1.Userset { return &openfgav1.Userset{Userset: &openfgav1.Userset_This{}} }
			m := &openfgav1.AuthorizationModel{SchemaVersion: "1.1", TypeDefinitions: []*openfgav1.TypeDefinition{
				{Type: "user"},
				{Type: "doc", Relations: map[string]*openfgav1.Userset{"a": direct(), "b": direct(), "deep": mk(d, kind)},
					Metadata: &openfgav1.Metadata{Relations: map[string]*openfgav1.RelationMetadata{
						"a": {DirectlyRelatedUserTypes: []*openfgav1.RelationReference{{Type: "user"}}},
						"b": {DirectlyRelatedUserTypes: []*openfgav1.RelationReference{{Type: "user"}}}}}},
			}}
			c.R.Evaluations++
			c.Dist("deep_nesting_proto")
			exerciseModel(c, m, fmt.Sprintf("deep proto: depth %d kind %d", d, kind))
			// and the DSL the printer makes of it back through the parser
			if dsl, err := transformer.TransformJSONProtoToDSL(m); err == nil {
				c08ExerciseDSL(c, dsl, head(true), "deep")
			}
		}
	}
	_ = rng
}

func c08Scaling(c *Ctx) {
	head := "model\n  schema 1.1\ntype user\ntype doc\n  relations\n    define a: [user]\n"
	families := map[string]func(n int) string{
		"nested-parens": func(n int) string {
			return head + "    define b: " + strings.Repeat("(", n) + "a" + strings.Repeat(")", n) + "\n"
		},
		"long-union": func(n int) string { return head + "    define b: a" + strings.Repeat(" or a", n) + "\n" },
		"many-relations": func(n int) string {
			s := head
			for i := 0; i < n; i++ {
				s += fmt.Sprintf("    define r%d: a\n", i)
			}
			return s
		},
		"spaces":      func(n int) string { return head + "    define b:" + strings.Repeat(" ", n) + "a\n" },
		"blank-lines": func(n int) string { return head + strings.Repeat("\n", n) + "    define b: a\n" },
		"garbage":     func(n int) string { return head + strings.Repeat("@$", n) },
		"form-feeds":  func(n int) string { return head + strings.Repeat("\f", n) + "    define b: a\n" },
		"tab-cr-lf":   func(n int) string { return head + strings.Repeat("\t\r\n", n) + "    define b: a\n" },
		"long-expression": func(n int) string {
			return head + "condition c(x: int) {\n  x" + strings.Repeat(" + 1", n) + " < 9\n}\n"
		},
	}
	known := map[string]bool{"form-feeds": true, "tab-cr-lf": true}
	sizes := []int{25, 50, 100, 200}
	if c.Thorough() {
		sizes = append(sizes, 400, 800)
	}
	for _, name := range sortedKeys(families) {
		f := families[name]
		_, _ = transformer.TransformDSLToProto(f(10)) // warm
		times := []float64{}
		aborted := false
		for _, n := range sizes {
			in := f(n)
			p, el, to := timed(60*time.Second, func() { _, _ = transformer.TransformDSLToProto(in) })
			if p != "" {
				c.OracleFail("c08:panic/scaling", map[string]any{"family": name, "n": n}, "panic: "+p, "")
			}
			times = append(times, el.Seconds())
			if to {
				aborted = true
				break
			}
		}
		c.Note(fmt.Sprintf("scaling %s sizes=%v seconds=%.3f", name, sizes[:len(times)], times))
		cubic := false
		if len(times) >= 4 {
			k := len(times)
			if times[k-1] > 1.0 && times[k-1]/times[k-2] >= 7 && times[k-2]/times[k-3] >= 7 && times[k-3]/times[k-4] >= 7 {
				cubic = true
			}
		}
		if aborted {
			cubic = true
		}
		if cubic {
			if known[name] && c.Known.Open("KF-C08-newline-rule-cubic") {
				c.KnownHit("KF-C08-newline-rule-cubic", map[string]any{"family": name, "sizes": sizes[:len(times)], "seconds": times})
			} else {
				c.OracleFail("c08:scaling", map[string]any{"family": name, "sizes": sizes[:len(times)], "seconds": times}, "work grows at least cubically with the input length", "")
			}
		}
	}
}

// c08ModelScaling: families of *models* of growing size through the entry points that work on a model
// (printer, plain graph with DOT and path queries, weighted graph). The DSL families above only
// exercise the parser; here the shapes are the ones a graph algorithm can blow up on: chains of
// diamonds (a relation reached through two tuple-free paths per level), long chains of computed
// usersets, TTUs and usersets, interlocking tuple cycles, wide unions and restriction lists.
// Search only: a call that does not return within the limit, or whose time grows at least cubically
// above one second, is reported. Elementary-cycle enumeration (GetCycles) is left out: its output can
// be exponentially large by definition.
func c08ModelScaling(c *Ctx) {
	head := "model\n  schema 1.1\ntype user\ntype doc\n  relations\n    define p: [doc]\n"
	chain := func(n int, step func(i int) string, last string) string {
		var b strings.Builder
		b.WriteString(head)
		for i := 0; i < n; i++ {
			b.WriteString(step(i))
		}
		b.WriteString(fmt.Sprintf("    define r%d: %s\n", n, last))
		return b.String()
	}
	families := map[string]func(n int) string{
		"diamond-or": func(n int) string {
			return chain(n, func(i int) string { return fmt.Sprintf("    define r%d: r%d or r%d\n", i, i+1, i+1) }, "[user]")
		},
		"diamond-and": func(n int) string {
			return chain(n, func(i int) string { return fmt.Sprintf("    define r%d: r%d and r%d\n", i, i+1, i+1) }, "[user]")
		},
		"diamond-but-not": func(n int) string {
			return chain(n, func(i int) string { return fmt.Sprintf("    define r%d: r%d but not r%d\n", i, i+1, i+1) }, "[user]")
		},
		"diamond-split": func(n int) string {
			return chain(n, func(i int) string {
				return fmt.Sprintf("    define r%d: a%d or b%d\n    define a%d: r%d\n    define b%d: r%d\n", i, i, i, i, i+1, i, i+1)
			}, "[user]")
		},
		"diamond-ttu": func(n int) string {
			return chain(n, func(i int) string { return fmt.Sprintf("    define r%d: [user] or r%d from p or r%d from p\n", i, i+1, i+1) }, "[user]")
		},
		"diamond-userset": func(n int) string {
			return chain(n, func(i int) string { return fmt.Sprintf("    define r%d: [doc#r%d, user] or r%d\n", i, i+1, i+1) }, "[user]")
		},
		"computed-chain": func(n int) string {
			return chain(n, func(i int) string { return fmt.Sprintf("    define r%d: r%d\n", i, i+1) }, "[user]")
		},
		"tuple-cycle-ring": func(n int) string {
			return chain(n, func(i int) string { return fmt.Sprintf("    define r%d: [user, doc#r%d]\n", i, i+1) }, "[user, doc#r0]")
		},
		"tuple-cycle-mesh": func(n int) string {
			return chain(n, func(i int) string {
				return fmt.Sprintf("    define r%d: [user, doc#r%d, doc#r%d]\n", i, i+1, (i*7+3)%(n+1))
			}, "[user, doc#r0]")
		},
		"wide-union": func(n int) string {
			ops := []string{"[user]"}
			for i := 0; i < 8*n; i++ {
				ops = append(ops, "p")
			}
			return head + "    define w: " + strings.Join(ops, " or ") + "\n"
		},
		"wide-restrictions": func(n int) string {
			var b strings.Builder
			b.WriteString("model\n  schema 1.1\ntype user\n")
			ts := []string{"user"}
			for i := 0; i < 4*n; i++ {
				b.WriteString(fmt.Sprintf("type t%d\n", i))
				ts = append(ts, fmt.Sprintf("t%d", i), fmt.Sprintf("t%d:*", i))
			}
			b.WriteString("type doc\n  relations\n    define w: [" + strings.Join(ts, ", ") + "]\n    define v: w or w\n")
			return b.String()
		},
	}
	entry := map[string]func(m *openfgav1.AuthorizationModel){
		"TransformJSONProtoToDSL": func(m *openfgav1.AuthorizationModel) { _, _ = transformer.TransformJSONProtoToDSL(m) },
		"NewAuthorizationModelGraph+DOT+PathExists": func(m *openfgav1.AuthorizationModel) {
			g, err := graph.NewAuthorizationModelGraph(m)
			if err == nil && g != nil {
				_ = g.GetDOT()
				_, _ = g.PathExists("doc#r0", "user")
				if r, err := g.Reversed(); err == nil {
					_, _ = r.PathExists("user", "doc#r0")
				}
			}
		},
		"WeightedAuthorizationModelGraphBuilder.Build": func(m *openfgav1.AuthorizationModel) {
			_, _ = graph.NewWeightedAuthorizationModelGraphBuilder().Build(m)
		},
	}
	sizes := []int{8, 16, 32, 64}
	if c.Thorough() {
		sizes = append(sizes, 128, 256)
	}
	limit := 10 * time.Second
	for _, name := range sortedKeys(families) {
		f := families[name]
		for _, en := range sortedKeys(entry) {
			run := entry[en]
			times := []float64{}
			aborted := false
			for _, n := range sizes {
				m, err := transformer.TransformDSLToProto(f(n))
				if err != nil {
					c.Note("model-scaling family " + name + " does not parse: " + trunc(err.Error(), 200))
					break
				}
				p, el, to := timed(limit, func() { run(m) })
				c.Dist("model_scaling_calls")
				if p != "" {
					c.OracleFail("c08:panic/model-scaling", map[string]any{"family": name, "n": n, "entry_point": en, "dsl": f(n)}, "panic: "+p, "")
				}
				times = append(times, el.Seconds())
				if to {
					aborted = true
					break
				}
			}
			k := len(times)
			cubic := k >= 4 && times[k-1] > 1.0 && times[k-1]/times[k-2] >= 7 && times[k-2]/times[k-3] >= 7 && times[k-3]/times[k-4] >= 7
			// KF-C08-tuple-cycle-mesh-quartic: the weight assignment on a strongly connected mesh of tuple cycles; the
			// recorded growth is about n^4 (0.04s at 64 relations), anything slower at the small sizes is a new violation
			if (aborted || cubic) && name == "tuple-cycle-mesh" && en == "WeightedAuthorizationModelGraphBuilder.Build" &&
				c.Known.Open("KF-C08-tuple-cycle-mesh-quartic") && k >= 4 && times[3] < 1.0 {
				c.KnownHit("KF-C08-tuple-cycle-mesh-quartic", map[string]any{"family": name, "entry_point": en, "sizes": sizes[:k], "seconds": times})
				continue
			}
			if aborted || cubic {
				c.OracleFail("c08:model-scaling", map[string]any{"family": name, "entry_point": en, "sizes": sizes[:k], "seconds": times, "dsl_at_smallest_size": f(sizes[0])},
					fmt.Sprintf("%s on the model family %q: work grows at least cubically with the size of the model, or the call did not return within %v (sizes %v, seconds %.3f)", en, name, limit, sizes[:k], times), "")
			} else if k > 0 && times[k-1] > 0.5 {
				c.Note(fmt.Sprintf("model-scaling %s / %s sizes=%v seconds=%.3f", name, en, sizes[:k], times))
			}
		}
	}
}
