package main

import (
	"os"
	"path/filepath"
	"strings"

	"github.com/antlr4-go/antlr/v4"
	parser "github.com/openfga/language/pkg/go/gen"
	"github.com/openfga/language/pkg/go/transformer"
)

func quoteAll(xs []string) string {
	q := make([]string, len(xs))
	for i, x := range xs {
		q[i] = Q(x)
	}
	return "(" + strings.Join(q, " ") + ")"
}

func init() {
	props["C19"] = func(c *Ctx) {
		c.R.Rule = "the deciding part is Props/C19.lean (kernel-decided equality of the regenerated tables). This stream validates the translator on the Go side: the name tables it extracted from the " +
			"generated Go sources textually must equal the tables of the compiled generated package (lexer and parser instantiated in-process); and every DSL file of the shared test-data corpus is run " +
			"through the real Go parser (accepted files must stay accepted). non-trivial = distinct table or corpus file"
		p := parser.NewOpenFGAParser(antlr.NewCommonTokenStream(parser.NewOpenFGALexer(antlr.NewInputStream("")), 0))
		l := parser.NewOpenFGALexer(antlr.NewInputStream(""))
		tables := map[string][]string{
			"parser-rules": p.RuleNames, "parser-symbolic": p.SymbolicNames, "parser-literal": p.LiteralNames,
			"lexer-rules": l.RuleNames, "lexer-symbolic": l.SymbolicNames, "lexer-literal": l.LiteralNames,
		}
		for _, k := range sortedKeys(tables) {
			c.R.Evaluations++
			c.Nontrivial(k)
			c.D.Add("corr:translator/go-tables", L("atn-table", k), quoteAll(tables[k]), map[string]string{"table": k})
		}
		// corpus
		root := "/repo/tests/data"
		n := 0
		_ = filepath.Walk(root, func(path string, info os.FileInfo, err error) error {
			if err != nil || info.IsDir() || !(strings.HasSuffix(path, ".fga") || strings.HasSuffix(path, ".dsl")) {
				return nil
			}
			b, err := os.ReadFile(path)
			if err != nil {
				return nil
			}
			n++
			c.R.Evaluations++
			text := string(b)
			_, _, perr := transformer.TransformModularDSLToProto(text)
			if perr == nil {
				c.Nontrivial(path)
				c.Dist("corpus_accepted")
			} else {
				c.Dist("corpus_rejected")
			}
			dslCorr(c, "corpus", text)
			return nil
		})
		c.DistN("corpus_files", n)
		c.Sample(map[string]any{"table": "parser-rules", "first": p.RuleNames[0], "count": len(p.RuleNames)})
	}
}
