package main

import (
	"strconv"
	"os"
	"path/filepath"
	"strings"

	"github.com/antlr4-go/antlr/v4"
	parser "github.com/openfga/language/pkg/go/gen"
	"github.com/openfga/language/pkg/go/transformer"
)

func quoteAll(xs []string) string {
	q := make([]string, len(xs))
	for i, x := range xs {
		q[i] = Q(x)
	}
	return "(" + strings.Join(q, " ") + ")"
}

func init() {
	props["C19"] = func(c *Ctx) {
		c.R.Rule = "the deciding part is Props/C19.lean (kernel-decided equality of the regenerated tables). This stream validates the translator on the Go side: the name tables it extracted from the " +
			"generated Go sources textually must equal the tables of the compiled generated package (lexer and parser instantiated in-process); and every DSL file of the shared test-data corpus is run " +
			"through the real Go parser (accepted files must stay accepted); every parse tree for which ANTLR reported no error - corpus files and token-class probes (every identifier-like slot of the grammar x lexemes of every class) - " +
			"must conform to OpenFGAParser.g4 as translated to Lean on this run (children of every rule node matched by the rule body, labels in place). non-trivial = distinct table, corpus file or accepted probe"
		p := parser.NewOpenFGAParser(antlr.NewCommonTokenStream(parser.NewOpenFGALexer(antlr.NewInputStream("")), 0))
		l := parser.NewOpenFGALexer(antlr.NewInputStream(""))
		tables := map[string][]string{
			"parser-rules": p.RuleNames, "parser-symbolic": p.SymbolicNames, "parser-literal": p.LiteralNames,
			"lexer-rules": l.RuleNames, "lexer-symbolic": l.SymbolicNames, "lexer-literal": l.LiteralNames,
		}
		for _, k := range sortedKeys(tables) {
			c.R.Evaluations++
			c.Nontrivial(k)
			c.D.Add("corr:translator/go-tables", L("atn-table", k), quoteAll(tables[k]), map[string]string{"table": k})
		}
		// corpus
		root := "/repo/tests/data"
		n := 0
		_ = filepath.Walk(root, func(path string, info os.FileInfo, err error) error {
			if err != nil || info.IsDir() || !(strings.HasSuffix(path, ".fga") || strings.HasSuffix(path, ".dsl")) {
				return nil
			}
			b, err := os.ReadFile(path)
			if err != nil {
				return nil
			}
			n++
			c.R.Evaluations++
			text := string(b)
			_, _, perr := transformer.TransformModularDSLToProto(text)
			if perr == nil {
				c.Nontrivial(path)
				c.Dist("corpus_accepted")
			} else {
				c.Dist("corpus_rejected")
			}
			dslCorr(c, "corpus", text)
			return nil
		})
		c.DistN("corpus_files", n)
		// token-class probes: every identifier-like slot of the grammar filled with lexemes of every class
		// (plain identifier, each keyword, extended identifiers, numbers, punctuation). No expectation about
		// acceptance is needed: whenever the Go parser reports no syntax error, the tree it built must be a
		// derivation by OpenFGAParser.g4 (grammarConform inside dslCorr) - a hand edit of a generated
		// parser method that accepts a token the grammar excludes shows up here with the text as replay.
		lexemes := []string{"abc", "model", "schema", "type", "relation", "module", "extend", "define", "relations", "condition", "and", "or", "but", "from", "with",
			"self", "a.b", "a/b", "a-b", "a_b", "org/core.x", "1.1", "1", "x1", "*", "#", "map", "list", "string", "in", "true", "null"}
		slots := []string{"MOD", "TYPE", "REL", "RTYPE", "RREL", "CU", "TS", "COND", "PARAM", "WITH"}
		defaults := map[string]string{"MOD": "core", "TYPE": "doc", "REL": "viewer", "RTYPE": "user", "RREL": "member", "CU": "editor", "TS": "parent", "COND": "c1", "PARAM": "p", "WITH": "c1"}
		build := func(v map[string]string, modular bool) string {
			head := "model\n  schema 1.1\n"
			if modular {
				head = "module " + v["MOD"] + "\n"
			}
			return head + "\ntype user\n\ntype group\n  relations\n    define member: [user]\n\ntype " + v["TYPE"] + "\n  relations\n" +
				"    define parent: [" + v["TYPE"] + "]\n    define editor: [user]\n" +
				"    define " + v["REL"] + ": [" + v["RTYPE"] + ", group#" + v["RREL"] + ", user:*, user with " + v["WITH"] + "] or " + v["CU"] + " or " + v["CU"] + " from " + v["TS"] + "\n\n" +
				"condition " + v["COND"] + "(" + v["PARAM"] + ": string, q: list<int>) {\n  " + "q.size() > 0" + "\n}\n"
		}
		for _, slot := range slots {
			for _, lx := range lexemes {
				for _, modular := range []bool{false, true} {
					if slot == "MOD" && !modular {
						continue
					}
					v := map[string]string{}
					for k, d := range defaults {
						v[k] = d
					}
					v[slot] = lx
					text := build(v, modular)
					c.R.Evaluations++
					_, _, perr := transformer.TransformModularDSLToProto(text)
					if perr == nil {
						c.Dist("probe_accepted:" + slot)
						c.Nontrivial(text)
					} else {
						c.Dist("probe_rejected:" + slot)
					}
					dslCorr(c, "probe/"+slot, text)
				}
			}
		}
		// ambiguous sentences: a parenthesised group that holds nothing but another group is derivable through both
		// alternatives of relationRecurse; the tree must be the one of the first alternative in grammar order (what the
		// grammar interpreter builds and what every generated parser predicts) - a parser whose decision tables list the
		// alternatives in another order accepts the same language and differs only here
		for _, text := range deepDocs([]int{1, 2, 3}) {
			c.R.Evaluations++
			c.Dist("ambiguous_group_documents")
			dslCorr(c, "nested-groups", text)
		}
		grammarSentences(c, c.Pick(1500, 20000))
		c.Sample(map[string]any{"table": "parser-rules", "first": p.RuleNames[0], "count": len(p.RuleNames)})
	}
}

// grammarSentences: random sentences derived from the grammar itself (the Lean driver derives them from the
// rule bodies translated from OpenFGAParser.g4 on this run: every alternative, option and repetition of every
// rule is taken).  Each text goes to the real lexer and parser and to their Lean models, which must agree on
// tokens, on acceptance and on the parse tree; an accepted text's tree must be a derivation by the grammar.
func grammarSentences(c *Ctx, n int) {
	ops := make([]string, 0, n)
	for i := 0; i < n; i++ {
		ops = append(ops, L("gen-sentence", strconv.Itoa(int(c.Seed)*1000003+i), strconv.Itoa(3+i%10)))
	}
	lines, err := c.D.Ask(ops)
	if err != nil {
		c.R.Disagreements = append(c.R.Disagreements, Case{Stream: "grammar-sentences", Kind: "correspondence", Detail: "driver: " + err.Error()})
		return
	}
	for _, l := range lines {
		x := parseSX(l)
		if x.Head() != "sentence" || len(x.List) != 2 {
			c.R.Disagreements = append(c.R.Disagreements, Case{Stream: "grammar-sentences", Kind: "correspondence", Detail: "unexpected answer: " + trunc(l, 200)})
			return
		}
		text := x.List[1].Atom
		c.R.Evaluations++
		r := parseFull(text)
		if len(r.Errs) == 0 {
			c.Dist("grammar_sentences_accepted")
			c.Nontrivial(text)
		} else {
			c.Dist("grammar_sentences_rejected")
		}
		grammarConform(c, "sentences", text, r.Tree, len(r.Errs))
		frontCorr(c, "sentences", text, text, r)
	}
}
