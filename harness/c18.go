package main

import (
	"math/rand"
	"strings"
	"unicode/utf8"

	"github.com/openfga/language/pkg/go/validation"
)

var validators = []struct {
	name string
	fn   func(string) bool
}{
	{"ValidateObject", validation.ValidateObject},
	{"ValidateObjectID", validation.ValidateObjectID},
	{"ValidateRelation", validation.ValidateRelation},
	{"ValidateUserSet", validation.ValidateUserSet},
	{"ValidateUserObject", validation.ValidateUserObject},
	{"ValidateUserWildcard", validation.ValidateUserWildcard},
	{"ValidateUser", validation.ValidateUser},
	{"ValidateRelationshipCondition", validation.ValidateRelationshipCondition},
	{"ValidateType", validation.ValidateType},
}

func isSpaceRE2(r rune) bool { return r == ' ' || r == '\t' || r == '\n' || r == '\f' || r == '\r' }

// c18Oracle evaluates every clause of the statement on the real validators' answers for s.
func c18Oracle(c *Ctx, s string, ans map[string]bool) {
	obj := ans["ValidateObject"]
	us := ans["ValidateUserSet"]
	wc := ans["ValidateUserWildcard"]
	user := ans["ValidateUser"]
	fail := func(detail string) { c.OracleFail("c18:clauses", s, detail, "") }
	if obj {
		c.Nontrivial("accepted-object:" + s)
		if strings.Count(s, ":") != 1 {
			fail("accepted object does not have exactly one ':'")
		} else {
			i := strings.Index(s, ":")
			if !validation.ValidateType(s[:i]) || !validation.ValidateObjectID(s[i+1:]) {
				fail("accepted object does not split into accepted type and accepted id")
			}
		}
		n := utf8.RuneCountInString(s)
		if n < 2 || n > 256 {
			fail("accepted object outside the 2..256 limit")
		}
	}
	if us {
		c.Nontrivial("accepted-userset:" + s)
		if strings.Count(s, ":") != 1 || strings.Count(s, "#") != 1 {
			fail("accepted userset does not have exactly one ':' and one '#'")
		} else {
			i := strings.Index(s, ":")
			j := strings.Index(s, "#")
			if i > j || !validation.ValidateType(s[:i]) || !validation.ValidateObjectID(s[i+1:j]) || !validation.ValidateRelation(s[j+1:]) {
				fail("accepted userset does not split into accepted type, id and relation")
			}
		}
	}
	n := 0
	for _, b := range []bool{us, obj, wc} {
		if b {
			n++
		}
	}
	if user && n != 1 {
		fail("accepted user is not exactly one of userset, object, wildcard")
	}
	if !user && n != 0 {
		fail("ValidateUser rejects a string one of its alternatives accepts")
	}
	if wc {
		c.Nontrivial("accepted-wildcard:" + s)
		if !strings.HasSuffix(s, ":*") || !validation.ValidateType(strings.TrimSuffix(s, ":*")) {
			fail("accepted wildcard is not <accepted type>:*")
		}
	}
	ty := ans["ValidateType"]
	rel := ans["ValidateRelation"]
	id := ans["ValidateObjectID"]
	cond := ans["ValidateRelationshipCondition"]
	if ans["ValidateUserObject"] != obj {
		fail("ValidateUserObject and ValidateObject disagree")
	}
	if ty || rel || id {
		for _, r := range s {
			if isSpaceRE2(r) {
				fail("accepted type/relation/id contains whitespace")
			}
		}
	}
	if ty || rel {
		if strings.ContainsAny(s, ":#@*") {
			fail("accepted type/relation contains one of : # @ *")
		}
	}
	rc := utf8.RuneCountInString(s)
	// the limits are enforced *exactly*: a string inside the documented alphabet and length is accepted
	clean := func(forbidden string) bool {
		for _, r := range s {
			if isSpaceRE2(r) || strings.ContainsRune(forbidden, r) {
				return false
			}
		}
		return utf8.ValidString(s)
	}
	if !ty && rc >= 1 && rc <= 254 && clean(":#@*") {
		fail("a type of 1..254 characters from the documented alphabet is rejected")
	}
	if !rel && rc >= 1 && rc <= 50 && clean(":#@*") {
		fail("a relation of 1..50 characters from the documented alphabet is rejected")
	}
	if !cond && rc >= 1 && rc <= 50 && clean("*") {
		fail("a condition name of 1..50 characters without '*' and whitespace is rejected")
	}
	if i := strings.Index(s, ":"); !obj && i >= 0 && strings.Count(s, ":") == 1 && rc >= 2 && rc <= 256 && utf8.ValidString(s) {
		t, id := s[:i], s[i+1:]
		tOK := utf8.RuneCountInString(t) >= 1 && utf8.RuneCountInString(t) <= 254
		for _, r := range t {
			if isSpaceRE2(r) || strings.ContainsRune(":#@*", r) {
				tOK = false
			}
		}
		if tOK && id != "" && validation.ValidateObjectID(id) {
			fail("an object of 2..256 characters that splits into an accepted type and an accepted id is rejected")
		}
	}
	if ty && (rc < 1 || rc > 254) {
		fail("type limit 254 not enforced")
	}
	if rel && (rc < 1 || rc > 50) {
		fail("relation limit 50 not enforced")
	}
	if cond && (rc < 1 || rc > 50) {
		fail("condition limit 50 not enforced")
	}
}

type c18Item struct {
	s      string
	stream string
}

// c18Run evaluates the nine real validators on every string (in parallel: Go compiles the
// pattern on every call), then queues the correspondence ops and runs the clause oracle.
func c18Run(c *Ctx, items []c18Item) {
	answers := make([]map[string]bool, len(items))
	parallelFor(len(items), func(i int) {
		m := make(map[string]bool, len(validators))
		for _, v := range validators {
			m[v.name] = v.fn(items[i].s)
		}
		answers[i] = m
	})
	for i, it := range items {
		c.R.Evaluations++
		for _, v := range validators {
			c.D.Add("corr:validators/"+it.stream, L("validate", v.name, Q(it.s)), B(answers[i][v.name]), map[string]string{"validator": v.name, "s": it.s})
		}
		c18Oracle(c, it.s, answers[i])
	}
}

func init() {
	props["C18"] = func(c *Ctx) {
		c.R.Rule = "strings: (a) all strings up to a bounded length over one representative per character class the rules distinguish, " +
			"(b) boundary lengths around every limit for plain and composed shapes, (c) random strings over ASCII+Unicode; each is sent to all nine " +
			"validators (real Go regexp vs Lean flat-regex model) and every clause of C18 is evaluated on the Go answers. non-trivial = distinct string accepted as object, userset or wildcard"
		alpha := []rune{':', '#', '@', '*', ' ', '\n', 'a', '0', '|', '-', 'é'}
		items := []c18Item{}
		maxLen := c.Pick(4, 5)
		// (a) exhaustive over the alphabet
		var rec func(prefix []rune)
		rec = func(prefix []rune) {
			items = append(items, c18Item{string(prefix), "exhaustive"})
			if len(prefix) == maxLen {
				return
			}
			for _, r := range alpha {
				rec(append(prefix, r))
			}
		}
		rec(nil)
		c.R.Exhaustive = false // the exhaustive part is one stream among several
		c.DistN("exhaustive_strings_alphabet11_len<=", maxLen)
		// (b) boundary lengths
		lens := []int{0, 1, 2, 3, 49, 50, 51, 52, 100, 252, 253, 254, 255, 256, 257, 258, 300}
		for _, n := range lens {
			a := strings.Repeat("a", n)
			e := strings.Repeat("é", n)
			for _, s := range []string{a, "t:" + a, a + ":i", a + ":*", "t:i#" + a, a + ":i#r", "t:" + a + "#r", "é" + a, a + "é", e, e + ":1", e + ":*", "t:é" + a, e + ":i#" + "r"} {
				items = append(items, c18Item{s, "boundary"})
				c.Dist("boundary")
			}
		}
		// (c) random
		rng := rand.New(rand.NewSource(c.Seed))
		pool := []rune("abcXYZ019_|*@.+:#- \t\n\r\fé漢𝔘/\\$^[](){}")
		nRand := c.Pick(3000, 100000)
		for i := 0; i < nRand; i++ {
			n := rng.Intn(12)
			rs := make([]rune, n)
			for j := range rs {
				if rng.Intn(4) == 0 {
					rs[j] = pool[rng.Intn(len(pool))]
				} else {
					rs[j] = []rune("abc:#*")[rng.Intn(6)]
				}
			}
			items = append(items, c18Item{string(rs), "random"})
			c.Dist("random")
		}
		// (d) strings related by the names of the validators and of their parts: s and <name>s for every such name
		// (an answer remembered under a key built from a name and a string must not be given for another pair)
		names := []string{"user", "set", "userset", "object", "userobject", "wildcard", "userwildcard", "type", "relation", "id", "condition", "Object", "User"}
		bases := []string{"tings:dark", "ive:q3#owner", "s:all", "up:1", "s:*", "a:b", "a:b#c", "a:*", "x", ":x", "x#y", "a:b:c", "doc:1 ", "é:1"}
		for i := 0; i < c.Pick(20, 200); i++ {
			bases = append(bases, items[rng.Intn(len(items))].s)
		}
		for _, b := range bases {
			items = append(items, c18Item{b, "name-related"})
			for _, nme := range names {
				items = append(items, c18Item{nme + b, "name-related"}, c18Item{b + nme, "name-related"})
				c.Dist("name_related")
			}
		}
		// (e) every ASCII character (and a few others) at every position of short templates: the character classes of
		// the rules have neighbours in the code table ('[' .. '`' between the letter ranges, '/' and ':' around the
		// digits, '{' after 'z') that a representative per class never visits
		chars := []rune{}
		for r := rune(0); r < 128; r++ {
			chars = append(chars, r)
		}
		chars = append(chars, 0x80, 0xA0, 'é', 'ß', 0x2028, 0xFF3B, 0x1D504, 0xFFFD)
		for _, r := range chars {
			ch := string(r)
			for _, t := range []string{"%s", "a%s", "%sa", "a%sa", "t:a%s", "t:%sa", "t:a%sb", "a%s:i", "%sa:i", "t:a%s#r", "t:i#a%s", "t:i#%sa", "a%s:*", "t%s:i#r"} {
				items = append(items, c18Item{strings.Replace(t, "%s", ch, 1), "every-ascii"})
				c.Dist("every_ascii")
			}
		}
		c18Run(c, items)
		c.Sample(map[string]any{"s": "a:a#a", "ValidateUserSet": validation.ValidateUserSet("a:a#a")})
		c.Sample(map[string]any{"s": strings.Repeat("a", 255), "ValidateType": validation.ValidateType(strings.Repeat("a", 255))})
	}
}
