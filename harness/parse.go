package main

import (
	"fmt"
	"regexp"
	"strconv"
	"strings"

	"github.com/antlr4-go/antlr/v4"
	"github.com/hashicorp/go-multierror"
	openfgav1 "github.com/openfga/api/proto/openfga/v1"
	parser "github.com/openfga/language/pkg/go/gen"
	"github.com/openfga/language/pkg/go/transformer"
)

// harnessClean re-implements the pre-pass of ParseDSL independently (it is compared against
// the Lean port `Clean.clean` and, through the end results, against the real pre-pass).
func harnessClean(data string) string {
	lines := strings.Split(data, "\n")
	out := make([]string, len(lines))
	for i, line := range lines {
		t := strings.TrimLeft(line, " ")
		switch {
		case t == "":
		case t[0] == '#':
		default:
			if j := strings.Index(line, " #"); j >= 0 {
				line = line[:j]
			}
			out[i] = strings.TrimRight(line, " ")
		}
	}
	return strings.TrimRight(strings.Join(out, "\n"), "\n")
}

type synErr struct {
	Line, Col int
	Msg       string
}

type collectErrs struct {
	*antlr.DefaultErrorListener
	errs []synErr
}

func (c *collectErrs) SyntaxError(_ antlr.Recognizer, _ interface{}, line, column int, msg string, _ antlr.RecognitionException) {
	c.errs = append(c.errs, synErr{line - 1, column, msg})
}

type tokInfo struct {
	Type    string
	Text    string
	Line    int
	Col     int
	Channel int
}

func tokTypeName(p *parser.OpenFGAParser, t int) string {
	if t == antlr.TokenEOF {
		return "EOF"
	}
	if t >= 0 && t < len(p.SymbolicNames) && p.SymbolicNames[t] != "" {
		return p.SymbolicNames[t]
	}
	return "T" + strconv.Itoa(t)
}

// parsed is everything the real generated lexer and parser say about one cleaned text.
type parsed struct {
	Tree     string
	Toks     []tokInfo // all channels, EOF last
	LexErrs  []synErr
	ParseErr []synErr
	Errs     []synErr // both, in the order ANTLR reported them
}

type tagErrs struct {
	*antlr.DefaultErrorListener
	all  *[]synErr
	mine []synErr
}

func (c *tagErrs) SyntaxError(_ antlr.Recognizer, _ interface{}, line, column int, msg string, _ antlr.RecognitionException) {
	e := synErr{line - 1, column, msg}
	*c.all = append(*c.all, e)
	c.mine = append(c.mine, e)
}

// parseFull lexes and parses already cleaned text with the real generated lexer/parser.
func parseFull(cleaned string) parsed {
	input := antlr.NewInputStream(cleaned)
	var all []synErr
	lel := &tagErrs{DefaultErrorListener: antlr.NewDefaultErrorListener(), all: &all}
	pel := &tagErrs{DefaultErrorListener: antlr.NewDefaultErrorListener(), all: &all}
	lexer := parser.NewOpenFGALexer(input)
	lexer.RemoveErrorListeners()
	lexer.AddErrorListener(lel)
	stream := antlr.NewCommonTokenStream(lexer, antlr.TokenDefaultChannel)
	p := parser.NewOpenFGAParser(stream)
	p.RemoveErrorListeners()
	p.AddErrorListener(pel)
	root := p.Main()
	stream.Fill()
	var toks []tokInfo
	for _, t := range stream.GetAllTokens() {
		toks = append(toks, tokInfo{tokTypeName(p, t.GetTokenType()), t.GetText(), t.GetLine(), t.GetColumn(), t.GetChannel()})
	}
	var sb strings.Builder
	dumpTree(p, root, &sb)
	return parsed{Tree: sb.String(), Toks: toks, LexErrs: lel.mine, ParseErr: pel.mine, Errs: all}
}

// parseTree lexes and parses already cleaned text with the real generated lexer/parser and
// returns the tree, the token list (all channels) and the errors ANTLR reported.
func parseTree(cleaned string) (tree string, toks []tokInfo, errs []synErr) {
	r := parseFull(cleaned)
	return r.Tree, r.Toks, r.Errs
}

// frontCorr queues the correspondence of the real lexer and parser with their Lean models for one cleaned
// text: (1) `lex`: the interpreter of the embedded lexer automaton must produce the same tokens (type,
// text, line, column, channel; all channels, EOF included) and the same token recognition errors;
// (2) `parse`: the grammar interpreter, given the real tokens of the default channel, must produce the
// same parse tree when ANTLR's parser reported no error, and no parse when it reported one.
func frontCorr(c *Ctx, stream, text, cleaned string, r parsed) {
	if len(cleaned) > 20000 {
		c.Dist("front_skipped_long_text")
		return
	}
	items := make([]string, 0, len(r.Toks))
	for _, t := range r.Toks {
		items = append(items, L(t.Type, Q(t.Text), strconv.Itoa(t.Line), strconv.Itoa(t.Col), strconv.Itoa(t.Channel)))
	}
	errs := make([]string, 0, len(r.LexErrs))
	for _, e := range r.LexErrs {
		errs = append(errs, L(strconv.Itoa(e.Line), strconv.Itoa(e.Col), Q(e.Msg)))
	}
	c.D.Add("corr:lexer/"+stream, L("lex", Q(cleaned)), L("lex", L(items...), L(errs...)), map[string]any{"dsl": text, "cleaned": cleaned})
	c.Dist("lexer_texts_compared")
	if len(r.LexErrs) > 0 {
		c.Dist("lexer_texts_with_token_recognition_errors")
	}
	ptoks := make([]string, 0, len(r.Toks))
	depth, maxDepth := 0, 0
	for _, t := range r.Toks {
		if t.Channel != 0 {
			continue
		}
		ptoks = append(ptoks, L(t.Type, Q(t.Text), strconv.Itoa(t.Line), strconv.Itoa(t.Col)))
		if t.Type == "LPAREN" {
			depth++
			if depth > maxDepth {
				maxDepth = depth
			}
		} else if t.Type == "RPAREN" && depth > 0 {
			depth--
		}
	}
	want := "(syntax-error)"
	if len(r.ParseErr) == 0 {
		want = r.Tree
		c.Dist("parser_token_lists_accepted")
	} else {
		c.Dist("parser_token_lists_rejected")
	}
	// every error ANTLR's parser reports stands at the position of a token of the stream (the offending
	// token, EOF included): the clause of C16 that no model covers (the error strategy is not modelled)
	for _, e := range r.ParseErr {
		at := false
		for _, t := range r.Toks {
			if t.Line-1 == e.Line && t.Col == e.Col {
				at = true
				break
			}
		}
		c.Dist("parser_errors_checked_against_token_positions")
		if !at {
			c.OracleFail("antlr:error-at-token/"+stream, map[string]any{"dsl": text, "cleaned": cleaned, "error": e},
				"a syntax error reported by the parser does not stand at the position of any token of the text", "")
		}
	}
	nParseErr := len(r.ParseErr)
	c.D.AddF("corr:grammar-parser/"+stream, L("parse", L(ptoks...)), want, map[string]any{"dsl": text, "cleaned": cleaned, "antlr_parser_errors": r.ParseErr}, func(lean string) bool {
		// a difference in *acceptance* is a failing input of the property itself, not only a model that no longer
		// checks: the Go parser and the grammar it is generated from (from which the JS and Java parsers come
		// too) disagree on whether this text is DSL
		switch {
		case nParseErr > 0 && strings.HasPrefix(lean, "(r "):
			c.OracleFail("grammar:acceptance/"+stream, map[string]any{"dsl": text, "cleaned": cleaned, "antlr_parser_errors": r.ParseErr},
				"OpenFGAParser.g4 derives this token sequence (the grammar interpreter finds a parse) but the generated Go parser reports a syntax error", trunc(lean, 300))
			return true
		case nParseErr == 0 && lean == "(syntax-error)":
			c.OracleFail("grammar:acceptance/"+stream, map[string]any{"dsl": text, "cleaned": cleaned},
				"the generated Go parser accepts this text without a syntax error but OpenFGAParser.g4 does not derive its token sequence", trunc(want, 300))
			return true
		case nParseErr == 0 && strings.HasPrefix(lean, "(r ") && lean != want:
			// both accept, with different trees: the text is ambiguous in the grammar and the Go parser does not take
			// the first alternative in grammar order, which is what a parser generated from OpenFGAParser.g4 predicts
			// (and what the JS and Java packages, whose tables equal the grammar's, build) - "the same parse trees" fails
			c.OracleFail("grammar:tree/"+stream, map[string]any{"dsl": text, "cleaned": cleaned, "go_tree": trunc(want, 2000), "grammar_tree": trunc(lean, 2000)},
				"the generated Go parser accepts this text with a parse tree different from the derivation OpenFGAParser.g4 prescribes (first alternative in grammar order at every decision)", trunc(lean, 300))
			return true
		}
		return false
	})
}
func childIndex(ctx antlr.ParserRuleContext, target interface{}) int {
	for i, c := range ctx.GetChildren() {
		if interface{}(c) == target {
			return i
		}
		if tn, ok := c.(antlr.TerminalNode); ok {
			if tok, ok2 := target.(antlr.Token); ok2 && tn.GetSymbol() == tok {
				return i
			}
		}
	}
	return -1
}

func dumpTree(p *parser.OpenFGAParser, t antlr.Tree, sb *strings.Builder) {
	switch n := t.(type) {
	case antlr.ErrorNode:
		s := n.GetSymbol()
		fmt.Fprintf(sb, "(e %s %s %d %d)", tokTypeName(p, s.GetTokenType()), Q(s.GetText()), s.GetLine(), s.GetColumn())
	case antlr.TerminalNode:
		s := n.GetSymbol()
		fmt.Fprintf(sb, "(t %s %s %d %d)", tokTypeName(p, s.GetTokenType()), Q(s.GetText()), s.GetLine(), s.GetColumn())
	case antlr.ParserRuleContext:
		name := p.RuleNames[n.GetRuleIndex()]
		sl, sc := 0, 0
		if st := n.GetStart(); st != nil {
			sl, sc = st.GetLine(), st.GetColumn()
		}
		labels := []string{}
		addLabel := func(name string, target interface{}, isNil bool) {
			if isNil {
				return
			}
			if i := childIndex(n, target); i >= 0 {
				labels = append(labels, L(name, strconv.Itoa(i)))
			} else {
				labels = append(labels, L(name, "999999")) // set but not a child: never expected
			}
		}
		switch c := n.(type) {
		case *parser.ModelHeaderContext:
			addLabel("schemaVersion", c.GetSchemaVersion(), c.GetSchemaVersion() == nil)
		case *parser.ModuleHeaderContext:
			addLabel("moduleName", c.GetModuleName(), c.GetModuleName() == nil)
		case *parser.TypeDefContext:
			addLabel("typeName", c.GetTypeName(), c.GetTypeName() == nil)
		case *parser.RelationDefRewriteContext:
			addLabel("rewriteComputedusersetName", c.GetRewriteComputedusersetName(), c.GetRewriteComputedusersetName() == nil)
			addLabel("rewriteTuplesetName", c.GetRewriteTuplesetName(), c.GetRewriteTuplesetName() == nil)
		case *parser.RelationDefTypeRestrictionBaseContext:
			addLabel("relationDefTypeRestrictionType", c.GetRelationDefTypeRestrictionType(), c.GetRelationDefTypeRestrictionType() == nil)
			addLabel("relationDefTypeRestrictionRelation", c.GetRelationDefTypeRestrictionRelation(), c.GetRelationDefTypeRestrictionRelation() == nil)
			addLabel("relationDefTypeRestrictionWildcard", c.GetRelationDefTypeRestrictionWildcard(), c.GetRelationDefTypeRestrictionWildcard() == nil)
		}
		fmt.Fprintf(sb, "(r %s %d %d (%s) (", Q(name), sl, sc, strings.Join(labels, " "))
		for i, ch := range n.GetChildren() {
			if i > 0 {
				sb.WriteByte(' ')
			}
			dumpTree(p, ch, sb)
		}
		sb.WriteString("))")
	default:
		sb.WriteString("(unknown)")
	}
}

var reSynErr = regexp.MustCompile(`(?s)^syntax error at line=(-?\d+), column=(-?\d+): (.*)$`)

func canonErrs(es []synErr) string {
	items := []string{"errors"}
	for _, e := range es {
		items = append(items, L(strconv.Itoa(e.Line), strconv.Itoa(e.Col), Q(e.Msg)))
	}
	return L(items...)
}

// decodeSyntaxErrors extracts (line, column, message) of every error of a DSL transform error.
func decodeSyntaxErrors(err error) ([]synErr, bool) {
	me, ok := err.(*multierror.Error)
	if !ok {
		return nil, false
	}
	out := []synErr{}
	for _, e := range me.Errors {
		m := reSynErr.FindStringSubmatch(e.Error())
		if m == nil {
			return nil, false
		}
		l, _ := strconv.Atoi(m[1])
		c, _ := strconv.Atoi(m[2])
		out = append(out, synErr{l, c, m[3]})
	}
	return out, true
}

func canonExts(m *openfgav1.AuthorizationModel, exts map[string]*openfgav1.TypeDefinition) string {
	if exts == nil {
		return "noexts"
	}
	items := []string{"exts"}
	for _, k := range sortedKeys(exts) {
		idx := -1
		for i, td := range m.GetTypeDefinitions() {
			if td == exts[k] {
				idx = i
			}
		}
		items = append(items, L(Q(k), strconv.Itoa(idx)))
	}
	return L(items...)
}

// realParse runs the real TransformModularDSLToProto and returns the canonical outcome.
func realParse(text string) (out string, model *openfgav1.AuthorizationModel, errs []synErr) {
	var m *openfgav1.AuthorizationModel
	var exts map[string]*openfgav1.TypeDefinition
	var err error
	if p := safely(func() { m, exts, err = transformer.TransformModularDSLToProto(text) }); p != "" {
		return L("panic", Q(p)), nil, nil
	}
	if err != nil {
		es, ok := decodeSyntaxErrors(err)
		if !ok {
			return L("err", "other", Q(err.Error())), nil, nil
		}
		return canonErrs(es), nil, es
	}
	return L("ok", canonModel(m), canonExts(m, exts)), m, nil
}

// dslOp builds the protocol op that makes the Lean side run clean -> (check tokens) -> walk on
// the tree the real parser built for the cleaned text.
func dslOp(text string) (op string, cleaned string, antlrErrs []synErr) {
	cleaned = harnessClean(text)
	tree, _, errs := parseTree(cleaned)
	return L("dsl2model", Q(text), Q(cleaned), tree, canonErrs(errs)), cleaned, errs
}
