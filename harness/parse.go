package main

import (
	"fmt"
	"regexp"
	"strconv"
	"strings"

	"github.com/antlr4-go/antlr/v4"
	"github.com/hashicorp/go-multierror"
	openfgav1 "github.com/openfga/api/proto/openfga/v1"
	parser "github.com/openfga/language/pkg/go/gen"
	"github.com/openfga/language/pkg/go/transformer"
)

// harnessClean re-implements the pre-pass of ParseDSL independently (it is compared against
// the Lean port `Clean.clean` and, through the end results, against the real pre-pass).
func harnessClean(data string) string {
	lines := strings.Split(data, "\n")
	out := make([]string, len(lines))
	for i, line := range lines {
		t := strings.TrimLeft(line, " ")
		switch {
		case t == "":
		case t[0] == '#':
		default:
			if j := strings.Index(line, " #"); j >= 0 {
				line = line[:j]
			}
			out[i] = strings.TrimRight(line, " ")
		}
	}
	return strings.TrimRight(strings.Join(out, "\n"), "\n")
}

type synErr struct {
	Line, Col int
	Msg       string
}

type collectErrs struct {
	*antlr.DefaultErrorListener
	errs []synErr
}

func (c *collectErrs) SyntaxError(_ antlr.Recognizer, _ interface{}, line, column int, msg string, _ antlr.RecognitionException) {
	c.errs = append(c.errs, synErr{line - 1, column, msg})
}

type tokInfo struct {
	Type    string
	Text    string
	Line    int
	Col     int
	Channel int
}

func tokTypeName(p *parser.OpenFGAParser, t int) string {
	if t == antlr.TokenEOF {
		return "EOF"
	}
	if t >= 0 && t < len(p.SymbolicNames) && p.SymbolicNames[t] != "" {
		return p.SymbolicNames[t]
	}
	return "T" + strconv.Itoa(t)
}

// parseTree lexes and parses already cleaned text with the real generated lexer/parser and
// returns the tree, the token list (all channels) and the errors ANTLR reported.
func parseTree(cleaned string) (tree string, toks []tokInfo, errs []synErr) {
	input := antlr.NewInputStream(cleaned)
	el := &collectErrs{DefaultErrorListener: antlr.NewDefaultErrorListener()}
	lexer := parser.NewOpenFGALexer(input)
	lexer.RemoveErrorListeners()
	lexer.AddErrorListener(el)
	stream := antlr.NewCommonTokenStream(lexer, antlr.TokenDefaultChannel)
	p := parser.NewOpenFGAParser(stream)
	p.RemoveErrorListeners()
	p.AddErrorListener(el)
	root := p.Main()
	for _, t := range stream.GetAllTokens() {
		toks = append(toks, tokInfo{tokTypeName(p, t.GetTokenType()), t.GetText(), t.GetLine(), t.GetColumn(), t.GetChannel()})
	}
	var sb strings.Builder
	dumpTree(p, root, &sb)
	return sb.String(), toks, el.errs
}

func childIndex(ctx antlr.ParserRuleContext, target interface{}) int {
	for i, c := range ctx.GetChildren() {
		if interface{}(c) == target {
			return i
		}
		if tn, ok := c.(antlr.TerminalNode); ok {
			if tok, ok2 := target.(antlr.Token); ok2 && tn.GetSymbol() == tok {
				return i
			}
		}
	}
	return -1
}

func dumpTree(p *parser.OpenFGAParser, t antlr.Tree, sb *strings.Builder) {
	switch n := t.(type) {
	case antlr.ErrorNode:
		s := n.GetSymbol()
		fmt.Fprintf(sb, "(e %s %s %d %d)", tokTypeName(p, s.GetTokenType()), Q(s.GetText()), s.GetLine(), s.GetColumn())
	case antlr.TerminalNode:
		s := n.GetSymbol()
		fmt.Fprintf(sb, "(t %s %s %d %d)", tokTypeName(p, s.GetTokenType()), Q(s.GetText()), s.GetLine(), s.GetColumn())
	case antlr.ParserRuleContext:
		name := p.RuleNames[n.GetRuleIndex()]
		sl, sc := 0, 0
		if st := n.GetStart(); st != nil {
			sl, sc = st.GetLine(), st.GetColumn()
		}
		labels := []string{}
		addLabel := func(name string, target interface{}, isNil bool) {
			if isNil {
				return
			}
			if i := childIndex(n, target); i >= 0 {
				labels = append(labels, L(name, strconv.Itoa(i)))
			} else {
				labels = append(labels, L(name, "999999")) // set but not a child: never expected
			}
		}
		switch c := n.(type) {
		case *parser.ModelHeaderContext:
			addLabel("schemaVersion", c.GetSchemaVersion(), c.GetSchemaVersion() == nil)
		case *parser.ModuleHeaderContext:
			addLabel("moduleName", c.GetModuleName(), c.GetModuleName() == nil)
		case *parser.TypeDefContext:
			addLabel("typeName", c.GetTypeName(), c.GetTypeName() == nil)
		case *parser.RelationDefRewriteContext:
			addLabel("rewriteComputedusersetName", c.GetRewriteComputedusersetName(), c.GetRewriteComputedusersetName() == nil)
			addLabel("rewriteTuplesetName", c.GetRewriteTuplesetName(), c.GetRewriteTuplesetName() == nil)
		case *parser.RelationDefTypeRestrictionBaseContext:
			addLabel("relationDefTypeRestrictionType", c.GetRelationDefTypeRestrictionType(), c.GetRelationDefTypeRestrictionType() == nil)
			addLabel("relationDefTypeRestrictionRelation", c.GetRelationDefTypeRestrictionRelation(), c.GetRelationDefTypeRestrictionRelation() == nil)
			addLabel("relationDefTypeRestrictionWildcard", c.GetRelationDefTypeRestrictionWildcard(), c.GetRelationDefTypeRestrictionWildcard() == nil)
		}
		fmt.Fprintf(sb, "(r %s %d %d (%s) (", Q(name), sl, sc, strings.Join(labels, " "))
		for i, ch := range n.GetChildren() {
			if i > 0 {
				sb.WriteByte(' ')
			}
			dumpTree(p, ch, sb)
		}
		sb.WriteString("))")
	default:
		sb.WriteString("(unknown)")
	}
}

var reSynErr = regexp.MustCompile(`(?s)^syntax error at line=(-?\d+), column=(-?\d+): (.*)$`)

func canonErrs(es []synErr) string {
	items := []string{"errors"}
	for _, e := range es {
		items = append(items, L(strconv.Itoa(e.Line), strconv.Itoa(e.Col), Q(e.Msg)))
	}
	return L(items...)
}

// decodeSyntaxErrors extracts (line, column, message) of every error of a DSL transform error.
func decodeSyntaxErrors(err error) ([]synErr, bool) {
	me, ok := err.(*multierror.Error)
	if !ok {
		return nil, false
	}
	out := []synErr{}
	for _, e := range me.Errors {
		m := reSynErr.FindStringSubmatch(e.Error())
		if m == nil {
			return nil, false
		}
		l, _ := strconv.Atoi(m[1])
		c, _ := strconv.Atoi(m[2])
		out = append(out, synErr{l, c, m[3]})
	}
	return out, true
}

func canonExts(m *openfgav1.AuthorizationModel, exts map[string]*openfgav1.TypeDefinition) string {
	if exts == nil {
		return "noexts"
	}
	items := []string{"exts"}
	for _, k := range sortedKeys(exts) {
		idx := -1
		for i, td := range m.GetTypeDefinitions() {
			if td == exts[k] {
				idx = i
			}
		}
		items = append(items, L(Q(k), strconv.Itoa(idx)))
	}
	return L(items...)
}

// realParse runs the real TransformModularDSLToProto and returns the canonical outcome.
func realParse(text string) (out string, model *openfgav1.AuthorizationModel, errs []synErr) {
	var m *openfgav1.AuthorizationModel
	var exts map[string]*openfgav1.TypeDefinition
	var err error
	if p := safely(func() { m, exts, err = transformer.TransformModularDSLToProto(text) }); p != "" {
		return L("panic", Q(p)), nil, nil
	}
	if err != nil {
		es, ok := decodeSyntaxErrors(err)
		if !ok {
			return L("err", "other", Q(err.Error())), nil, nil
		}
		return canonErrs(es), nil, es
	}
	return L("ok", canonModel(m), canonExts(m, exts)), m, nil
}

// dslOp builds the protocol op that makes the Lean side run clean -> (check tokens) -> walk on
// the tree the real parser built for the cleaned text.
func dslOp(text string) (op string, cleaned string, antlrErrs []synErr) {
	cleaned = harnessClean(text)
	tree, _, errs := parseTree(cleaned)
	return L("dsl2model", Q(text), Q(cleaned), tree, canonErrs(errs)), cleaned, errs
}
