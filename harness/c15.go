package main

import (
	"encoding/hex"
	"fmt"
	"math/rand"
	"strconv"
	"strings"

	"github.com/openfga/language/pkg/go/transformer"
	"gopkg.in/yaml.v3"
)

type yamlModFileShape struct {
	Schema   yaml.Node `yaml:"schema"`
	Contents yaml.Node `yaml:"contents"`
}

func nodeSexp(n *yaml.Node) string {
	if n.IsZero() {
		return "zero"
	}
	cs := []string{}
	for _, c := range n.Content {
		cs = append(cs, nodeSexp(c))
	}
	return L("node", Q(n.Tag), Q(n.Value), strconv.Itoa(n.Line), strconv.Itoa(n.Column), L(cs...))
}

type modRes struct {
	Out      string
	Accepted bool
	Values   []transformer.ModFileStringProperty
	Errs     []*transformer.ModFileValidationError
	Schema   transformer.ModFileStringProperty
	Contents transformer.ModFileArrayProperty
	YAMLErr  bool
}

var modMsgs = []string{"missing schema field", "unexpected schema type, expected string got value ", "unsupported schema version, fga.mod only supported in version `1.2`",
	"missing contents field", "unexpected contents type, expected list of strings got value ", "unexpected contents item type, expected string got value ",
	"failed to decode path: ", "invalid contents item ", "contents items should use fga file extension, got "}

func splitModMsg(msg string) (string, string) {
	for _, m := range modMsgs {
		if strings.HasPrefix(msg, m) {
			return m, msg[len(m):]
		}
	}
	return msg, ""
}

func realModFile(data string) modRes {
	var mf *transformer.ModFile
	var err error
	if p := safely(func() { mf, err = transformer.TransformModFile(data) }); p != "" {
		return modRes{Out: L("panic", Q(p))}
	}
	if err != nil {
		me, ok := err.(*transformer.ModFileValidationMultipleError)
		if !ok {
			return modRes{Out: "yaml-error", YAMLErr: true}
		}
		items := []string{"errors"}
		r := modRes{}
		for _, e := range me.Errors {
			ve, ok := e.(*transformer.ModFileValidationError)
			if !ok {
				items = append(items, L("other", Q(e.Error())))
				continue
			}
			m, echo := splitModMsg(ve.Msg)
			items = append(items, L(strconv.Itoa(ve.Line), strconv.Itoa(ve.Column), Q(m), Q(echo)))
			r.Errs = append(r.Errs, ve)
		}
		r.Out = L(items...)
		return r
	}
	items := []string{}
	for _, v := range mf.Contents.Value {
		items = append(items, L(hex.EncodeToString([]byte(v.Value)), strconv.Itoa(v.Line), strconv.Itoa(v.Column)))
	}
	out := L("ok", L("schema", hex.EncodeToString([]byte(mf.Schema.Value)), strconv.Itoa(mf.Schema.Line), strconv.Itoa(mf.Schema.Column)),
		L(append([]string{"contents", strconv.Itoa(mf.Contents.Line), strconv.Itoa(mf.Contents.Column)}, items...)...))
	return modRes{Out: out, Accepted: true, Values: mf.Contents.Value, Schema: mf.Schema, Contents: mf.Contents}
}

// pathSafe is the safety predicate of C15 on a returned value.
func pathSafe(v string) string {
	if strings.HasPrefix(v, "/") {
		return "starts with '/'"
	}
	if strings.Contains(v, "\\") {
		return "contains a backslash"
	}
	for _, seg := range strings.Split(v, "/") {
		if seg == ".." {
			return "has a '..' path segment"
		}
	}
	if !strings.HasSuffix(v, ".fga") {
		return "does not end in .fga"
	}
	return ""
}

// c15Batch feeds entries through the real TransformModFile in one manifest (single-quoted
// scalars: the only YAML style in which backslash, percent and plus are all literal).
func c15Batch(c *Ctx, entries []string, stream string) {
	var sb strings.Builder
	sb.WriteString("schema: '1.2'\ncontents:\n")
	for _, e := range entries {
		sb.WriteString("  - '" + strings.ReplaceAll(e, "'", "''") + "'\n")
	}
	data := sb.String()
	res := realModFile(data)
	if res.YAMLErr || strings.HasPrefix(res.Out, "(panic") {
		c.OracleFail("c15:"+stream, map[string]any{"manifest": data}, "manifest of single-quoted strings is not processed: "+res.Out, res.Out)
		return
	}
	// per entry verdict: line index = 2 + i
	verdict := make([]string, len(entries))
	if res.Accepted {
		if len(res.Values) != len(entries) {
			c.OracleFail("c15:"+stream, map[string]any{"manifest": data}, "accepted manifest returns a different number of paths than entries (silently filtered?)", res.Out)
			return
		}
		for i, v := range res.Values {
			verdict[i] = "(ok " + hex.EncodeToString([]byte(v.Value)) + ")"
			if v.Line != 2+i || v.Column != 4 {
				c.OracleFail("c15:"+stream, map[string]any{"manifest": data, "entry": i}, "returned line/column does not point at the value", res.Out)
			}
		}
	} else {
		seen := map[int]int{}
		for _, e := range res.Errs {
			i := e.Line - 2
			if i < 0 || i >= len(entries) {
				c.OracleFail("c15:"+stream, map[string]any{"manifest": data, "error": e.Error()}, "error does not point at an entry", res.Out)
				continue
			}
			seen[i]++
			m, _ := splitModMsg(e.Msg)
			switch m {
			case "failed to decode path: ":
				verdict[i] = "decode-err"
			case "invalid contents item ":
				verdict[i] = "invalid"
			case "contents items should use fga file extension, got ":
				verdict[i] = "bad-ext"
			default:
				verdict[i] = "other:" + m
			}
		}
		for i, n := range seen {
			if n != 1 {
				c.OracleFail("c15:"+stream, map[string]any{"manifest": data, "entry": entries[i]}, "more than one error for one offending entry", res.Out)
			}
		}
	}
	// entries of a rejected manifest that drew no error would have been accepted: feed them again
	// alone so that the values they are given become observable
	if !res.Accepted {
		good := []string{}
		goodIdx := []int{}
		for i, e := range entries {
			if verdict[i] == "" {
				good = append(good, e)
				goodIdx = append(goodIdx, i)
			}
		}
		if len(good) > 0 {
			var sb2 strings.Builder
			sb2.WriteString("schema: '1.2'\ncontents:\n")
			for _, e := range good {
				sb2.WriteString("  - '" + strings.ReplaceAll(e, "'", "''") + "'\n")
			}
			res2 := realModFile(sb2.String())
			if !res2.Accepted || len(res2.Values) != len(good) {
				c.OracleFail("c15:"+stream, map[string]any{"manifest": sb2.String()}, "entries that drew no error are not accepted when submitted alone (verdict depends on the other entries)", res2.Out)
			} else {
				for k, v := range res2.Values {
					verdict[goodIdx[k]] = "(ok " + hex.EncodeToString([]byte(v.Value)) + ")"
				}
			}
		}
	}
	for i, e := range entries {
		c.R.Evaluations++
		c.Dist("entries_" + stream)
		if verdict[i] == "" {
			continue
		}
		c.Dist("verdict_" + strings.SplitN(strings.Trim(verdict[i], "()"), " ", 2)[0])
		c.D.Add("corr:modpath/"+stream, L("modpath", Q(e)), verdict[i], map[string]string{"entry": e})
		if strings.HasPrefix(verdict[i], "(ok ") {
			vb, _ := hex.DecodeString(verdict[i][4 : len(verdict[i])-1])
			v := string(vb)
			c.Nontrivial(e)
			if why := pathSafe(v); why != "" {
				c.OracleFail("c15:safety/"+stream, map[string]any{"entry": e, "returned": v}, "accepted path "+why, verdict[i])
			}
			if !strings.ContainsAny(e, "%+\\") && v != e {
				c.OracleFail("c15:verbatim/"+stream, map[string]any{"entry": e, "returned": v}, "a path without %, + or backslash is not returned verbatim", verdict[i])
			}
		}
	}
}

func init() {
	props["C15"] = func(c *Ctx) {
		c.R.Rule = "(a) every string up to a bounded length over the alphabet {. / \\ % 2 5 e E f F c C + a g} as a contents entry (batches of 200 entries per manifest, single-quoted scalars) through the real " +
			"TransformModFile, compared with the Lean port per entry; oracles: safety predicate on every accepted value, verbatim rule, one error per offending entry, nothing filtered, line/column of every entry; " +
			"(b) random longer entries ending in .fga with escapes; (c) whole manifests with schema/contents variants, non-string items, anchors/aliases, scalar styles: real vs Lean `transform` over the " +
			"yaml.v3 nodes, plus the position oracle (source text at the reported position starts the scalar). non-trivial = distinct accepted entry"
		alpha := []string{".", "/", "\\", "%", "2", "5", "e", "E", "f", "F", "c", "C", "+", "a", "g"}
		maxLen := c.Pick(4, 5)
		all := []string{}
		var rec func(p string, n int)
		rec = func(p string, n int) {
			all = append(all, p+".fga")
			if rngKeep(p) {
				all = append(all, p)
			}
			if n == maxLen {
				return
			}
			for _, a := range alpha {
				rec(p+a, n+1)
			}
		}
		rec("", 0)
		for i := 0; i < len(all); i += 200 {
			j := min(i+200, len(all))
			c15Batch(c, all[i:j], "exhaustive")
		}
		c.DistN("exhaustive_prefix_len<=", maxLen)
		c.DistN("exhaustive_entries", len(all))
		rng := rand.New(rand.NewSource(c.Seed))
		// (b) random longer
		pieces := []string{"..", ".", "/", "\\", "%2e", "%2E", "%2f", "%2F", "%5c", "%5C", "%25", "%", "+", "a", "dir", "file", ".fga", "%2e%2e", "%252e", "%c0%ae", "%00", "é", " ", "%zz", "%2",
			// separators and dots encoded twice and three times (a second decoding round must not happen)
			"%255c", "%255C", "%252f", "%252F", "%25255c", "%2525252e", "%25%35%63"}
		nb := c.Pick(4000, 200000)
		batch := []string{}
		for i := 0; i < nb; i++ {
			n := 1 + rng.Intn(7)
			s := ""
			for k := 0; k < n; k++ {
				s += pieces[rng.Intn(len(pieces))]
			}
			if rng.Intn(3) > 0 {
				s += ".fga"
			}
			batch = append(batch, s)
			if len(batch) == 200 {
				c15Batch(c, batch, "random")
				batch = nil
			}
		}
		if len(batch) > 0 {
			c15Batch(c, batch, "random")
		}
		// (c) whole manifests
		schemas := []string{"schema: '1.2'", "schema: \"1.2\"", "schema: 1.2", "schema: '1.1'", "schema: [1.2]", "", "schema: !!str 1.2", "schema: &s '1.2'", "schema:\n  '1.2'", "schema: |\n  1.2", "schema: >-\n  1.2", "schema:   '1.2'   # c",
			// strings that are not the text 1.2 but read like it: numerically equal, padded, prefixed, suffixed, other digits
			"schema: '1.20'", "schema: \"1.20\"", "schema: '01.2'", "schema: '+1.2'", "schema: '1.2e0'", "schema: '12e-1'", "schema: !!str 1.20", "schema: '1.200'",
			"schema: ' 1.2'", "schema: '1.2 '", "schema: \"1.2\\n\"", "schema: \"\\t1.2\"", "schema: '1.2.0'", "schema: 'v1.2'", "schema: '1,2'", "schema: '1.2x'", "schema: '1_2'",
			"schema: '1.3'", "schema: '2.1'", "schema: '1.'", "schema: '.2'", "schema: '1'", "schema: ''", "schema: \"\"", "schema: '１.２'", "schema: '1.2\u00a0'", "schema: \"1.2\\0\"",
			"schema: '0x1.3333333333333p+0'", "schema: '1.20000000000000001'", "schema: |\n  1.20", "schema: >\n  1.2", "schema: |+\n  1.2\n", "schema: '1.2\n\n  '", "schema: \"1.2\\\n  \"",
			"schema: 1.20", "schema: 1.2e0", "schema: 0x1", "schema: null", "schema: ~", "schema: true", "schema: {v: '1.2'}", "schema: ['1.2']", "Schema: '1.2'", "schema : '1.2'"}
		// the plain, exactly-right forms stay the most frequent ones
		for k := 0; k < 3; k++ {
			schemas = append(schemas, "schema: '1.2'", "schema: \"1.2\"", "schema: !!str 1.2")
		}
		contents := []string{"contents:\n  - a.fga\n  - b/c.fga", "contents: [a.fga, 'b.fga']", "contents: a.fga", "", "contents:\n  - 1\n  - a.fga", "contents:\n  - [a.fga]\n  - {x: y}",
			"contents:\n  - &a a.fga\n  - *a", "contents:\n  - &core core.fga\n  - *core\n  - wiki.fga", "contents: [core.fga, *s, wiki.fga]", "contents:\n  - a.fga\n  - *s", "contents:\n  - \"a\\\\b.fga\"\n  - ../x.fga\n  - y.txt", "contents: []", "contents:\n  - |\n    a.fga\n  - >-\n    b.fga", "contents:\n  -   x.fga # c\n  - 'y z.fga'",
			"contents:\n  - null\n  - true\n  - ~", "contents: !!seq\n  - !!str 5.fga"}
		nm := c.Pick(300, 3000)
		for i := 0; i < nm; i++ {
			parts := []string{schemas[rng.Intn(len(schemas))], contents[rng.Intn(len(contents))]}
			if rng.Intn(4) == 0 {
				parts[0], parts[1] = parts[1], parts[0]
			}
			data := strings.TrimSpace(parts[0] + "\n" + parts[1])
			if rng.Intn(5) == 0 {
				data = "# leading comment\n\n" + data
			}
			// blank and whitespace-only lines before the first key (and after the last): positions are those of the
			// text as given, whatever surrounds the document
			if rng.Intn(4) == 0 {
				data = []string{"\n", "\n\n", "   \n", "\n# c\n", "\r\n\r\n", "\n \n\n"}[rng.Intn(6)] + data
			}
			if rng.Intn(6) == 0 {
				data += []string{"\n", "\n\n", "\n   \n", " "}[rng.Intn(4)]
			}
			c.R.Evaluations++
			res := realModFile(data)
			var shape yamlModFileShape
			if err := yaml.Unmarshal([]byte(data), &shape); err != nil {
				if !res.YAMLErr {
					c.OracleFail("c15:manifest", map[string]any{"manifest": data}, "harness' yaml decode fails but TransformModFile does not report a YAML error", res.Out)
				}
				continue
			}
			c.D.Add("corr:modfile/manifests", L("modfile", nodeSexp(&shape.Schema), nodeSexp(&shape.Contents)), res.Out, map[string]string{"manifest": data})
			if res.Accepted && shape.Contents.Kind == yaml.SequenceNode && len(res.Values) != len(shape.Contents.Content) {
				c.OracleFail("c15:manifest", map[string]any{"manifest": data}, fmt.Sprintf("the manifest lists %d entries and is accepted with %d paths: an entry was silently dropped or invented", len(shape.Contents.Content), len(res.Values)), res.Out)
			}
			if res.Accepted {
				if res.Schema.Value != "1.2" {
					c.OracleFail("c15:manifest", map[string]any{"manifest": data}, "accepted manifest whose schema is not 1.2", res.Out)
				}
				lines := strings.Split(data, "\n")
				at := func(l, col int) string {
					if l < 0 || l >= len(lines) || col < 0 || col > len(lines[l]) {
						return "<outside>"
					}
					return lines[l][col:]
				}
				check := func(what, val string, l, col int) {
					rest := at(l, col)
					okPos := strings.HasPrefix(rest, val) || strings.HasPrefix(rest, "'") || strings.HasPrefix(rest, "\"") || strings.HasPrefix(rest, "|") ||
						strings.HasPrefix(rest, ">") || strings.HasPrefix(rest, "&") || strings.HasPrefix(rest, "!!") || strings.HasPrefix(rest, "*")
					if !okPos {
						c.OracleFail("c15:position", map[string]any{"manifest": data, "property": what, "line": l, "column": col, "text_there": rest}, "reported position does not point at the value", res.Out)
					}
				}
				check("schema", res.Schema.Value, res.Schema.Line, res.Schema.Column)
				for _, v := range res.Values {
					if !strings.ContainsAny(v.Value, "\\%+") {
						check("contents item", v.Value, v.Line, v.Column)
					}
					if why := pathSafe(v.Value); why != "" {
						c.OracleFail("c15:safety/manifest", map[string]any{"manifest": data, "returned": v.Value}, "accepted path "+why, res.Out)
					}
				}
			}
		}
		c.Sample(map[string]any{"entry": "..%5cx.fga", "result": "invalid"})
		c.Sample(map[string]any{"entry": "a%2Fb.fga", "result": "a/b.fga"})
		_ = fmt.Sprint
	}
}

// rngKeep: also try the bare prefix (no .fga) for a deterministic third of the prefixes
func rngKeep(p string) bool {
	h := 0
	for _, ch := range p {
		h = h*31 + int(ch)
	}
	return h%3 == 0
}
