package main

import (
	"google.golang.org/protobuf/encoding/protojson"
	"google.golang.org/protobuf/proto"
	"math/rand"
	"strings"
)

func init() {
	props["C10"] = func(c *Ctx) {
		c.R.Rule = "generated graph-biased models (duplicate and mixed conditioned/unconditioned restrictions, the same userset through several paths, repeated operands, nested operators, " +
			"TTUs over several parent types) ; the node set and per-node ordered edge lists (target, kind, tupleset label, ordered condition names) of the real weighted graph (operator ULIDs renamed to " +
			"T#r@k) are compared with the Lean port of the construction; builder errors compared by kind; oracle: the model is unchanged by Build. non-trivial = distinct model whose graph has an operator node"
		rng := rand.New(rand.NewSource(c.Seed))
		n := c.Pick(1500, 20000)
		for i := 0; i < n; i++ {
			var m *Model
			if rng.Intn(3) == 0 {
				m = GenModel(rng, GenOpts{Conds: true, MaxDepth: 1 + rng.Intn(3), Plain: true, MaxTypes: 4})
			} else if rng.Intn(2) == 0 {
				m = GenGraphModel(rng)
			} else {
				m = GenWModel(rng)
			}
			pm := m.Proto()
			pristine := proto.Clone(pm)
			canon := canonModel(pm)
			c.R.Evaluations++
			st, errS := realWStruct(pm)
			if errS == "hooks-unavailable" {
				c.Dist("skipped_no_hook")
				continue
			}
			expect := st
			if errS != "" {
				switch {
				case strings.HasPrefix(errS, "panic:"):
					c.OracleFail("c10:panic", map[string]any{"model": canon}, "weighted graph construction panicked: "+errS, "")
					continue
				case strings.Contains(errS, "invalid tupleset relation"):
					expect = "(err invalid-tupleset"
				case strings.Contains(errS, "No type and relation link exists"):
					expect = "(err no-type-link"
				case strings.Contains(errS, "type does not have defined"):
					expect = "(err missing-relation"
				default:
					expect = "(err other " + errS
				}
				c.Dist("builder_error")
				exp := expect
				c.D.AddF("corr:wstruct/errors", L("wstruct", canon), exp, map[string]any{"model": canon}, func(lean string) bool { return strings.HasPrefix(lean, exp) })
				continue
			}
			c.D.Add("corr:wstruct/generated", L("wstruct", canon), expect, map[string]any{"model": canon})
			if strings.Contains(st, "@0") {
				c.Nontrivial(canon)
			}
			c10Oracle(c, m, canon, st)
			if canonModel(pm) != canon || !proto.Equal(pm, pristine) {
				js, _ := protojson.Marshal(pristine)
				c.OracleFail("c10:frame", map[string]any{"model": canon, "model_json": string(js)}, "building the weighted graph modified the model", "")
			}
			// the public Build must construct the same structure on accepted models
			rb := realWBuild(pm)
			if rb.Err == "" && rb.Struct != st {
				c.OracleFail("c10:hook-vs-build", map[string]any{"model": canon}, "Build and the hooked construction loop give different graphs", "")
			}
		}
		c.Sample(map[string]any{"model": "type doc: define v: [user, user with c] or (a and b from p)"})
	}
}
