//go:build verif

package main

import (
	"sort"

	openfgav1 "github.com/openfga/api/proto/openfga/v1"
	"github.com/openfga/language/pkg/go/graph"
)

const hooksAvailable = true

// hookWBuild: construction, then weight assignment started from `order`
func hookWBuild(m *openfgav1.AuthorizationModel, order []string) (wResult, []string) {
	var g *graph.WeightedAuthorizationModelGraph
	var err error
	if p := safely(func() { g, err = graph.VerifBuildUnweighted(m) }); p != "" {
		return wResult{Err: "panic:" + p, Full: "panic:" + p}, nil
	}
	if err != nil {
		return wResult{Err: errClass(err), Full: "err"}, nil
	}
	labels := []string{}
	for ul, n := range g.GetNodes() {
		if n.GetNodeType() == graph.SpecificTypeAndRelation || n.GetNodeType() == graph.OperatorNode {
			labels = append(labels, ul)
		}
	}
	sort.Slice(labels, func(i, j int) bool { return wCanonLess(g, labels[i], labels[j]) })
	var real []string
	if order != nil {
		names := wOpNames(g)
		inv := map[string]string{}
		for k, v := range names {
			inv[v] = k
		}
		for _, o := range order {
			if ul, ok := inv[o]; ok {
				real = append(real, ul)
			} else {
				real = append(real, o)
			}
		}
	}
	if p := safely(func() { err = g.VerifAssignWeightsInOrder(real) }); p != "" {
		return wResult{Err: "panic:" + p, Full: "panic:" + p}, nil
	}
	canon := []string{}
	names := wOpNames(g)
	for _, l := range labels {
		if c, ok := names[l]; ok {
			canon = append(canon, c)
		} else {
			canon = append(canon, l)
		}
	}
	sort.Strings(canon)
	if err != nil {
		return wResult{Err: errClass(err), Full: "err", Assign: "(err " + errClass(err) + ")"}, canon
	}
	return dumpWGraph(g, true), canon
}

func wCanonLess(g *graph.WeightedAuthorizationModelGraph, a, b string) bool { return a < b }

func realWStruct(m *openfgav1.AuthorizationModel) (string, string) {
	var g *graph.WeightedAuthorizationModelGraph
	var err error
	if p := safely(func() { g, err = graph.VerifBuildUnweighted(m) }); p != "" {
		return "", "panic:" + p
	}
	if err != nil {
		return "", errClass(err) + ":" + err.Error()
	}
	return dumpWGraph(g, false).Struct, ""
}
