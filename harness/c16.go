package main

import (
	"math/rand"
	"strings"
	"unicode/utf8"
)

// boundsOracle: every syntax error lies inside the input.
func c16Bounds(c *Ctx, text string, errs []synErr, stream string) {
	lines := strings.Split(text, "\n")
	for _, e := range errs {
		if e.Line < 0 || e.Line >= len(lines) {
			c.OracleFail("c16:bounds/"+stream, map[string]any{"dsl": text, "line": e.Line, "column": e.Col, "msg": e.Msg}, "error line outside the input", "")
			return
		}
		if e.Col < 0 || e.Col > utf8.RuneCountInString(lines[e.Line]) {
			c.OracleFail("c16:bounds/"+stream, map[string]any{"dsl": text, "line": e.Line, "column": e.Col, "msg": e.Msg}, "error column beyond the end of its line", "")
			return
		}
	}
}

// firstLineWithPrefix is the lookup the unchanged code is known to use (prefix match, no scoping).
func firstLineWithPrefix(text, prefix string) int {
	for i, l := range strings.Split(text, "\n") {
		if strings.HasPrefix(strings.TrimSpace(l), prefix) {
			return i
		}
	}
	return -1
}

func init() {
	props["C16"] = func(c *Ctx) {
		c.R.Rule = "(a) bounds: every rejected document of the C09 catalogue under random layouts/comments: each reported line < number of input lines and column <= line length; " +
			"(b) exact positions of listener-raised errors: a duplicate relation / condition / parameter, extend in a model file or a repeated extend is injected at a position the independent renderer " +
			"records, and the reported (line, column) must be that of the offending name; (c) exact file, line and column of module-merge conflicts against the renderer's marks. " +
			"Correspondence: real parser / merger vs Lean ports (positions included). non-trivial = distinct injected conflict whose position was compared"
		rng := rand.New(rand.NewSource(c.Seed))
		// (a)+(b)
		n := c.Pick(150, 3000)
		for i := 0; i < n; i++ {
			for _, v := range c09Catalogue {
				var m *Model
				if v.kind == "extend-twice" {
					m = GenModuleFile(rng, "core")
				} else {
					m = GenModel(rng, GenOpts{DSLValid: true, Conds: rng.Intn(2) == 0, MaxDepth: 1 + rng.Intn(3)})
				}
				before := cloneNames(m)
				if !v.apply(rng, m) {
					continue
				}
				var lay *rand.Rand
				if rng.Intn(4) > 0 {
					lay = rand.New(rand.NewSource(rng.Int63()))
				}
				text, l := RenderL(m, lay)
				c.R.Evaluations++
				out, _, errs := realParse(text)
				op, _, _ := dslOp(text)
				c.D.Add("corr:parser/"+v.kind, op, out, map[string]any{"dsl": text})
				c16Bounds(c, text, errs, v.kind)
				// exact position for the listener-raised kinds
				key, msgPart := c16ExpectedKey(v.kind, before, m)
				if key == "" {
					continue
				}
				mk, ok := l.Marks[key]
				if !ok {
					c.Note("missing mark " + key)
					continue
				}
				found := false
				for _, e := range errs {
					if strings.Contains(e.Msg, msgPart) {
						found = true
						if e.Line != mk[0] || e.Col != mk[1] {
							c.OracleFail("c16:listener/"+v.kind, map[string]any{"dsl": text, "reported": []int{e.Line, e.Col}, "expected": mk, "msg": e.Msg},
								"listener error is not reported at the offending name", out)
						} else {
							c.Nontrivial(v.kind + "|" + text)
						}
					}
				}
				if !found {
					c.OracleFail("c16:listener/"+v.kind, map[string]any{"dsl": text, "expected_message_part": msgPart}, "the expected listener error is missing", out)
				}
			}
		}
		// (c) merge conflicts
		nm := c.Pick(600, 10000)
		for i := 0; i < nm; i++ {
			ms := GenModSet(rng, 1)
			ms.Render(rng)
			if len(ms.Conflicts) != 1 {
				continue
			}
			cf := ms.Conflicts[0]
			c.R.Evaluations++
			res := realMerge(ms.Names, ms.Texts, "1.2")
			input := map[string]any{"files": filesInput(ms), "conflict": cf}
			c.D.Add("corr:merge/positions", mergeOp(ms.Names, ms.Texts, "1.2"), res.Out, input)
			for fi, t := range ms.Texts {
				_, _, errs := realParse(t)
				c16Bounds(c, t, errs, "module-file-"+itoa(fi))
			}
			if cf.Key == "" || cf.Kind == "syntax" || cf.Kind == "not-a-module" {
				continue
			}
			var sym, prefix string
			switch cf.Kind {
			case "dup-type":
				sym, prefix = cf.What, "type "+cf.What
			case "dup-cond":
				sym, prefix = cf.What, "condition "+cf.What
			case "missing-target":
				sym, prefix = cf.What, "extend type "+cf.What
			case "rel-clash":
				sym = cf.What[strings.Index(cf.What, "#")+1:]
				prefix = "define " + sym
			}
			for _, e := range res.Errs {
				if e.Syn {
					continue
				}
				fidx := -1
				for k, nme := range ms.Names {
					if nme == e.File {
						fidx = k
					}
				}
				if fidx != cf.File {
					if cf.Alt >= 0 && fidx == cf.Alt {
						c.Dist("rel-clash attributed to the other extending file (not compared)")
					}
					continue
				}
				mk, ok := ms.Layouts[fidx].Marks[cf.Key]
				if !ok {
					c.Note("missing mark " + cf.Key)
					continue
				}
				c.Dist("merge_positions_compared:" + cf.Kind)
				if e.LS == mk[0] && e.CS == mk[1] && e.LE == mk[0] && e.CE == mk[1]+len(sym) {
					c.Nontrivial(cf.Kind + "|" + ms.Texts[fidx])
					continue
				}
				// known findings: prefix match without scoping; substring column
				text := ms.Texts[fidx]
				pl := firstLineWithPrefix(text, prefix)
				if e.LS != mk[0] && pl == e.LS && pl != mk[0] && c.Known.Open("KF-C16-prefix-line") {
					c.KnownHit("KF-C16-prefix-line", map[string]any{"file": text, "searched_prefix": prefix, "reported_line": e.LS, "declaration_line": mk[0]})
					continue
				}
				if pl == -1 && e.LS == 0 && e.LE == 0 && e.CS == 0 && e.CE == 0 && c.Known.Open("KF-C16-spacing-not-found") {
					c.KnownHit("KF-C16-spacing-not-found", map[string]any{"declaration_line_text": strings.Split(text, "\n")[mk[0]], "searched_prefix": prefix})
					continue
				}
				if e.LS == mk[0] && e.CS != mk[1] && c.Known.Open("KF-C16-substring-column") {
					line := strings.Split(text, "\n")[mk[0]]
					if strings.Index(line, sym) == e.CS && e.CS < mk[1] {
						c.KnownHit("KF-C16-substring-column", map[string]any{"line": line, "symbol": sym, "reported_column": e.CS, "name_column": mk[1]})
						continue
					}
				}
				c.OracleFail("c16:merge/"+cf.Kind, map[string]any{"files": filesInput(ms), "conflict": cf, "reported": []int{e.LS, e.LE, e.CS, e.CE}, "expected_line_col": mk},
					"merge conflict is not reported on the line/column of the conflicting declaration", res.Out)
			}
		}
		c.Sample(map[string]any{"dsl": "model\n  schema 1.1\ntype doc\n  relations\n    define a: [doc]\n    define a: a", "expected_error_at": []int{5, 11}})
	}
}

type nameSnapshot struct {
	rels  map[string]int
	conds map[string]int
}

func cloneNames(m *Model) nameSnapshot {
	s := nameSnapshot{map[string]int{}, map[string]int{}}
	for _, t := range m.Types {
		for _, r := range t.Rels {
			s.rels[t.Name+":"+r.Name]++
		}
	}
	for _, cd := range m.Conds {
		s.conds[cd.Name]++
	}
	return s
}

// c16ExpectedKey: the mark of the declaration the listener must point at, for the kinds of the
// catalogue that raise a listener error; "" otherwise.
func c16ExpectedKey(kind string, before nameSnapshot, m *Model) (key string, msgPart string) {
	switch kind {
	case "duplicate-relation":
		for _, t := range m.Types {
			seen := map[string]int{}
			for _, r := range t.Rels {
				seen[r.Name]++
				if seen[r.Name] == 2 {
					// occurrence index within the whole file for key rel:<type>:<rel>
					return "rel:" + t.Name + ":" + r.Name + "#1", "'" + r.Name + "' is already defined in '" + t.Name + "'"
				}
			}
		}
	case "duplicate-condition":
		seen := map[string]int{}
		for _, cd := range m.Conds {
			seen[cd.Name]++
			if seen[cd.Name] == 2 {
				return "cond:" + cd.Name + "#1", "condition '" + cd.Name + "' is already defined"
			}
		}
	case "duplicate-parameter":
		condSeen := map[string]int{}
		for _, cd := range m.Conds {
			occ := condSeen[cd.Name]
			condSeen[cd.Name]++
			seen := map[string]int{}
			for _, p := range cd.Params {
				seen[p.Name]++
				if seen[p.Name] == 2 {
					if occ > 0 {
						return "", ""
					}
					return "param:" + cd.Name + ":" + p.Name + "#1", "parameter '" + p.Name + "' is already defined in the condition '" + cd.Name + "'"
				}
			}
		}
	case "extend-in-model":
		for _, t := range m.Types {
			if t.Extend {
				return "ext:" + t.Name + "#0", "extend can only be used in a modular model"
			}
		}
	case "extend-twice":
		seen := map[string]int{}
		for _, t := range m.Types {
			if t.Extend {
				seen[t.Name]++
				if seen[t.Name] == 2 {
					return "ext:" + t.Name + "#1", "'" + t.Name + "' is already extended in file."
				}
			}
		}
	}
	return "", ""
}
