#!/usr/bin/env python3
"""Translates the rules of /repo/OpenFGALexer.g4 into Lean (lean/FgaVerif/Gen/LexGrammar.lean):
per rule (token rules and fragments, in grammar order, all modes) an extended regular expression over
character sets and rule references, the mode it belongs to, whether it is a fragment, and its lexer
commands.  Regenerated on every run; compared in Lean with the lexer ATN embedded in the generated
lexers (Props/C19.lean)."""
import os, re, sys
V = os.path.dirname(os.path.dirname(os.path.abspath(__file__)))
SRC = "/repo/OpenFGALexer.g4"
OUT = os.path.join(V, "lean/FgaVerif/Gen/LexGrammar.lean")

TOK = re.compile(r"""
    \s+ | //[^\n]* | /\*.*?\*/ |
    (?P<lit>'(?:\\u[0-9a-fA-F]{4}|\\u\{[0-9a-fA-F]+\}|\\.|[^'\\])*') |
    (?P<cset>\[(?:\\.|[^\]\\])*\]) |
    (?P<id>[A-Za-z_][A-Za-z_0-9]*) |
    (?P<arrow>->) | (?P<dots>\.\.) |
    (?P<p>[:;|()?*+~.,{}])
""", re.X | re.S)

def tokenize(text):
    out = []; i = 0
    while i < len(text):
        m = TOK.match(text, i)
        if not m: raise SystemExit(f"gen_lexgrammar: cannot tokenize at {text[i:i+30]!r}")
        i = m.end()
        for k in ("lit", "cset", "id", "arrow", "dots", "p"):
            if m.group(k) is not None:
                out.append((k, m.group(k))); break
    return out

def unescape(body):
    """characters of a literal body (without quotes) as code points"""
    cps = []; i = 0
    while i < len(body):
        c = body[i]
        if c == "\\":
            n = body[i+1]
            if n == "u":
                if body[i+2] == "{":
                    j = body.index("}", i); cps.append(int(body[i+3:j], 16)); i = j + 1; continue
                cps.append(int(body[i+2:i+6], 16)); i += 6; continue
            cps.append({"n": 10, "r": 13, "t": 9, "f": 12, "b": 8, "\\": 92, "'": 39, '"': 34, "-": 45, "]": 93}.get(n, ord(n))); i += 2; continue
        cps.append(ord(c)); i += 1
    return cps

class P:
    def __init__(self, toks): self.t = toks; self.i = 0
    def peek(self): return self.t[self.i] if self.i < len(self.t) else (None, None)
    def next(self): x = self.peek(); self.i += 1; return x
    def expect(self, v):
        x = self.next()
        if x[1] != v: raise SystemExit(f"gen_lexgrammar: expected {v!r}, got {x!r} near {self.t[max(0,self.i-6):self.i+2]}")
    def alt(self):
        xs = [self.seq()]
        while self.peek()[1] == "|":
            self.next(); xs.append(self.seq())
        return xs[0] if len(xs) == 1 else ("alt", xs)
    def seq(self):
        xs = []
        while self.peek()[1] not in (None, "|", ")", ";", "->"):
            xs.append(self.suffixed())
        return xs[0] if len(xs) == 1 else ("seq", xs)
    def suffixed(self):
        a = self.atom()
        while self.peek()[1] in ("?", "*", "+"):
            op = self.next()[1]
            if self.peek()[1] == "?": self.next()          # non-greedy marker: same local sets
            a = ({"?": "opt", "*": "star", "+": "plus"}[op], a)
        return a
    def setatom(self):
        """an element allowed under ~ : literal, range, char set, or a parenthesised alternative of them"""
        k, v = self.next()
        if k == "lit":
            cps = unescape(v[1:-1])
            if self.peek()[0] == "dots":
                self.next(); k2, v2 = self.next(); hi = unescape(v2[1:-1])
                return [(cps[0], hi[0])]
            if len(cps) != 1: raise SystemExit("gen_lexgrammar: multi-character literal inside a set")
            return [(cps[0], cps[0])]
        if k == "cset":
            return self.cset(v)
        if v == "(":
            iv = self.setatom()
            while self.peek()[1] == "|":
                self.next(); iv += self.setatom()
            self.expect(")"); return iv
        raise SystemExit(f"gen_lexgrammar: unexpected {v!r} in a set")
    def cset(self, v):
        cps = unescape(v[1:-1]); iv = []; i = 0
        while i < len(cps):
            if i + 2 < len(cps) and cps[i+1] == 45:
                iv.append((cps[i], cps[i+2])); i += 3
            else:
                iv.append((cps[i], cps[i])); i += 1
        return iv
    def atom(self):
        k, v = self.next()
        if v == "(":
            a = self.alt(); self.expect(")"); return a
        if v == "~":
            return ("set", self.setatom(), True)
        if v == ".":
            return ("any",)
        if k == "lit":
            cps = unescape(v[1:-1])
            if self.peek()[0] == "dots":
                self.next(); k2, v2 = self.next(); hi = unescape(v2[1:-1])
                return ("set", [(cps[0], hi[0])], False)
            xs = [("set", [(c, c)], False) for c in cps]
            return xs[0] if len(xs) == 1 else ("seq", xs)
        if k == "cset":
            return ("set", self.cset(v), False)
        if k == "id":
            return ("ref", v)
        raise SystemExit(f"gen_lexgrammar: unexpected token {v!r}")

def lean(g):
    k = g[0]
    if k == "set":
        return ".set [" + ", ".join(f"({a}, {b})" for a, b in g[1]) + "] " + ("true" if g[2] else "false")
    if k == "any": return ".any"
    if k == "ref": return f'.ref "{g[1]}"'
    if k in ("opt", "star", "plus"): return f".{k} ({lean(g[1])})"
    if k in ("seq", "alt"): return f".{k} [" + ", ".join(lean(x) for x in g[1]) + "]"
    raise SystemExit("gen_lexgrammar: " + repr(g))

def main():
    toks = tokenize(open(SRC).read())
    p = P(toks)
    while p.peek()[1] in ("lexer", "grammar"):
        while p.next()[1] != ";": pass
    mode = "DEFAULT_MODE"; rules = []
    while p.peek()[0] is not None:
        k, v = p.peek()
        if v in ("tokens", "channels", "options"):
            while p.next()[1] != "}": pass
            continue
        if v == "mode":
            p.next(); mode = p.next()[1]; p.expect(";"); continue
        frag = False
        if v == "fragment":
            p.next(); frag = True
        name = p.next()[1]; p.expect(":")
        body = p.alt(); cmds = []
        if p.peek()[1] == "->":
            p.next()
            while True:
                c = p.next()[1]; arg = ""
                if p.peek()[1] == "(":
                    p.next(); arg = p.next()[1]; p.expect(")")
                cmds.append((c, arg))
                if p.peek()[1] == ",": p.next(); continue
                break
        p.expect(";")
        rules.append((name, frag, mode, body, cmds))
    out = ["import FgaVerif.Model.AtnGraph",
           "/-! GENERATED by tools/gen_lexgrammar.py from /repo/OpenFGALexer.g4 on every run — do not edit. -/",
           "namespace FgaVerif.Gen.LexGrammar", "open FgaVerif.Model.AtnGraph", ""]
    for name, frag, mode, body, cmds in rules:
        out.append(f"def l_{name} : LGram := {lean(body)}")
    out.append("")
    out.append("def rules : List LexRule := [" + ",\n  ".join(
        '{ name := "%s", fragment := %s, mode := "%s", body := l_%s, commands := [%s] }' % (
            n, "true" if f else "false", m, n, ", ".join('("%s", "%s")' % c for c in cmds))
        for n, f, m, _, cmds in rules) + "]")
    out.append("")
    out.append("end FgaVerif.Gen.LexGrammar")
    open(OUT, "w").write("\n".join(out) + "\n")

if __name__ == "__main__":
    main()
