#!/bin/bash
# tools/mutant.sh <ID> [demo-dir-under-pkg/go (default transformer)] [test-regex] [checks...]
# 1. verifies a sub-agent's seeded change in its scratch worktree /tmp/wt-<ID>: suite green with the
#    patch, demo fails with it and passes without it; 2. stores it under /verif/seeded/<ID>/;
# 3. applies it to /repo, runs the given checks (default: the property's own), restores /repo.
set -u
ID=$1; DIR=${2:-transformer}; RX=${3:-Test}; shift 3 2>/dev/null || shift $#
CHECKS=${*:-${ID%%-*}}
WT=/tmp/wt-$ID
export GOFLAGS=-mod=mod GOPROXY=off GOSUMDB=off GOTOOLCHAIN=local
cd $WT || exit 2
git stash -q 2>/dev/null; git checkout -q -- . ; git apply _out/patch.diff || { echo "patch does not apply"; exit 2; }
( cd pkg/go && go build ./... && go test -vet=off -count=1 ./... 2>&1 | grep -v "no test files" | tr '\n' ' ' ); echo
cp _out/demo_test.go pkg/go/$DIR/zz_seeded_demo_test.go
( cd pkg/go && go test -vet=off -count=1 -run "$RX" ./$DIR/ > /tmp/demo_with_$ID.log 2>&1; echo "demo WITH patch: exit=$? (want non-zero)" )
git apply -R _out/patch.diff
( cd pkg/go && go test -vet=off -count=1 -run "$RX" ./$DIR/ > /tmp/demo_without_$ID.log 2>&1; echo "demo WITHOUT patch: exit=$? (want 0)" )
rm -f pkg/go/$DIR/zz_seeded_demo_test.go
mkdir -p /verif/seeded/$ID && cp _out/patch.diff _out/demo_test.go _out/meta.json /verif/seeded/$ID/
# run the checks against /repo with the change applied
cd /verif
git -C /repo status --short | grep -v '^??' | grep -q . && { echo "/repo not clean"; exit 2; }
git -C /repo apply $WT/_out/patch.diff || { echo "patch does not apply to /repo"; exit 2; }
for c in $CHECKS; do
  ./run $c quick > /tmp/mut_${ID}_$c.log 2>&1; echo "check $c exit=$? : $(grep -c '^VIOLATION' /tmp/mut_${ID}_$c.log) VIOLATION line(s); $(grep '^VIOLATION' /tmp/mut_${ID}_$c.log | head -2 | tr '\n' ' ')"
  tail -1 /tmp/mut_${ID}_$c.log | cut -c1-250
done
git -C /repo checkout -- .
git -C /repo status --short | head -3
# the Gen/* copies were regenerated from the changed tree by ./run: restore them from the clean tree
for t in /verif/tools/gen_*.py; do python3 $t; done
