#!/usr/bin/env python3
import json,sys
r=json.load(open(sys.argv[1])); n=int(sys.argv[2]) if len(sys.argv)>2 else 400
print({k:(v if not isinstance(v,list) else len(v)) for k,v in r.items() if k not in('rule','known_finding_samples','samples')})
for d in r['disagreements'][:3]: print('DIS',json.dumps(d)[:n])
for d in r['oracle_failures'][:4]: print('ORC',d.get('detail'),json.dumps(d)[:n])
