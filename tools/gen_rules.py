#!/usr/bin/env python3
"""Translator: validation rule strings and validator compositions -> lean/FgaVerif/Gen/Rules.lean

Sources (re-read on every run):
  pkg/go/validation/validation-rules.go          (rules + the nine Validate* compositions)
  pkg/js/validator/validate-rules.ts             (rules)
  pkg/java/src/main/java/dev/openfga/language/validation/Validator.java (rules)
The Go compositions are extracted syntactically: every `fmt.Sprintf(<fmt>, Rule...)` passed to
regexp.MatchString, and the boolean structure of the return expression.  Anything the extractor
does not recognise is emitted as `VExpr.bad "<text>"`, which makes the theorem
`Props.C18.validators_shape` fail instead of being silently skipped.
"""
import re, sys, os

REPO = os.environ.get("VERIF_REPO", "/repo")
OUT = sys.argv[1] if len(sys.argv) > 1 else "/verif/lean/FgaVerif/Gen/Rules.lean"


def unescape_c(s):
    """decode a Go/JS/Java double-quoted string literal body (the escapes these files use)"""
    out = []
    i = 0
    while i < len(s):
        c = s[i]
        if c == "\\":
            n = s[i + 1]
            m = {"\\": "\\", '"': '"', "n": "\n", "t": "\t", "r": "\r", "'": "'", "`": "`", "$": "$"}
            if n in m:
                out.append(m[n]); i += 2
            elif n == "u":
                out.append(chr(int(s[i + 2:i + 6], 16))); i += 6
            else:
                raise ValueError("unknown escape \\" + n)
        else:
            out.append(c); i += 1
    return "".join(out)


def lean_str(s):
    out = ['"']
    for ch in s:
        if ch == "\\": out.append("\\\\")
        elif ch == '"': out.append('\\"')
        elif ch == "\n": out.append("\\n")
        elif ch == "\t": out.append("\\t")
        elif ch == "\r": out.append("\\r")
        elif ord(ch) < 32 or ord(ch) > 126: out.append("\\u{%x}" % ord(ch))
        else: out.append(ch)
    out.append('"')
    return "".join(out)


def go_rules(src):
    return [(m.group(1), unescape_c(m.group(2)))
            for m in re.finditer(r'^\s*(Rule\w+)\s+Rule\s*=\s*"((?:[^"\\]|\\.)*)"', src, re.M)]


def js_rules(src):
    m = re.search(r"export const Rules = \{(.*?)\};", src, re.S)
    body = m.group(1) if m else ""
    return [(k, unescape_c(v)) for k, v in re.findall(r'^\s*(\w+):\s*"((?:[^"\\]|\\.)*)",?\s*$', body, re.M)]


def java_rules(src):
    m = re.search(r"class Rules \{(.*?)\n\s*\}\n", src, re.S)
    body = m.group(1) if m else ""
    return [(k, unescape_c(v)) for k, v in
            re.findall(r'public static final String (\w+)\s*=\s*"((?:[^"\\]|\\.)*)";', body)]


# ---- Go validator compositions -------------------------------------------------------------

def parse_sprintf(expr):
    m = re.fullmatch(r'fmt\.Sprintf\("((?:[^"\\]|\\.)*)"((?:\s*,\s*Rule\w+)*)\)', expr.strip())
    if not m:
        return None
    args = re.findall(r"Rule\w+", m.group(2))
    return ("re", unescape_c(m.group(1)), args)


def parse_bool(expr, env):
    """|| lowest, && next; atoms: identifiers bound in env, calls Validate*(x), parentheses"""
    toks = re.findall(r"\|\||&&|\(|\)|[A-Za-z_]\w*", expr)
    pos = [0]

    def peek():
        return toks[pos[0]] if pos[0] < len(toks) else None

    def eat():
        t = peek(); pos[0] += 1; return t

    def atom():
        t = eat()
        if t == "(":
            e = or_(); eat(); return e
        if t is None:
            return ("bad", expr)
        if peek() == "(":           # call: Name ( arg )
            eat(); eat(); eat()
            return ("call", t)
        return env.get(t, ("bad", t))

    def and_():
        e = atom()
        while peek() == "&&":
            eat(); e = ("and", e, atom())
        return e

    def or_():
        e = and_()
        while peek() == "||":
            eat(); e = ("or", e, and_())
        return e

    e = or_()
    if pos[0] != len(toks):
        return ("bad", expr)
    return e


def go_validators(src):
    out = []
    for m in re.finditer(r"^func (Validate\w+)\((\w+) string\) bool \{\n(.*?)^\}", src, re.S | re.M):
        name, arg, body = m.group(1), m.group(2), m.group(3)
        env = {}
        ret = None
        ok = True
        for line in body.strip().split("\n"):
            line = line.strip()
            if not line:
                continue
            mm = re.fullmatch(r"(\w+), _ := regexp\.MatchString\((.*), (\w+)\)", line)
            if mm and mm.group(3) == arg:
                sp = parse_sprintf(mm.group(2))
                env[mm.group(1)] = sp if sp else ("bad", mm.group(2))
                continue
            mm = re.fullmatch(r"return (.*)", line)
            if mm:
                ret = parse_bool(mm.group(1), env)
                continue
            ok = False
        if not ok or ret is None:
            ret = ("bad", name)
        out.append((name, ret))
    return out


def lean_vexpr(e):
    k = e[0]
    if k == "re":
        return "(.re %s [%s])" % (lean_str(e[1]), ", ".join(lean_str(a) for a in e[2]))
    if k == "and":
        return "(.and %s %s)" % (lean_vexpr(e[1]), lean_vexpr(e[2]))
    if k == "or":
        return "(.or %s %s)" % (lean_vexpr(e[1]), lean_vexpr(e[2]))
    if k == "call":
        return "(.call %s)" % lean_str(e[1])
    return "(.bad %s)" % lean_str(str(e[1]))


def main():
    go = open(os.path.join(REPO, "pkg/go/validation/validation-rules.go")).read()
    js = open(os.path.join(REPO, "pkg/js/validator/validate-rules.ts")).read()
    java = open(os.path.join(REPO, "pkg/java/src/main/java/dev/openfga/language/validation/Validator.java")).read()
    L = []
    L.append("/- GENERATED by tools/gen_rules.py from /repo on every run. Do not edit. -/")
    L.append("import FgaVerif.Model.VExpr")
    L.append("namespace FgaVerif.Gen.Rules")
    L.append("open FgaVerif.Model")
    for nm, rules in (("goRules", go_rules(go)), ("jsRules", js_rules(js)), ("javaRules", java_rules(java))):
        L.append("def %s : List (String × String) := [" % nm)
        L.append(",\n".join("  (%s, %s)" % (lean_str(k), lean_str(v)) for k, v in rules))
        L.append("]")
    L.append("def goValidators : List (String × VExpr) := [")
    L.append(",\n".join("  (%s, %s)" % (lean_str(n), lean_vexpr(e)) for n, e in go_validators(go)))
    L.append("]")
    L.append("end FgaVerif.Gen.Rules")
    text = "\n".join(L) + "\n"
    old = open(OUT).read() if os.path.exists(OUT) else None
    if old != text:
        open(OUT, "w").write(text)


main()
