#!/usr/bin/env python3
# tools/confirm.py <ID> <caught-by,comma> <how>   -> records the builder's confirmation in seeded/<ID>/meta.json
import json, sys
i, caught, how = sys.argv[1], sys.argv[2].split(','), sys.argv[3]
p = f'/verif/seeded/{i}/meta.json'
m = json.load(open(p))
m['confirmed_by_builder'] = {
    "procedure": "tools/mutant.sh: suite green with the patch, demo fails with it and passes without it; patch applied to /repo, checks run, /repo restored",
    "caught_by_checks": caught, "how": how}
json.dump(m, open(p, 'w'), indent=1, ensure_ascii=False)
