#!/usr/bin/env python3
"""Writes /verif/MANIFEST.json from the table below (kept in one place so it is always valid)."""
import json, os
V = os.path.dirname(os.path.dirname(os.path.abspath(__file__)))

CHECKS = {
 "C18": dict(
   category="proof",
   text="Every clause of C18 is a Lean theorem over all strings (unique ':' / '#', unique split into accepted parts, the three user alternatives pairwise disjoint, no whitespace, reserved characters, exact length limits, identical rule strings in Go/JS/Java), about validators that are *defined from the rule strings and compositions re-extracted from the sources on every run* (theorem validators_shape). The flat-regex matcher is proved equivalent to its declarative semantics; its agreement with Go's regexp is checked by correspondence (exhaustive over a class-representative alphabet, boundary lengths, random Unicode).",
   design_ref="DESIGN.md §6.18",
   note="Go regexp (RE2) semantics is a parameter validated by the correspondence; '\\s' is read as RE2's [\\t\\n\\f\\r ]; invalid UTF-8 is outside the modelled domain; JS/Java regex engines are not executed (only their rule strings are compared).",
   technique="Lean 4 theorems over a regenerated model (translator) + differential correspondence vs Go regexp"),
}

def tv(text, ref, note):
    return dict(category="translation_validation", text=text, design_ref=ref, note=note,
                technique="differential correspondence of a hand-written Lean 4 model against the real code + property oracles (theorems pending)")

TV_NOTE = "The Lean port is tied to the code only on the generated inputs reported in the evidence; ANTLR, protojson and the Go runtime are parameters."
CHECKS.update({
 "C01": tv("Correspondence: real DSL parser vs Lean (pre-pass port + listener port walking the real parse tree) and real printer vs Lean printer port, on generated models under random grammatical layouts; metamorphic round-trip oracle (d->m1->d2->m2->d3, both API paths) on the real code. Theorems about the ports are not yet part of this check.", "DESIGN.md §6.1", TV_NOTE),
 "C02": tv("Correspondence real printer vs Lean printer port on all rewrite trees <= 7 nodes (exhaustive) plus random models; oracles: success <=> independent path-based expressibility, error kind, parse(print m) = normalize m, IsRelationAssignable <=> '[' printed.", "DESIGN.md §6.2", TV_NOTE),
 "C03": tv("An independent grammar-mirroring renderer writes generated models and module files in random layouts; oracle: the real parser accepts and returns exactly the model written; correspondence: real parser vs Lean pre-pass + listener port on the real parse tree.", "DESIGN.md §6.3", TV_NOTE),
 "C07": tv("Correspondence real merger vs Lean port on generated module sets with injected conflicts; oracles: success <=> conflict-free, result == attributed union, offending file named, GetModuleForObjectTypeRelation.", "DESIGN.md §6.7", TV_NOTE),
 "C09": tv("11-kind catalogue of structural violations injected at random sites/depths/layouts; oracle: non-nil error and nil model; correspondence real parser vs Lean listener port (listener-raised errors incl. positions).", "DESIGN.md §6.9", TV_NOTE),
 "C12": tv("Each module set merged repeatedly and under permutations of the file list on the real code; identical outcomes / permutation-invariant verdict; correspondence with the (schedule-free) Lean port for every permutation.", "DESIGN.md §6.12", TV_NOTE),
 "C14": tv("Real printer vs Lean printer port for both values of the source-information option; oracles: byte equality across repeated calls, shuffled JSON key order, permuted type definitions; strip(comments) == plain; both parse to the same model.", "DESIGN.md §6.14", TV_NOTE),
 "C16": tv("Bounds of every reported syntax error on rejected documents; exact (line, column) of listener-raised errors and of merge conflicts against positions recorded by the independent renderer; correspondence with the Lean ports including positions.", "DESIGN.md §6.16", TV_NOTE),
})

CHECKS.update({
 "C04": tv("Real weights (public Build and hooked forced start orders) vs the Lean specification of weights (least fixed point over a model-derived graph with operand grouping); oracles: edge rule, no placeholder, no empty map.", "DESIGN.md §6.4", TV_NOTE),
 "C05": tv("Real verdict under every enumerated/sampled depth-first start order vs the Lean well-foundedness specification; error class limited to the three sentinels.", "DESIGN.md §6.5", TV_NOTE),
 "C06": tv("All builds of one model (repeated, forced orders, permuted type definitions, concurrent) identical; operand permutation leaves relation weights unchanged (oracle on the real code).", "DESIGN.md §6.6", TV_NOTE),
 "C10": tv("Node set and ordered edge lists (kinds, tupleset labels, ordered conditions) of the real weighted graph vs the Lean port of the construction; builder errors by kind; model unchanged.", "DESIGN.md §6.10", TV_NOTE),
 "C11": tv("Real wildcard lists vs the reachable-public-types specification; duplicates; edge rule.", "DESIGN.md §6.11", TV_NOTE),
 "C15": tv("Per-entry verdict and returned value of the real TransformModFile vs the Lean port, exhaustively over the escape alphabet to a bounded length plus random; whole manifests over yaml.v3 nodes; safety/verbatim/one-error-per-entry/position oracles.", "DESIGN.md §6.15", TV_NOTE),
 "C17": tv("Structure of the plain graph, its reversal and double reversal, all-pairs reachability and cycle flags vs the Lean port; oracles: DOT stability, flip, path duality, lookup, flags.", "DESIGN.md §6.17", TV_NOTE),
})

CHECKS.update({
 "C08": dict(category="translation_validation",
   text="PARTIAL. Decided here: the hand-written listener never panics on the real, error-recovered parse trees of fuzzed inputs (the Lean listener port, which makes every nil dereference / nil-map write / index explicit, walks the same trees and must agree on panic and error list), no public entry point panics or exceeds the watchdog on mutated corpus inputs and degenerate protobuf models, and a syntax error is always returned as an error. NOT decided by this family: the quadratic work bound (a property of ANTLR's adaptive prediction and lexer simulation, which no model here executes) - a conservative scaling probe runs as search only and its two hits are a listed known finding - and the totality of yaml.v3 / protojson.",
   design_ref="DESIGN.md §6.8",
   note="fuzzing and the scaling probe are search, not proof; ANTLR runtime, yaml.v3, protojson are parameters",
   technique="differential correspondence of the Lean listener model on real error-recovered parse trees + panic/timeout oracles under mutation fuzzing (search)"),
 "C13": dict(category="other",
   text="PARTIAL. Function-of-arguments is immediate for the Lean model (pure functions); what carries content is that the real code agrees with itself and with the model under every history and interleaving tried: the same operation list is executed sequentially (arguments compared before/after: inputs untouched), in a cold child process, in a child warmed by hundreds of unrelated inputs, and from 8 goroutines in a -race build sharing one read-only model. Data-race freedom and cache-history independence are runtime facts no Lean model exhibits; the race detector and the cold/warm comparison are monitors, not proofs.",
   design_ref="DESIGN.md §6.13",
   note="Go race detector (dynamic), ANTLR runtime caches, Go scheduler: exercised, not modelled",
   technique="schedule- and history-varied correspondence (cold / warm / concurrent -race) + frame oracles"),
 "C19": dict(category="proof",
   text="Equality of the serialized lexer and parser automata of the Go, JS and Java packages and of the six .interp files, equality of all vocabulary tables (literal, symbolic, rule, mode names, .tokens numbers) across packages and with the names declared in the two .g4 files, and existence of a grammar rule for every callback of the Go listener, are Lean theorems decided by kernel evaluation over tables re-extracted from /repo on every run. A hand edit of one generated parser, or a vocabulary change not regenerated everywhere, breaks a theorem.",
   design_ref="DESIGN.md §6.19",
   note="the extractor tools/gen_atn.py is trusted (it reads one automaton from three concrete syntaxes, which cross-validates it; its Go tables are also compared with the compiled package in-process); that equal automata mean equal behaviour is the ANTLR runtimes' contract; the JS and Java packages cannot be executed here; an edit of a .g4 rule *body* that is not regenerated is not detected by these theorems (no .g4-to-ATN translator yet)",
   technique="Lean 4 theorems by kernel evaluation (decide +kernel) over regenerated finite tables"),
})

CHECKS["C15"] = dict(category="proof",
   text="For every byte string: an accepted contents entry is returned relative, without backslash, without a '..' path segment and with the .fga suffix (modfile_safe); an entry without '%', '+' or backslash is returned verbatim (modfile_verbatim); every item yields exactly one outcome, path or error, in order (items_one_each); an accepted manifest has schema exactly \"1.2\" of tag !!str, a !!seq contents node, as many returned paths as entries and only safe paths (modfile_accepts). These are Lean theorems about the port of the checks of TransformModFile; the port is tied to the code by correspondence (exhaustive over the 15-letter escape alphabet to length 4-5 plus .fga, random longer entries, whole manifests over the nodes yaml.v3 produced). The position clause (line/column point at the value) depends on yaml.v3 and is checked by an oracle on the real code, not proved.",
   design_ref="DESIGN.md §6.15",
   note="yaml.v3 (node tags, values, positions) and net/url.QueryUnescape are parameters: the latter is ported (queryUnescape) and validated by the correspondence; the former is an input of the model",
   technique="Lean 4 theorems over a hand-written model + differential correspondence vs the real TransformModFile")

PROOF_NOTE = "Theorems are about the hand-written Lean ports; the ports are tied to the code by the differential correspondence on the generated inputs reported in the evidence. ANTLR's lexer/parser (text -> parse tree) is a parameter: no .g4 -> Lean recogniser was built, so every statement that needs that step is executed by oracles on the real code, not proved."
CHECKS.update({
 "C01": dict(category="proof",
   text="PARTIAL PROOF. Proved for every typed CST of a relation declaration (all rewrite shapes, depths, layouts, redundant parentheses, keyword identifiers, restrictions): the listener port records exactly the CST's denotation (parse_side = Proofs/Listener.walk_decl, by mutual structural induction over the operator-stack machine), and rendering the parsed relation back to DSL always succeeds (render_always_succeeds: the parser image is DSL-expressible, combined with C02's print_ok_iff_expressible). Not proved: that lexing+parsing the printed text yields a tree of the same denotation and byte-stability of the third rendering (needs a model of ANTLR); these are executed on every run by the metamorphic oracle d->m1->d2->m2->d3 on both API paths, with the Lean listener/printer ports compared against the real ones on the same inputs.",
   design_ref="DESIGN.md §6.1", note=PROOF_NOTE,
   technique="Lean 4 theorems (mutual structural induction over CSTs) about hand-written ports + differential correspondence + metamorphic oracle"),
 "C02": dict(category="proof",
   text="Proved for every rewrite tree about the printer port: printing a relation succeeds iff the tree is DSL-expressible in a path-based, code-independent sense (no unset userset and no operator without operands; no direct assignment, or exactly one reachable from the root through first operands / exclusion bases, where any direct child of a union/intersection counts because it is hoisted) - print_ok_iff_expressible; every failure is the unsupported-nesting error for that type and relation - print_error_is_nesting; IsRelationAssignable holds iff the printer's direct-assignment counter is positive and the counter equals the number of direct assignments - assignable_iff_counted; hoisting is a permutation - hoist_is_permutation. The port is tied to the real printer on ALL rewrite trees with <= 7 nodes (exhaustive) plus random deep models. 'Parsing the produced DSL gives back the input up to the four normalisations' is executed by the oracle (needs the real parser), not proved. An operator without operands counts as inexpressible (repaired defect: it used to be printed as an empty operand list); one open finding on degenerate input (a direct assignment without restrictions is printed as '[]') is witnessed by a kernel-checked example.",
   design_ref="DESIGN.md §6.2", note=PROOF_NOTE,
   technique="Lean 4 theorems about a hand-written port + exhaustive small-scope correspondence vs the real printer"),
 "C03": dict(category="proof",
   text="PARTIAL PROOF. Proved for all typed CSTs of relation declarations, which carry every layout choice of the grammar (text of each WHITESPACE/NEWLINE token, optional tokens, line breaks in restriction lists, redundant parentheses of any depth, keyword tokens as identifiers): two declarations with the same name, denotation and declared restrictions leave the listener in the same state (listener_layout_invariant), and the relation recorded is the denotation of the CST with operand order and nesting as written and the restrictions in order (declared_rewrite_recorded). This is carried over to REAL parse trees with their positions: the walk commutes with erasing positions up to the positions stored in the error log (walk_strip over all callbacks, dispatch and walker), so every real relation-declaration subtree that passes the decidable embedding test (position-erased, it is literally the embedding of a well-formed CST - an unverified reader proposes the CST, a verified structural equality test confirms it) provably yields the denotation of that CST (real_declaration_denotes, real_declaration_relation); the driver evaluates the test on every relation declaration of every error-free real parse tree and the evidence reports the counts (all pass), and every such tree is also checked to be a derivation by the grammar translated from OpenFGAParser.g4 on this run. Not proved: that the real lexer/parser accept every grammatical text and build the right tree; executed: an independent grammar-mirroring renderer writes generated models and module files in random layouts, the real parser must return exactly the model written, and the Lean pre-pass + listener ports are compared with the real pipeline on the real parse trees.",
   design_ref="DESIGN.md §6.3", note=PROOF_NOTE,
   technique="Lean 4 theorems (layout-carrying CST, listener port) + independent renderer oracle + differential correspondence"),
 "C09": dict(category="proof",
   text="PARTIAL PROOF (listener half). Proved for EVERY parse tree of any shape, grammatical or error-recovered: the listener's error log only grows during the walk (walk_grows, all 20 callbacks), and a model is returned only if ANTLR reported nothing and the log is empty at the end (any_error_voids_result) - so an error raised at any position or depth voids the result. A relation declaration whose name is already defined raises an error whatever surrounds it and no continuation of the walk can end with an empty log (duplicate_relation_rejected_anywhere); an accepted declaration is reflected in the model with exactly its denotation and no earlier relation is lost (declaration_reflected). The grammar half (mixed operators, direct assignment not first, empty/ill-formed restriction, headers, container types): every parse tree the real parser accepts without error is checked at run time to be a derivation by the grammar translated from OpenFGAParser.g4 on this run, and every relation declaration in it to be the embedding of a typed CST, in which those violations are unrepresentable - an operator group has one operator (partials_single_operator), the relation parsed has no missing operand and at most one direct assignment, in first position (accepted_declaration_structurally_valid), a restriction list is non-empty (direct_assignment_nonempty); so an ACCEPTED document cannot contain them. NOT proved: that ANTLR reports an error for every text outside the grammar in the first place - exercised by the 11-kind catalogue of violations injected at random sites, depths and layouts on the real parser.",
   design_ref="DESIGN.md §6.9", note=PROOF_NOTE,
   technique="Lean 4 theorems over all trees (error-log monotonicity) + injected-violation oracle + differential correspondence"),
})

CHECKS.update({
 "C14": dict(category="proof",
   text="PARTIAL PROOF. Proved about the printer port for all models: sortByModule is a total, transitive comparator whose ties share the name (unattributed first, then module, file, name) - sortByModule_total_preorder; for a modular model with distinct type names the printed order of the type definitions and hence the whole DSL text, for both values of the source-information option, is invariant under any permutation of the input type definitions - types_order_invariant, output_invariant_under_type_order (sorted-permutation uniqueness for the structural insertion sort); the printed order is sorted by that comparator - types_printed_sorted, relations_printed_sorted. Independence of Go map iteration / JSON key order holds by construction in the model (maps are key-sorted lists) and is what the correspondence and the shuffled-JSON / repeated-call oracles check of the code. Comment inertness (strip(print true m) = print false m, both parse alike) is oracle-only; the one class where it failed (a line break in a module or file name) was repaired in /repo (6d55bc0) and stays in the generated inputs.",
   design_ref="DESIGN.md §6.14", note=PROOF_NOTE,
   technique="Lean 4 theorems (sorting, total preorder) about a hand-written port + differential correspondence + shuffle/repeat oracles"),
 "C16": dict(category="proof",
   text="PARTIAL PROOF. Proved for every input: the comment pre-pass never adds lines and line i of the cleaned text is a prefix of line i of the input, so every (line, column) inside the text handed to ANTLR lies inside the input with the same coordinates, also when comments and blank lines precede it (clean_prefix, position_inside_input); the duplicate-relation error is logged at the start of the relationName context (listener_error_at_name); the text search the module merger uses to locate a conflict never reports a position outside the file - found line below the number of lines and starting with the searched text, columns inside the line spanning exactly the symbol, origin when nothing is found (merge_position_inside_file, merge_position_origin_when_not_found). Not proved: that ANTLR's reported positions lie inside the text it was given and that token coordinates are where the text stands (runtime contract; bounds oracle on every rejected input, exact-position oracle against the renderer's marks for listener errors). The module-merge half is false of the code in three narrow classes recorded as open findings (line looked up by text search: prefix collision, substring column, non-canonical spacing); outside them file/line/column are compared with the renderer's marks, and the Lean port of line-numbers.go reproduces the code's answers everywhere (correspondence).",
   design_ref="DESIGN.md §6.16", note=PROOF_NOTE,
   technique="Lean 4 theorems about the pre-pass and listener ports + position oracles against an independent renderer + differential correspondence"),
 "C17": dict(category="proof",
   text="PARTIAL PROOF. Proved for every graph value of the port (gonum's multigraph modelled by its observable content): reversal keeps the nodes, flips every line keeping id/kind/label, toggles the direction and changes nothing else (reversed_flips); reversing twice restores the identical graph and the identical list of lines in DOT order (reversed_involutive, double_reversal_same_dot_lines); a path from a to b exists iff one exists from b to a in the reversed graph, for the declarative path relation (path_duality); every line of a graph built from a model connects existing nodes (built_graph_lines_valid), and on built graphs and their reversals the port's path query answers true IFF a path exists - the fuelled breadth-first search is sound and complete (path_query_exact, path_query_exact_reversed). Tied to the code by correspondence on node list, line list in DOT order, reversal, double reversal, all-pairs reachability matrix and cycle flags. Not proved: that gonum's PathExistsIn agrees with the port's search (validated all-pairs by correspondence), DOT text stability across builds, label lookup and the cycle-flag clause (oracles; gonum's DOT writer and Johnson cycle enumeration are parameters).",
   design_ref="DESIGN.md §6.17", note=PROOF_NOTE,
   technique="Lean 4 theorems about a hand-written graph model + differential correspondence + DOT/duality/lookup oracles"),
})

CHECKS.update({
 "C07": dict(category="proof",
   text="PARTIAL PROOF. Proved about the port of TransformModuleFilesToModel for every list of files (each given as name, text and the outcome of its parse; hypothesis FilesWF = what the listener guarantees about parsed files, evaluated by the driver on every input): the merge succeeds IF AND ONLY IF every file parsed as a module, no type is defined twice, no condition is defined twice, every 'extend type' targets a type defined in some file and no relation name is contributed twice to one type (merge_ok_iff_conflict_free); otherwise the result is a non-empty error list, never a model and never a panic (merge_never_partial, merge_no_panic); the result carries the requested schema version (merge_schema). Conservation: on success the result has exactly the declared type names in file order, the declared condition names, and per type the relation names of its definition and extensions (merge_conserves_names); every relation is bound to exactly the rewrite its declaring definition or extension gives it (merge_conserves_rewrites); every type carries the module of its definition and the name of the defining file (merge_attributes_types); every condition is the declared record with the declaring file recorded, undeclared names absent (merge_conserves_conditions). Not proved: the attribution of relations added by extensions (GetModuleForObjectTypeRelation) and that every error names the offending file - evaluated on the real code against the source model the files were split from. The port is tied to the code by correspondence on generated module sets with 0-3 injected conflicts of seven kinds.",
   design_ref="DESIGN.md §6.7", note=PROOF_NOTE,
   technique="Lean 4 theorems (iff characterisation of success) about a hand-written port of the merger + differential correspondence + conservation/attribution oracles"),
 "C10": dict(category="proof",
   text="PARTIAL PROOF. Proved about the port of the construction half of the weighted graph builder, for every model on which it succeeds: node labels are unique and every type and every defined relation has its node (nodes_unique, types_and_relations_have_nodes); among the direct and TTU edges of a node no two share target, kind and tupleset label; every edge's condition list is non-empty, repetition-free and never contains the empty name; every restriction of a direct assignment has its direct edge carrying its condition and nothing else is added (direct_assignment_complete / _sound); a tuple-to-userset yields a TTU edge labelled type#tupleset to parent#computed for every parent type (ttu_complete); operators and computed usersets append exactly one edge; construction is append-only, so operands appear in source order and the subtract operand's edges come last (construction_append_only, exclusion_subtract_last). 'Never modifies the model' holds by construction in the port and is an oracle on the code. The port is tied to the code by comparing the node list and per-node ordered edge lists of every generated model, plus an independent edge oracle.",
   design_ref="DESIGN.md §6.10", note=PROOF_NOTE,
   technique="Lean 4 theorems (structural invariants, completeness/soundness of edge construction) about a hand-written port + differential correspondence + independent edge oracle"),
 "C12": dict(category="proof",
   text="PARTIAL PROOF. Proved about the port of the merger for every list of files and every permutation of it (hypothesis FilesWF as in C07): the permuted list merges successfully iff the original does, and a set that fails fails in every order with a non-empty error list and no model (verdict_order_independent, failure_order_independent, from the iff of C07 and the symmetry of the conflict-freedom predicate); on success the two results have the same type names up to order, the same condition names and schema version, and bind every relation of every type to the same rewrite (result_order_independent, from C07's conservation theorems). Determinism across invocations holds by construction in the port (maps are sorted lists) and is established of the code by the repeated-call oracle. Not proved: the same for metadata and condition bodies under permutation; the error list of a permuted input is a permutation of the original - evaluated on the real code over all permutations of up to four files.",
   design_ref="DESIGN.md §6.12", note=PROOF_NOTE,
   technique="Lean 4 theorems (order independence of the verdict) about a hand-written port of the merger + repeated-call and all-permutations oracles + differential correspondence"),
})

SPEC_TECH = "differential check of the real code (public Build + hooked forced traversal orders) against an executable Lean 4 specification + Lean theorems about that specification + property oracles"
CHECKS.update({
 "C04": dict(category="translation_validation",
   text="The Go weight assignment is NOT ported and no theorem is about it: every accepted real build (public Build, and through the hook every enumerated/sampled DFS start order) is compared node by node with the executable Lean specification of weights (Spec/Weights.lean), and the edge rule, absence of R# placeholders and of empty maps are evaluated on the real graph. Lean theorems (Props/C04.lean, kernel-checked on every run) show that the specification has the shape the property states: on every graph where the iteration reached a fixed point (evaluated per input by the driver) the weight map of each node is its strategy over its edges - edge = target (+1 saturating for hops, {T:1} into terminals), union/relation = pointwise max, intersection = common keys with max, exclusion = base keys with max - and an accepted graph has no empty map; and that these weights MEAN what the property says, stated without reference to any iteration (Spec/WeightsSem.lean: HasType = terminal type T reaches the node through any operand of a relation/union, every operand of an intersection, the base of an exclusion; Walk = a walk to a terminal T with k tuple hops): a node carries a weight for T iff T reaches it (weight_keys_exact), a finite weight is attained by a walk and no walk has more hops (finite_weight_is_max_hops), the weight is Infinite iff the hop counts of the walks are unbounded (infinite_weight_iff_unbounded, by pigeonhole and pumping), and whatever the specification computes is witnessed by a walk with no hypothesis at all (every_weight_witnessed). Their decidable hypotheses (fixed point reached, all values Infinite or below the saturation threshold) are evaluated by the driver on every input and an input outside them is counted as not covered. Inputs matching the open finding KF-C04-operand-grouping are recognised by an ungrouped variant of the specification that the code must then equal exactly.",
   design_ref="DESIGN.md §6.4", note=TV_NOTE, technique=SPEC_TECH),
 "C05": dict(category="translation_validation",
   text="The real verdict under every enumerated/sampled depth-first start order is compared with the Lean well-foundedness specification; the error class must be one of the three sentinels. The Go algorithm is not ported. Lean theorems (Props/C05.lean) about the specification: accepted iff no node on a rewrite-only cycle, no intersection/exclusion on any cycle and every node reaches a terminal type (accepted_means); a graph containing a rewrite-only cycle is rejected whatever else it contains (rewrite_only_cycle_never_passes); the cycle test is sound (cycle_flag_sound) and, on graphs where every referenced node exists (evaluated per input), complete (cycle_flag_exact: the fuel of the search suffices); and, with the semantic reading of the weights proved for C04, accepted iff no node on a tuple-free cycle, no intersection/exclusion on any cycle and every node reached by some terminal user type through any operand of a relation/union, every operand of an intersection, the base of an exclusion (accepted_iff_well_founded, no_terminal_iff_unreached) - a statement that no longer mentions the computed weights.",
   design_ref="DESIGN.md §6.5", note=TV_NOTE, technique=SPEC_TECH),
 "C11": dict(category="translation_validation",
   text="Real wildcard lists of every node and edge, under every forced traversal order, must equal the specification's reachable-public-types sets exactly, have no duplicates, and every edge must equal its target ({T} into T:*). The Go propagation is not ported. Lean theorems (Props/C11.lean) about the specification: every listed type is a T:* restriction reachable by following edges (wildcard_set_sound), no duplicates (wildcard_set_no_duplicates), nothing reachable => empty (no_wildcard_reachable_empty), and on graphs where every referenced node exists (evaluated per input) every reachable T:* is listed, so the set is exactly the reachable public types (wildcard_set_exact).",
   design_ref="DESIGN.md §6.11", note=TV_NOTE, technique=SPEC_TECH),
})

CHECKS.update({
 "C08": dict(category="proof",
   text="PARTIAL PROOF. Proved about the listener port (Go's nil dereferences, nil-map writes and empty-stack accesses explicit) for every parse tree of any shape and size: if the tree is scoped - a decidable containment discipline (callbacks that dereference the current condition/relation/type occur only below the node that sets it, rewrite nodes carry their label, state-resetting nodes are not nested) which the driver evaluates on every real parse tree of the fuzzing stream - the walk cannot panic, from the initial state or any state meeting the invariant (walk_no_panic, transform_no_panic, walk_keeps_invariant); and for every tree whatsoever, an ANTLR-reported syntax error always makes the transformation return an error list and never a model (syntax_error_is_reported). The port is tied to the code by walking the real, also error-recovered, parse trees of fuzzed inputs and comparing panic / error list / model. NOT proved and decided by search only: that ANTLR's error recovery yields only scoped trees (counted per run), absence of panics in printer, merger, graph builders, yaml/protojson paths (degenerate protobuf values and mutated corpus inputs under recover()), and the work bound (watchdog + scaling probe; one open finding).",
   design_ref="DESIGN.md §6.8",
   note="fuzzing and the scaling probe are search, not proof; ANTLR runtime, yaml.v3, protojson are parameters",
   technique="Lean 4 theorem (no-panic invariant over all scoped trees) about a hand-written listener port + differential correspondence on real error-recovered parse trees + panic/timeout oracles under mutation fuzzing (search)"),
})

CHECKS.update({
 "C19": dict(category="proof",
   text="PARTIAL PROOF, all over tables re-extracted from /repo on every run and decided by kernel evaluation over the whole table. (1) The serialized parser and lexer automata of the Go, JS and Java packages are equal element for element and equal to those of the six .interp files; vocabularies, rule names and modes agree across packages and with the lexer grammar (parser_atn_equal, lexer_atn_equal, vocab_equal, vocab_matches_g4); every grammar rule the listener needs has its callback (listener_callbacks_exist). (2) OpenFGAParser.g4 itself is translated to Lean on every run; its rule list is the rule table of the generated parsers (grammar_rule_names) and every rule body has exactly the Glushkov local sets - nullable, first symbols, last symbols, follow relation over token types and rule references - of its sub-automaton in the embedded ATN, which is read back by a Lean deserializer (parser_atn_deserializes, grammar_matches_atn): an un-regenerated edit of a rule body breaks this. (3) Hand edits of generated parser METHOD BODIES, which no table shows, are caught at run time: every parse tree for which the Go parser reports no error (corpus files, every generated document of C01/C03/C09, and token-class probes that put a lexeme of every class into every identifier-like slot) must be a derivation by the translated grammar (children of every rule node matched by the rule body, labels in place) - otherwise the text is the replay. The same comparison is made for OpenFGALexer.g4 and the lexer ATN: all 75 lexer rules (fragments included) have the local sets over characters and rule references (character sets evaluated on all ASCII code points and nine samples beyond; lexer_sets_ascii_or_cofinite), the lexer commands (pushMode/popMode/type/channel) and the token type of their sub-automaton, and each mode lists its token rules in grammar order (lexer_rule_names, lexer_grammar_matches_atn, lexer_modes_match). NOT proved: local-set equality is not language equality (e.g. non-greedy markers and repetition counts are invisible to it); ANTLR's runtime, which interprets the automata, is a parameter; JS and Java are not executed (only their tables are read).",
   design_ref="DESIGN.md §6.19",
   note="translators tools/gen_atn.py, tools/gen_grammar.py and the Lean ATN deserializer are part of the trusted base; cross-validated against the compiled Go package's own tables and against 27/27 agreeing rules on the unchanged tree",
   technique="Lean 4 theorems decided by kernel evaluation over regenerated tables (ATN equality, grammar-vs-ATN local sets) + conformance check of real parse trees against the translated grammar"),
})

CHECKS.update({
 "C06": dict(category="translation_validation",
   text="A schedule property of the Go code, decided by oracle on the real code: all builds of one model - repeated Build calls, every enumerated/sampled forced depth-first start order (hook), permuted type definitions, permuted union/intersection operands, 8 concurrent goroutines - must give the identical verdict and identical weights and wildcard sets on every node and edge. The Go algorithm is not ported. The specification the results are compared with has no schedule parameter; Lean theorems (Props/C06.lean) prove the one non-obvious clause about it: the merge of weight maps and the intersection combination do not depend on operand order (merge_order_irrelevant, intersection_order_irrelevant), every state of the iteration has sorted maps (result_is_sorted), so permuting the operands of a relation/union/group/intersection node leaves its weights unchanged (operand_order_irrelevant) and the solution of the model's equations is also the solution of the model with reordered operands (reordered_model_same_solution). Since the weights are characterised semantically (C04), two graphs that mean the same get the same weights (weights_are_a_function_of_meaning): permuting the model's type definitions permutes the specification graph and leaves every node's weights unchanged (type_order_permutes_graph, type_order_irrelevant), and so does permuting the operands of relations/unions/intersections of the graph (reordered_same_weights); the convergence hypotheses are evaluated by the driver, also on the permuted model, whose answer line must be identical.",
   design_ref="DESIGN.md §6.6", note=TV_NOTE, technique=SPEC_TECH),
})

NOT_YET = {}

def main():
    props = [json.loads(l) for l in open(os.path.join(V, "properties.jsonl"))]
    checks = []
    na = []
    for p in props:
        pid = p["id"]
        if pid in CHECKS:
            c = CHECKS[pid]
            checks.append({
                "property_id": pid,
                "quick_cmd": "./run %s quick" % pid,
                "thorough_cmd": "./run %s thorough" % pid,
                "evidence_file": "/verif/evidence/%s.json" % pid,
                "replay_cmd_template": "./run %s quick --replay {path}" % pid,
                "engine": "lean4-model+go-correspondence",
                "level_claimed": {"category": c["category"], "text": c["text"], "design_ref": c["design_ref"]},
                "level_note": c["note"],
                "technique": c["technique"],
            })
        else:
            na.append({"property_id": pid, "reason": NOT_YET.get(pid, "check not built yet in this revision (planned: DESIGN.md §6); no claim is made")})
    m = {
        "version": 1,
        "setup_cmd": "./setup.sh",
        "hooks": {
            "guard": "verif",
            "enable": "go build -tags verif (the harness module replaces github.com/openfga/language/pkg/go by /repo/pkg/go)",
            "baseline_off_cmd": "cd /repo/pkg/go && GOFLAGS=-mod=mod GOPROXY=off GOSUMDB=off GOTOOLCHAIN=local go test -json -vet=off -count=1 -timeout 25m ./...",
            "source_commits": ["68be8db"],
            "add_only": True,
        },
        "engines": [
            {"name": "lean4-model+go-correspondence", "path": "/verif/lean, /verif/harness, /verif/run",
             "serves_properties": [c["property_id"] for c in checks],
             "kind_free_text": "Lean 4 formal model with kernel-checked theorems (Props/<id>.lean); model tied to /repo by regenerated data (tools/gen_*.py) and by a differential correspondence check driven by a Go harness that calls the real code in-process"},
        ],
        "checks": checks,
        "not_applicable": na,
        "notes": "See DESIGN.md. Known findings: known_findings.json. Seeded changes: seeded/.",
    }
    json.dump(m, open(os.path.join(V, "MANIFEST.json"), "w"), indent=1)

main()
