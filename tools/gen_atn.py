#!/usr/bin/env python3
"""Translator: generated parser artefacts of the three packages + the .g4 sources
   -> lean/FgaVerif/Gen/Atn.lean   (re-read from /repo on every run)

 * serialized ATNs: Go ([]int32 literal), JS (number[] literal), Java (String literal, decoded with
   ANTLR's 16-bit-word scheme), and the `atn:` section of the six .interp files;
 * vocabularies: literal / symbolic / rule / channel / mode names from the generated sources and
   the .interp files; token numbers from the .tokens files;
 * names declared in OpenFGALexer.g4 / OpenFGAParser.g4;
 * the Enter*/Exit* callbacks implemented by the Go listener (dsltojson.go).
"""
import os, re, sys

REPO = os.environ.get("VERIF_REPO", "/repo")
OUT = sys.argv[1] if len(sys.argv) > 1 else "/verif/lean/FgaVerif/Gen/Atn.lean"
P = lambda *a: os.path.join(REPO, *a)


def read(p):
    try:
        return open(p, encoding="utf-8").read()
    except OSError:
        return ""


def ints_of_literal(body):
    return [int(x) for x in re.findall(r"-?\d+", body)]


def go_atn(src):
    m = re.search(r"serializedATN\s*=\s*\[\]int32\{(.*?)\n\s*\}", src, re.S)
    return ints_of_literal(m.group(1)) if m else []


def js_atn(src):
    m = re.search(r"_serializedATN:\s*number\[\]\s*=\s*\[(.*?)\];", src, re.S)
    return ints_of_literal(m.group(1)) if m else []


def java_string_chars(lit):
    """decode the concatenated Java string literal pieces into a list of UTF-16 code units"""
    out = []
    for piece in re.findall(r'"((?:[^"\\]|\\.)*)"', lit):
        i = 0
        while i < len(piece):
            c = piece[i]
            if c != "\\":
                out.append(ord(c)); i += 1; continue
            n = piece[i + 1]
            if n == "u":
                j = i + 1
                while piece[j] == "u":
                    j += 1
                out.append(int(piece[j:j + 4], 16)); i = j + 4
            elif n in "01234567":
                j = i + 1
                k = j
                while k < len(piece) and k < j + 3 and piece[k] in "01234567":
                    k += 1
                out.append(int(piece[j:k], 8)); i = k
            else:
                out.append({"b": 8, "t": 9, "n": 10, "f": 12, "r": 13, '"': 34, "'": 39, "\\": 92}[n]); i += 2
    return out


def java_atn(src):
    m = re.search(r"_serializedATN\s*=\s*(.*?);\n", src, re.S)
    if not m:
        return []
    d = java_string_chars(m.group(1))
    out = []
    i = 0
    while i < len(d):
        v = d[i]; i += 1
        if v & 0x8000 == 0:
            out.append(v)
        else:
            vl = d[i]; i += 1
            if v == 0xFFFF and vl == 0xFFFF:
                out.append(-1)
            else:
                out.append(((v & 0x7FFF) << 16) | (vl & 0xFFFF))
    return out


def interp(src):
    """sections of a .interp file"""
    sec = {}
    cur = None
    for line in src.split("\n"):
        if line.endswith(":") and re.fullmatch(r"[a-z ]+:", line):
            cur = line[:-1]; sec[cur] = []
        elif cur is not None:
            sec[cur].append(line)
    names = lambda k: [l for l in sec.get(k, []) if l != ""] if k in sec else []
    atn = ints_of_literal("\n".join(sec.get("atn", [])))
    # literal/symbolic name lists keep their "null" placeholders; trailing blank line dropped
    def lst(k):
        ls = sec.get(k, [])
        while ls and ls[-1] == "":
            ls = ls[:-1]
        return ls
    return {"atn": atn, "literal": lst("token literal names"), "symbolic": lst("token symbolic names"),
            "rules": lst("rule names"), "channels": lst("channel names"), "modes": lst("mode names")}


def str_array(src, pat):
    m = re.search(pat, src, re.S)
    if not m:
        return []
    return [s for s in re.findall(r'"((?:[^"\\]|\\.)*)"|\bnull\b', m.group(1))] if False else \
        [x[0] if x[1] == "" else None for x in re.findall(r'"((?:[^"\\]|\\.)*)"|(\bnull\b)', m.group(1))]


def norm_names(xs):
    """unify the three languages' ways of writing 'no name' (Go: "", JS/Java: null) and quote escapes"""
    out = []
    for x in xs:
        if x is None or x == "" or x == "null":
            out.append("")
        else:
            out.append(x.replace("\\\\", "\\").replace('\\"', '"').replace("\\'", "'"))
    return out


def tokens_file(src):
    out = []
    for l in src.split("\n"):
        m = re.fullmatch(r"(.+)=(\d+)", l)
        if m:
            out.append((m.group(1), int(m.group(2))))
    return out


def g4_names(lexer_src, parser_src):
    def scrub(src):
        """one pass: blank string literals and [...] char sets, drop // and /* */ comments"""
        out = []
        i = 0
        n = len(src)
        while i < n:
            c = src[i]
            if c == "'":
                j = i + 1
                while j < n and src[j] != "'":
                    j += 2 if src[j] == "\\" else 1
                out.append("''"); i = j + 1
            elif src.startswith("//", i):
                while i < n and src[i] != "\n":
                    i += 1
            elif src.startswith("/*", i):
                j = src.find("*/", i + 2)
                i = n if j < 0 else j + 2
            else:
                out.append(c); i += 1
        return "".join(out)
    ls, ps = scrub(lexer_src), scrub(parser_src)
    toks = []
    m = re.search(r"tokens\s*\{(.*?)\}", ls, re.S)
    if m:
        toks = re.findall(r"[A-Z_][A-Za-z0-9_]*", m.group(1))
    lex_rules = []
    for m in re.finditer(r"(?m)^\s*(fragment\s+)?([A-Z][A-Za-z0-9_]*)\s*:", ls):
        lex_rules.append((m.group(2), bool(m.group(1))))
    modes = ["DEFAULT_MODE"] + re.findall(r"(?m)^\s*mode\s+([A-Za-z_][A-Za-z0-9_]*)\s*;", ls)
    par_rules = [m.group(1) for m in re.finditer(r"(?m)^\s*([a-z][A-Za-z0-9_]*)\s*:", ps)]
    return toks, lex_rules, modes, par_rules


def lean_str(s):
    out = ['"']
    for ch in s:
        if ch == "\\": out.append("\\\\")
        elif ch == '"': out.append('\\"')
        elif ch == "\n": out.append("\\n")
        elif ch == "\t": out.append("\\t")
        elif ch == "\r": out.append("\\r")
        elif ord(ch) < 32 or ord(ch) > 126: out.append("\\u{%x}" % ord(ch))
        else: out.append(ch)
    out.append('"')
    return "".join(out)


def lean_ints(name, xs):
    """long lists are split into chunks (a literal of several thousand elements exceeds the elaborator's
    recursion depth) and re-assembled with ++"""
    parts = []
    CH = 400
    chunks = [xs[i:i + CH] for i in range(0, len(xs), CH)] or [[]]
    for k, ch in enumerate(chunks):
        toks = [str(x) for x in ch]
        lines = []
        line = ""
        for t in toks:
            if len(line) + len(t) > 110:
                lines.append(line); line = ""
            line += t + ", "
        lines.append(line.rstrip(", "))
        parts.append("def %s_%d : List Int := [\n  %s]" % (name, k, "\n  ".join(lines)))
    parts.append("def %sChunks : List (List Int) := [%s]" % (name, ", ".join("%s_%d" % (name, k) for k in range(len(chunks)))))
    parts.append("def %s : List Int := %sChunks.flatten" % (name, name))
    return "\n".join(parts)


def lean_strs(name, xs):
    return "def %s : List String := [%s]" % (name, ", ".join(lean_str(x) for x in xs))


def main():
    go_p, go_l = read(P("pkg/go/gen/openfga_parser.go")), read(P("pkg/go/gen/openfga_lexer.go"))
    js_p, js_l = read(P("pkg/js/gen/OpenFGAParser.ts")), read(P("pkg/js/gen/OpenFGALexer.ts"))
    jdir = "pkg/java/src/main/gen/dev/openfga/language/antlr"
    ja_p, ja_l = read(P(jdir, "OpenFGAParser.java")), read(P(jdir, "OpenFGALexer.java"))
    L = ["/- GENERATED by tools/gen_atn.py from /repo on every run. Do not edit. -/", "namespace FgaVerif.Gen.Atn"]
    L.append(lean_ints("goParserAtn", go_atn(go_p)))
    L.append(lean_ints("goLexerAtn", go_atn(go_l)))
    L.append(lean_ints("jsParserAtn", js_atn(js_p)))
    L.append(lean_ints("jsLexerAtn", js_atn(js_l)))
    L.append(lean_ints("javaParserAtn", java_atn(ja_p)))
    L.append(lean_ints("javaLexerAtn", java_atn(ja_l)))
    for lang, d in (("go", "pkg/go/gen"), ("js", "pkg/js/gen"), ("java", jdir)):
        ip, il = interp(read(P(d, "OpenFGAParser.interp"))), interp(read(P(d, "OpenFGALexer.interp")))
        L.append(lean_ints(lang + "InterpParserAtn", ip["atn"]))
        L.append(lean_ints(lang + "InterpLexerAtn", il["atn"]))
        L.append(lean_strs(lang + "InterpParserLiteral", norm_names(ip["literal"])))
        L.append(lean_strs(lang + "InterpParserSymbolic", norm_names(ip["symbolic"])))
        L.append(lean_strs(lang + "InterpParserRules", ip["rules"]))
        L.append(lean_strs(lang + "InterpLexerLiteral", norm_names(il["literal"])))
        L.append(lean_strs(lang + "InterpLexerSymbolic", norm_names(il["symbolic"])))
        L.append(lean_strs(lang + "InterpLexerRules", il["rules"]))
        L.append(lean_strs(lang + "InterpLexerModes", il["modes"]))
        L.append(lean_strs(lang + "InterpLexerChannels", il["channels"]))
        tp, tl = tokens_file(read(P(d, "OpenFGAParser.tokens"))), tokens_file(read(P(d, "OpenFGALexer.tokens")))
        L.append("def %sParserTokens : List (String × Nat) := [%s]" % (lang, ", ".join("(%s, %d)" % (lean_str(k), v) for k, v in tp)))
        L.append("def %sLexerTokens : List (String × Nat) := [%s]" % (lang, ", ".join("(%s, %d)" % (lean_str(k), v) for k, v in tl)))
    # name tables in the generated sources
    go_arr = lambda src, n: norm_names(str_array(src, r"staticData\.%s\s*=\s*\[\]string\{(.*?)\n\s*\}" % n))
    js_arr = lambda src, n: norm_names(str_array(src, r"public static readonly %s:[^=]*=\s*\[(.*?)\];" % n))
    ja_arr = lambda src, pat: norm_names(str_array(src, pat))
    L.append(lean_strs("goParserLiteral", go_arr(go_p, "LiteralNames")))
    L.append(lean_strs("goParserSymbolic", go_arr(go_p, "SymbolicNames")))
    L.append(lean_strs("goParserRules", go_arr(go_p, "RuleNames")))
    L.append(lean_strs("goLexerLiteral", go_arr(go_l, "LiteralNames")))
    L.append(lean_strs("goLexerSymbolic", go_arr(go_l, "SymbolicNames")))
    L.append(lean_strs("goLexerRules", go_arr(go_l, "RuleNames")))
    L.append(lean_strs("goLexerModes", go_arr(go_l, "ModeNames")))
    L.append(lean_strs("jsParserLiteral", js_arr(js_p, "literalNames")))
    L.append(lean_strs("jsParserSymbolic", js_arr(js_p, "symbolicNames")))
    L.append(lean_strs("jsParserRules", js_arr(js_p, "ruleNames")))
    L.append(lean_strs("jsLexerLiteral", js_arr(js_l, "literalNames")))
    L.append(lean_strs("jsLexerSymbolic", js_arr(js_l, "symbolicNames")))
    L.append(lean_strs("jsLexerRules", js_arr(js_l, "ruleNames")))
    L.append(lean_strs("jsLexerModes", js_arr(js_l, "modeNames")))
    L.append(lean_strs("javaParserLiteral", ja_arr(ja_p, r"makeLiteralNames\(\)\s*\{\s*return new String\[\]\s*\{(.*?)\};")))
    L.append(lean_strs("javaParserSymbolic", ja_arr(ja_p, r"makeSymbolicNames\(\)\s*\{\s*return new String\[\]\s*\{(.*?)\};")))
    L.append(lean_strs("javaParserRules", ja_arr(ja_p, r"makeRuleNames\(\)\s*\{\s*return new String\[\]\s*\{(.*?)\};")))
    L.append(lean_strs("javaLexerLiteral", ja_arr(ja_l, r"makeLiteralNames\(\)\s*\{\s*return new String\[\]\s*\{(.*?)\};")))
    L.append(lean_strs("javaLexerSymbolic", ja_arr(ja_l, r"makeSymbolicNames\(\)\s*\{\s*return new String\[\]\s*\{(.*?)\};")))
    L.append(lean_strs("javaLexerRules", ja_arr(ja_l, r"makeRuleNames\(\)\s*\{\s*return new String\[\]\s*\{(.*?)\};")))
    L.append(lean_strs("javaLexerModes", ja_arr(ja_l, r"modeNames\s*=\s*\{(.*?)\};")))
    toks, lex_rules, modes, par_rules = g4_names(read(P("OpenFGALexer.g4")), read(P("OpenFGAParser.g4")))
    L.append(lean_strs("g4TokensBlock", toks))
    L.append(lean_strs("g4LexerRules", [n for n, frag in lex_rules if not frag]))
    L.append(lean_strs("g4LexerFragments", [n for n, frag in lex_rules if frag]))
    L.append(lean_strs("g4LexerAll", [n for n, frag in lex_rules]))
    L.append(lean_strs("g4Modes", modes))
    L.append(lean_strs("g4ParserRules", par_rules))
    cbs = re.findall(r"func \(l \*OpenFgaDslListener\) (Enter|Exit)(\w+)\(", read(P("pkg/go/transformer/dsltojson.go")))
    L.append("def goListenerCallbacks : List (String × String) := [%s]" % ", ".join("(%s, %s)" % (lean_str(a), lean_str(b)) for a, b in cbs))
    L.append("end FgaVerif.Gen.Atn")
    text = "\n".join(L) + "\n"
    old = open(OUT).read() if os.path.exists(OUT) else None
    if old != text:
        open(OUT, "w").write(text)


main()
