/-! Prototype: listener stack machine vs denotation (ND fragment) -/
inductive U where
  | this
  | computed (r : String)
  | ttu (c t : String)
  | union (cs : List U)
  | inter (cs : List U)
  | diff (b s : U)
  deriving Repr, Inhabited

inductive Op where | or | and | butNot
  deriving Repr, DecidableEq

/-- ParseExpression -/
def parseExpression (rewrites : List U) (op : Option Op) : Option U :=
  match rewrites with
  | [] => none
  | [x] => some x
  | x :: y :: rest =>
    match op with
    | none => none
    | some .or => some (.union (x :: y :: rest))
    | some .and => some (.inter (x :: y :: rest))
    | some .butNot => some (.diff x y)

mutual
  /-- relationDefNoDirect: (grouping | recurseND) partials? -/
  inductive DefND where
    | mk (first : ItemND) (partials : Option PartialsND)
  /-- relationDefGrouping | relationRecurseNoDirect -/
  inductive ItemND where
    | rw (u : U)              -- computed / ttu leaf (already a userset)
    | paren (r : RecND)
  /-- relationRecurseNoDirect: '(' (defND | recND) ')' -/
  inductive RecND where
    | ofDef (d : DefND)
    | ofRec (r : RecND)
  inductive PartialsND where
    | mk (op : Op) (items : ItemsND)
  inductive ItemsND where
    | one (i : ItemND)
    | cons (i : ItemND) (rest : ItemsND)
end

structure St where
  rewrites : List U
  op : Option Op
  stack : List (List U × Option Op)
  deriving Inhabited

mutual
  def walkDef : DefND → St → Option St
    | .mk first none, st => walkItem first st
    | .mk first (some p), st => do
        let st ← walkItem first st
        walkPartials p st
  def walkItem : ItemND → St → Option St
    | .rw u, st => some { st with rewrites := st.rewrites ++ [u] }
    | .paren r, st => walkRec r st
  def walkRec : RecND → St → Option St
    | r, st => do
        -- EnterRelationRecurseNoDirect
        let st1 : St := { rewrites := [], op := st.op, stack := (st.rewrites, st.op) :: st.stack }
        let st2 ← (match r with
          | .ofDef d => walkDef d st1
          | .ofRec r' => walkRec r' st1)
        -- ExitRelationRecurseNoDirect
        match st2.stack with
        | [] => none  -- Go would panic (index out of range)
        | (prw, pop) :: rest =>
          match parseExpression st2.rewrites st2.op with
          | none => some { st2 with stack := rest }
          | some e => some { rewrites := prw ++ [e], op := pop, stack := rest }
  def walkPartials : PartialsND → St → Option St
    | .mk op items, st => walkItems items { st with op := some op }
  def walkItems : ItemsND → St → Option St
    | .one i, st => walkItem i st
    | .cons i rest, st => do
        let st ← walkItem i st
        walkItems rest st
end

def combine (op : Op) (xs : List U) : U :=
  match op with
  | .or => .union xs
  | .and => .inter xs
  | .butNot => match xs with
    | x :: y :: _ => .diff x y
    | _ => .this  -- unreachable for well-formed

mutual
  def denDef : DefND → U
    | .mk first none => denItem first
    | .mk first (some (.mk op items)) => combine op (denItem first :: denItems items)
  def denItem : ItemND → U
    | .rw u => u
    | .paren r => denRec r
  def denRec : RecND → U
    | .ofDef d => denDef d
    | .ofRec r => denRec r
  def denItems : ItemsND → List U
    | .one i => [denItem i]
    | .cons i rest => denItem i :: denItems rest
end

/-- operands of a def at its own level -/
def opsDef : DefND → List U
  | .mk first none => [denItem first]
  | .mk first (some (.mk _ items)) => denItem first :: denItems items

def opOf : DefND → Option Op → Option Op
  | .mk _ none, o => o
  | .mk _ (some (.mk op _)), _ => some op

theorem pe_ops (d : DefND) (o : Option Op) : parseExpression (opsDef d) (opOf d o) = some (denDef d) := by
  cases d with
  | mk first p =>
    cases p with
    | none => simp [opsDef, opOf, parseExpression, denDef]
    | some p =>
      cases p with
      | mk op items =>
        cases items with
        | one i => cases op <;> simp [opsDef, opOf, parseExpression, denDef, denItems, combine]
        | cons i rest =>
          cases rest <;> cases op <;> simp [opsDef, opOf, parseExpression, denDef, denItems, combine]

mutual
  theorem walkDef_spec (d : DefND) (st : St) :
      walkDef d st = some { rewrites := st.rewrites ++ opsDef d, op := opOf d st.op, stack := st.stack } := by
    match d with
    | .mk first none =>
      simp [walkDef, opsDef, opOf]
      exact walkItem_spec first st
    | .mk first (some (.mk op items)) =>
      simp only [walkDef, opsDef, opOf, bind, Option.bind]
      rw [walkItem_spec first st]
      simp only [walkPartials]
      rw [walkItems_spec items _]
      simp
  theorem walkItem_spec (i : ItemND) (st : St) :
      walkItem i st = some { st with rewrites := st.rewrites ++ [denItem i] } := by
    match i with
    | .rw u => simp [walkItem, denItem]
    | .paren r => simp only [walkItem, denItem]; exact walkRec_spec r st
  theorem walkRec_spec (r : RecND) (st : St) :
      walkRec r st = some { st with rewrites := st.rewrites ++ [denRec r] } := by
    match r with
    | .ofDef d =>
      rw [walkRec]
      simp only [bind, Option.bind]
      rw [walkDef_spec d _]
      simp only [List.nil_append]
      rw [pe_ops d st.op]
      simp [denRec]
    | .ofRec r' =>
      rw [walkRec]
      simp only [bind, Option.bind]
      rw [walkRec_spec r' _]
      simp [parseExpression, denRec]
  theorem walkItems_spec (is : ItemsND) (st : St) :
      walkItems is st = some { st with rewrites := st.rewrites ++ denItems is } := by
    match is with
    | .one i => simp only [walkItems, denItems]; exact walkItem_spec i st
    | .cons i rest =>
      simp only [walkItems, denItems, bind, Option.bind]
      rw [walkItem_spec i st]
      simp only
      rw [walkItems_spec rest _]
      simp
end

#print axioms walkDef_spec
