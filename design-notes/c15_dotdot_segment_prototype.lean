/-! C15 prototype: no "../" infix ∧ ends with ".fga" ⇒ no ".." path segment -/
def dotdot : List Char := ['.', '.']
def dotdotslash : List Char := ['.', '.', '/']
def fga : List Char := ['.', 'f', 'g', 'a']

/-- `s` has a path segment equal to "..": the two dots are delimited by '/' or the string ends. -/
def HasDotDotSegment (s : List Char) : Prop :=
  ∃ pre post, s = pre ++ dotdot ++ post ∧
    (pre = [] ∨ ∃ p, pre = p ++ ['/']) ∧ (post = [] ∨ ∃ q, post = '/' :: q)

theorem no_dotdot_segment (s : List Char)
    (hinf : ¬ dotdotslash <:+: s) (hsuf : fga <:+ s) : ¬ HasDotDotSegment s := by
  rintro ⟨pre, post, hs, _, hpost⟩
  rcases hpost with hp | ⟨q, hq⟩
  · -- s ends with ".." and with ".fga": last characters differ
    subst hp
    obtain ⟨t, ht⟩ := hsuf
    have h1 : s.getLast? = some 'a' := by rw [← ht]; simp [fga]
    have h2 : s.getLast? = some '.' := by rw [hs]; simp [dotdot]
    rw [h1] at h2
    exact absurd h2 (by decide)
  · apply hinf
    refine ⟨pre, q, ?_⟩
    rw [hs, hq]
    simp [dotdot, dotdotslash]

#print axioms no_dotdot_segment
