/-! C18 prototype: flat regular expressions (sequence of class atoms with bounded repetition) -/
structure Atom where
  cls : Char → Bool
  min : Nat
  max : Option Nat   -- none = unbounded

/-- declarative matching -/
inductive M : List Atom → List Char → Prop
  | nil : M [] []
  | cons (a : Atom) (as : List Atom) (s₁ s₂ : List Char) :
      (∀ x ∈ s₁, a.cls x = true) → a.min ≤ s₁.length → (∀ m, a.max = some m → s₁.length ≤ m) →
      M as s₂ → M (a :: as) (s₁ ++ s₂)

/-- a class that excludes `c` contributes no `c`; a literal atom for `c` contributes exactly one -/
def Excl (a : Atom) (c : Char) : Prop := a.cls c = false
def Lit (a : Atom) (c : Char) : Prop := a.min = 1 ∧ a.max = some 1 ∧ ∀ x, a.cls x = true → x = c

def litCount (c : Char) (isLit : Atom → Bool) (as : List Atom) : Nat := (as.filter isLit).length

theorem count_of_excl (a : Atom) (c : Char) (s : List Char) (h : Excl a c) (hs : ∀ x ∈ s, a.cls x = true) :
    s.count c = 0 := by
  rw [List.count_eq_zero]
  intro hc
  have := hs c hc
  rw [h] at this
  exact absurd this (by decide)

theorem count_of_lit (a : Atom) (c : Char) (s : List Char) (h : Lit a c) (hs : ∀ x ∈ s, a.cls x = true)
    (hmin : a.min ≤ s.length) (hmax : ∀ m, a.max = some m → s.length ≤ m) : s.count c = 1 := by
  obtain ⟨h1, h2, h3⟩ := h
  have hl : s.length = 1 := by
    have := hmax 1 h2
    omega
  match s, hl with
  | [x], _ =>
    have : x = c := h3 x (hs x (by simp))
    simp [this]

/-- Count of `c` in any matched string, when every atom either excludes `c` or is the literal `c`. -/
theorem count_flat (c : Char) (isLit : Atom → Bool) (as : List Atom) (s : List Char)
    (hside : ∀ a ∈ as, (isLit a = true → Lit a c) ∧ (isLit a = false → Excl a c))
    (hm : M as s) : s.count c = litCount c isLit as := by
  induction hm with
  | nil => simp [litCount]
  | cons a as s₁ s₂ hcls hmin hmax _ ih =>
    have ha := hside a (by simp)
    have ih' := ih (fun b hb => hside b (by simp [hb]))
    rw [List.count_append, ih']
    cases hl : isLit a with
    | true =>
      rw [count_of_lit a c s₁ (ha.1 hl) hcls hmin hmax]
      simp [litCount, List.filter, hl]; omega
    | false =>
      rw [count_of_excl a c s₁ (ha.2 hl) hcls]
      simp [litCount, List.filter, hl]

/-- executable matcher: try every admissible prefix length for the first atom -/
def takeWhileN (p : Char → Bool) : Nat → List Char → Nat
  | 0, _ => 0
  | _, [] => 0
  | n+1, x :: xs => if p x then 1 + takeWhileN p n xs else 0

def matchFrom (rest : List Char → Bool) (s : List Char) : Nat → Nat → Bool
  -- try k = lo, lo+1, …, lo+span
  | lo, 0 => rest (s.drop lo)
  | lo, span+1 => rest (s.drop lo) || matchFrom rest s (lo+1) span

def matchB : List Atom → List Char → Bool
  | [], s => s.isEmpty
  | a :: as, s =>
    let avail := takeWhileN a.cls s.length s          -- longest prefix inside the class
    let hi := match a.max with | none => avail | some m => Nat.min avail m
    if a.min ≤ hi then matchFrom (matchB as) s a.min (hi - a.min) else false

-- the five rules of the repository, written by hand here (generated in the real thing)
def isSpace (c : Char) : Bool := c = ' ' || c = '\t' || c = '\n' || c = '\x0c' || c = '\r'
def typeCls (c : Char) : Bool := !(c = ':' || c = '#' || c = '@' || c = '*' || isSpace c)
def id1Cls (c : Char) : Bool := !(c = '#' || c = ':' || c = '*' || isSpace c)
def idRestCls (c : Char) : Bool := c.isAlphanum || c = '_' || c = '|' || c = '*' || c = '@' || c = '.' || c = '+'
def colonCls (c : Char) : Bool := c = ':'

def objectRe : List Atom :=
  [⟨typeCls, 1, some 254⟩, ⟨colonCls, 1, some 1⟩, ⟨id1Cls, 1, some 1⟩, ⟨idRestCls, 0, none⟩]

example : matchB objectRe "document:1".toList = true := by decide
example : matchB objectRe "doc:1:2".toList = false := by decide
example : matchB objectRe "document:*".toList = false := by decide

/-- C18 clause: every accepted object has exactly one ':' (stated over the declarative semantics) -/
theorem object_unique_colon (s : List Char) (h : M objectRe s) : s.count ':' = 1 := by
  have := count_flat ':' (fun a => a.min == 1 && a.max == some 1 && a.cls ':' ) objectRe s ?_ h
  · simpa [litCount, objectRe, List.filter, typeCls, id1Cls, idRestCls, colonCls] using this
  · intro a ha
    simp [objectRe] at ha
    rcases ha with rfl | rfl | rfl | rfl <;>
      simp [Lit, Excl, typeCls, id1Cls, idRestCls, colonCls, isSpace, Char.isAlphanum, Char.isAlpha, Char.isDigit, Char.isUpper, Char.isLower]
#print axioms object_unique_colon
