/-! C14/C06/C12 prototype: sorting is invariant under permutation of the input when the order is
    total and antisymmetric on the keys present (distinct keys). -/
variable {α : Type} (le : α → α → Bool)

theorem sort_perm_invariant
    (trans : ∀ a b c, le a b = true → le b c = true → le a c = true)
    (total : ∀ a b, (le a b || le b a) = true)
    (l₁ l₂ : List α) (hp : l₁.Perm l₂)
    (antisymm : ∀ a b, a ∈ l₁ → b ∈ l₁ → le a b = true → le b a = true → a = b) :
    l₁.mergeSort le = l₂.mergeSort le := by
  apply List.Perm.eq_of_pairwise (le := fun a b => le a b = true)
  · intro a b ha hb hab hba
    have ha' : a ∈ l₁ := (List.mergeSort_perm l₁ le).subset ha
    have hb' : b ∈ l₁ := hp.symm.subset ((List.mergeSort_perm l₂ le).subset hb)
    exact antisymm a b ha' hb' hab hba
  · exact List.pairwise_mergeSort trans total l₁
  · exact List.pairwise_mergeSort trans total l₂
  · exact (List.mergeSort_perm l₁ le).trans (hp.trans (List.mergeSort_perm l₂ le).symm)

#print axioms sort_perm_invariant

