def cmpChars : List Char → List Char → Ordering
  | [], [] => .eq
  | [], _ :: _ => .lt
  | _ :: _, [] => .gt
  | a :: as, b :: bs => if a.val < b.val then .lt else if b.val < a.val then .gt else cmpChars as bs

def leChars (a b : List Char) : Bool := cmpChars a b != .gt

def insertBy {α} (le : α → α → Bool) (x : α) : List α → List α
  | [] => [x]
  | y :: ys => if le x y then x :: y :: ys else y :: insertBy le x ys

def isort {α} (le : α → α → Bool) : List α → List α
  | [] => []
  | x :: xs => insertBy le x (isort le xs)

example : isort (fun x y => leChars x.1 y.1) [(['b'],1),(['a'],2),(['c'],3)] =
          isort (fun x y => leChars x.1 y.1) [(['c'],3),(['b'],1),(['a'],2)] := by decide

example : "ab".toList = ['a','b'] := by decide
example : ("ab" : String) ≤ "b" := by decide
example : "ab" ++ "c" = "abc" := by decide
