#!/bin/sh
# run every registered check (quick by default) and summarise
tier=${1:-quick}
cd "$(dirname "$0")"
for id in $(python3 -c "import json;print(' '.join(c['property_id'] for c in json.load(open('MANIFEST.json'))['checks']))"); do
  ./run $id $tier > .work/runall-$id.log 2>&1; echo "$id exit=$? $(tail -1 .work/runall-$id.log | cut -c1-200)"
done
